open BinNat
open BinNums
open Datatypes
open List
open Nat

(** val is_ws : coq_N -> bool **)

let is_ws c =
  (||)
    ((||)
      ((||)
        (N.eqb c (Npos (Coq_xO (Coq_xO (Coq_xO (Coq_xO (Coq_xO Coq_xH)))))))
        (N.eqb c (Npos (Coq_xI (Coq_xO (Coq_xO Coq_xH))))))
      (N.eqb c (Npos (Coq_xO (Coq_xI (Coq_xO Coq_xH))))))
    (N.eqb c (Npos (Coq_xI (Coq_xO (Coq_xI Coq_xH)))))

(** val digit : coq_N -> bool **)

let digit c =
  (&&) (N.leb (Npos (Coq_xO (Coq_xO (Coq_xO (Coq_xO (Coq_xI Coq_xH)))))) c)
    (N.leb c (Npos (Coq_xI (Coq_xO (Coq_xO (Coq_xI (Coq_xI Coq_xH)))))))

(** val is_hex : coq_N -> bool **)

let is_hex c =
  (||)
    ((||)
      ((&&)
        (N.leb (Npos (Coq_xO (Coq_xO (Coq_xO (Coq_xO (Coq_xI Coq_xH)))))) c)
        (N.leb c (Npos (Coq_xI (Coq_xO (Coq_xO (Coq_xI (Coq_xI Coq_xH))))))))
      ((&&)
        (N.leb (Npos (Coq_xI (Coq_xO (Coq_xO (Coq_xO (Coq_xO (Coq_xO
          Coq_xH))))))) c)
        (N.leb c (Npos (Coq_xO (Coq_xI (Coq_xI (Coq_xO (Coq_xO (Coq_xO
          Coq_xH))))))))))
    ((&&)
      (N.leb (Npos (Coq_xI (Coq_xO (Coq_xO (Coq_xO (Coq_xO (Coq_xI
        Coq_xH))))))) c)
      (N.leb c (Npos (Coq_xO (Coq_xI (Coq_xI (Coq_xO (Coq_xO (Coq_xI
        Coq_xH)))))))))

(** val hexval : coq_N -> coq_N **)

let hexval c =
  if (&&)
       (N.leb (Npos (Coq_xO (Coq_xO (Coq_xO (Coq_xO (Coq_xI Coq_xH)))))) c)
       (N.leb c (Npos (Coq_xI (Coq_xO (Coq_xO (Coq_xI (Coq_xI Coq_xH)))))))
  then N.sub c (Npos (Coq_xO (Coq_xO (Coq_xO (Coq_xO (Coq_xI Coq_xH))))))
  else if (&&)
            (N.leb (Npos (Coq_xI (Coq_xO (Coq_xO (Coq_xO (Coq_xO (Coq_xO
              Coq_xH))))))) c)
            (N.leb c (Npos (Coq_xO (Coq_xI (Coq_xI (Coq_xO (Coq_xO (Coq_xO
              Coq_xH))))))))
       then N.sub c (Npos (Coq_xI (Coq_xI (Coq_xI (Coq_xO (Coq_xI Coq_xH))))))
       else N.sub c (Npos (Coq_xI (Coq_xI (Coq_xI (Coq_xO (Coq_xI (Coq_xO
              Coq_xH)))))))

(** val ws : coq_N list -> coq_N list **)

let rec ws l = match l with
| [] -> []
| c :: r -> if is_ws c then ws r else l

(** val cont : coq_N -> bool **)

let cont c =
  (&&)
    (N.leb (Npos (Coq_xO (Coq_xO (Coq_xO (Coq_xO (Coq_xO (Coq_xO (Coq_xO
      Coq_xH)))))))) c)
    (N.leb c (Npos (Coq_xI (Coq_xI (Coq_xI (Coq_xI (Coq_xI (Coq_xI (Coq_xO
      Coq_xH)))))))))

(** val utf8_valid_f : nat -> coq_N list -> bool **)

let rec utf8_valid_f fuel l =
  match fuel with
  | O -> false
  | S f ->
    (match l with
     | [] -> true
     | c :: r ->
       if N.ltb c (Npos (Coq_xO (Coq_xO (Coq_xO (Coq_xO (Coq_xO (Coq_xO
            (Coq_xO Coq_xH))))))))
       then utf8_valid_f f r
       else if (&&)
                 (N.leb (Npos (Coq_xO (Coq_xI (Coq_xO (Coq_xO (Coq_xO (Coq_xO
                   (Coq_xI Coq_xH)))))))) c)
                 (N.leb c (Npos (Coq_xI (Coq_xI (Coq_xI (Coq_xI (Coq_xI
                   (Coq_xO (Coq_xI Coq_xH)))))))))
            then (match r with
                  | [] -> false
                  | c1 :: r1 -> (&&) (cont c1) (utf8_valid_f f r1))
            else if (&&)
                      (N.leb (Npos (Coq_xO (Coq_xO (Coq_xO (Coq_xO (Coq_xO
                        (Coq_xI (Coq_xI Coq_xH)))))))) c)
                      (N.leb c (Npos (Coq_xI (Coq_xI (Coq_xI (Coq_xI (Coq_xO
                        (Coq_xI (Coq_xI Coq_xH)))))))))
                 then (match r with
                       | [] -> false
                       | c1 :: l0 ->
                         (match l0 with
                          | [] -> false
                          | c2 :: r2 ->
                            (&&)
                              ((&&)
                                ((&&) ((&&) (cont c1) (cont c2))
                                  (if N.eqb c (Npos (Coq_xO (Coq_xO (Coq_xO
                                        (Coq_xO (Coq_xO (Coq_xI (Coq_xI
                                        Coq_xH))))))))
                                   then N.leb (Npos (Coq_xO (Coq_xO (Coq_xO
                                          (Coq_xO (Coq_xO (Coq_xI (Coq_xO
                                          Coq_xH)))))))) c1
                                   else true))
                                (if N.eqb c (Npos (Coq_xI (Coq_xO (Coq_xI
                                      (Coq_xI (Coq_xO (Coq_xI (Coq_xI
                                      Coq_xH))))))))
                                 then N.leb c1 (Npos (Coq_xI (Coq_xI (Coq_xI
                                        (Coq_xI (Coq_xI (Coq_xO (Coq_xO
                                        Coq_xH))))))))
                                 else true)) (utf8_valid_f f r2)))
                 else if (&&)
                           (N.leb (Npos (Coq_xO (Coq_xO (Coq_xO (Coq_xO
                             (Coq_xI (Coq_xI (Coq_xI Coq_xH)))))))) c)
                           (N.leb c (Npos (Coq_xO (Coq_xO (Coq_xI (Coq_xO
                             (Coq_xI (Coq_xI (Coq_xI Coq_xH)))))))))
                      then (match r with
                            | [] -> false
                            | c1 :: l0 ->
                              (match l0 with
                               | [] -> false
                               | c2 :: l1 ->
                                 (match l1 with
                                  | [] -> false
                                  | c3 :: r3 ->
                                    (&&)
                                      ((&&)
                                        ((&&)
                                          ((&&) ((&&) (cont c1) (cont c2))
                                            (cont c3))
                                          (if N.eqb c (Npos (Coq_xO (Coq_xO
                                                (Coq_xO (Coq_xO (Coq_xI
                                                (Coq_xI (Coq_xI Coq_xH))))))))
                                           then N.leb (Npos (Coq_xO (Coq_xO
                                                  (Coq_xO (Coq_xO (Coq_xI
                                                  (Coq_xO (Coq_xO
                                                  Coq_xH)))))))) c1
                                           else true))
                                        (if N.eqb c (Npos (Coq_xO (Coq_xO
                                              (Coq_xI (Coq_xO (Coq_xI (Coq_xI
                                              (Coq_xI Coq_xH))))))))
                                         then N.leb c1 (Npos (Coq_xI (Coq_xI
                                                (Coq_xI (Coq_xI (Coq_xO
                                                (Coq_xO (Coq_xO Coq_xH))))))))
                                         else true)) (utf8_valid_f f r3))))
                      else false)

(** val utf8_valid : coq_N list -> bool **)

let utf8_valid l =
  utf8_valid_f (S (length l)) l

(** val utf8_encode : coq_N -> coq_N list **)

let utf8_encode cp =
  if N.ltb cp (Npos (Coq_xO (Coq_xO (Coq_xO (Coq_xO (Coq_xO (Coq_xO (Coq_xO
       Coq_xH))))))))
  then cp :: []
  else if N.ltb cp (Npos (Coq_xO (Coq_xO (Coq_xO (Coq_xO (Coq_xO (Coq_xO
            (Coq_xO (Coq_xO (Coq_xO (Coq_xO (Coq_xO Coq_xH))))))))))))
       then (N.add (Npos (Coq_xO (Coq_xO (Coq_xO (Coq_xO (Coq_xO (Coq_xO
              (Coq_xI Coq_xH))))))))
              (N.div cp (Npos (Coq_xO (Coq_xO (Coq_xO (Coq_xO (Coq_xO (Coq_xO
                Coq_xH))))))))) :: ((N.add (Npos (Coq_xO (Coq_xO (Coq_xO
                                      (Coq_xO (Coq_xO (Coq_xO (Coq_xO
                                      Coq_xH))))))))
                                      (N.modulo cp (Npos (Coq_xO (Coq_xO
                                        (Coq_xO (Coq_xO (Coq_xO (Coq_xO
                                        Coq_xH))))))))) :: [])
       else if N.ltb cp (Npos (Coq_xO (Coq_xO (Coq_xO (Coq_xO (Coq_xO (Coq_xO
                 (Coq_xO (Coq_xO (Coq_xO (Coq_xO (Coq_xO (Coq_xO (Coq_xO
                 (Coq_xO (Coq_xO (Coq_xO Coq_xH)))))))))))))))))
            then (N.add (Npos (Coq_xO (Coq_xO (Coq_xO (Coq_xO (Coq_xO (Coq_xI
                   (Coq_xI Coq_xH))))))))
                   (N.div cp (Npos (Coq_xO (Coq_xO (Coq_xO (Coq_xO (Coq_xO
                     (Coq_xO (Coq_xO (Coq_xO (Coq_xO (Coq_xO (Coq_xO (Coq_xO
                     Coq_xH))))))))))))))) :: ((N.add (Npos (Coq_xO (Coq_xO
                                                 (Coq_xO (Coq_xO (Coq_xO
                                                 (Coq_xO (Coq_xO
                                                 Coq_xH))))))))
                                                 (N.modulo
                                                   (N.div cp (Npos (Coq_xO
                                                     (Coq_xO (Coq_xO (Coq_xO
                                                     (Coq_xO (Coq_xO
                                                     Coq_xH)))))))) (Npos
                                                   (Coq_xO (Coq_xO (Coq_xO
                                                   (Coq_xO (Coq_xO (Coq_xO
                                                   Coq_xH))))))))) :: (
                   (N.add (Npos (Coq_xO (Coq_xO (Coq_xO (Coq_xO (Coq_xO
                     (Coq_xO (Coq_xO Coq_xH))))))))
                     (N.modulo cp (Npos (Coq_xO (Coq_xO (Coq_xO (Coq_xO
                       (Coq_xO (Coq_xO Coq_xH))))))))) :: []))
            else (N.add (Npos (Coq_xO (Coq_xO (Coq_xO (Coq_xO (Coq_xI (Coq_xI
                   (Coq_xI Coq_xH))))))))
                   (N.div cp (Npos (Coq_xO (Coq_xO (Coq_xO (Coq_xO (Coq_xO
                     (Coq_xO (Coq_xO (Coq_xO (Coq_xO (Coq_xO (Coq_xO (Coq_xO
                     (Coq_xO (Coq_xO (Coq_xO (Coq_xO (Coq_xO (Coq_xO
                     Coq_xH))))))))))))))))))))) :: ((N.add (Npos (Coq_xO
                                                       (Coq_xO (Coq_xO
                                                       (Coq_xO (Coq_xO
                                                       (Coq_xO (Coq_xO
                                                       Coq_xH))))))))
                                                       (N.modulo
                                                         (N.div cp (Npos
                                                           (Coq_xO (Coq_xO
                                                           (Coq_xO (Coq_xO
                                                           (Coq_xO (Coq_xO
                                                           (Coq_xO (Coq_xO
                                                           (Coq_xO (Coq_xO
                                                           (Coq_xO (Coq_xO
                                                           Coq_xH))))))))))))))
                                                         (Npos (Coq_xO
                                                         (Coq_xO (Coq_xO
                                                         (Coq_xO (Coq_xO
                                                         (Coq_xO
                                                         Coq_xH))))))))) :: (
                   (N.add (Npos (Coq_xO (Coq_xO (Coq_xO (Coq_xO (Coq_xO
                     (Coq_xO (Coq_xO Coq_xH))))))))
                     (N.modulo
                       (N.div cp (Npos (Coq_xO (Coq_xO (Coq_xO (Coq_xO
                         (Coq_xO (Coq_xO Coq_xH)))))))) (Npos (Coq_xO (Coq_xO
                       (Coq_xO (Coq_xO (Coq_xO (Coq_xO Coq_xH))))))))) :: (
                   (N.add (Npos (Coq_xO (Coq_xO (Coq_xO (Coq_xO (Coq_xO
                     (Coq_xO (Coq_xO Coq_xH))))))))
                     (N.modulo cp (Npos (Coq_xO (Coq_xO (Coq_xO (Coq_xO
                       (Coq_xO (Coq_xO Coq_xH))))))))) :: [])))

(** val digits : coq_N list -> coq_N list **)

let rec digits l = match l with
| [] -> []
| c :: r -> if digit c then digits r else l

(** val is_e : coq_N -> bool **)

let is_e c =
  (||)
    (N.eqb c (Npos (Coq_xI (Coq_xO (Coq_xI (Coq_xO (Coq_xO (Coq_xI
      Coq_xH))))))))
    (N.eqb c (Npos (Coq_xI (Coq_xO (Coq_xI (Coq_xO (Coq_xO (Coq_xO
      Coq_xH))))))))

(** val is_sign : coq_N -> bool **)

let is_sign c =
  (||) (N.eqb c (Npos (Coq_xI (Coq_xI (Coq_xO (Coq_xI (Coq_xO Coq_xH)))))))
    (N.eqb c (Npos (Coq_xI (Coq_xO (Coq_xI (Coq_xI (Coq_xO Coq_xH)))))))

(** val num_exp : coq_N list -> coq_N list option **)

let num_exp l =
  let l1 = match l with
           | [] -> l
           | c :: r -> if is_sign c then r else l in
  (match l1 with
   | [] -> None
   | d :: r -> if digit d then Some (digits r) else None)

(** val num_after_frac : coq_N list -> coq_N list option **)

let num_after_frac l = match l with
| [] -> Some l
| c :: r -> if is_e c then num_exp r else Some l

(** val num_after_int : coq_N list -> coq_N list option **)

let num_after_int l = match l with
| [] -> Some l
| c :: r ->
  if N.eqb c (Npos (Coq_xO (Coq_xI (Coq_xI (Coq_xI (Coq_xO Coq_xH))))))
  then (match r with
        | [] -> None
        | d :: r' -> if digit d then num_after_frac (digits r') else None)
  else if is_e c then num_exp r else Some l

(** val num_int : coq_N list -> coq_N list option **)

let num_int = function
| [] -> None
| d :: r ->
  if N.eqb d (Npos (Coq_xO (Coq_xO (Coq_xO (Coq_xO (Coq_xI Coq_xH))))))
  then (match r with
        | [] -> num_after_int r
        | d2 :: _ -> if digit d2 then None else num_after_int r)
  else if digit d then num_after_int (digits r) else None

(** val num_rest : coq_N list -> coq_N list option **)

let num_rest l = match l with
| [] -> None
| c :: r ->
  if N.eqb c (Npos (Coq_xI (Coq_xO (Coq_xI (Coq_xI (Coq_xO Coq_xH))))))
  then num_int r
  else num_int l

(** val simple_escape : coq_N -> coq_N option **)

let simple_escape c =
  if N.eqb c (Npos (Coq_xO (Coq_xI (Coq_xO (Coq_xO (Coq_xO Coq_xH))))))
  then Some (Npos (Coq_xO (Coq_xI (Coq_xO (Coq_xO (Coq_xO Coq_xH))))))
  else if N.eqb c (Npos (Coq_xO (Coq_xO (Coq_xI (Coq_xI (Coq_xI (Coq_xO
            Coq_xH)))))))
       then Some (Npos (Coq_xO (Coq_xO (Coq_xI (Coq_xI (Coq_xI (Coq_xO
              Coq_xH)))))))
       else if N.eqb c (Npos (Coq_xI (Coq_xI (Coq_xI (Coq_xI (Coq_xO
                 Coq_xH))))))
            then Some (Npos (Coq_xI (Coq_xI (Coq_xI (Coq_xI (Coq_xO
                   Coq_xH))))))
            else if N.eqb c (Npos (Coq_xO (Coq_xI (Coq_xO (Coq_xO (Coq_xO
                      (Coq_xI Coq_xH)))))))
                 then Some (Npos (Coq_xO (Coq_xO (Coq_xO Coq_xH))))
                 else if N.eqb c (Npos (Coq_xO (Coq_xI (Coq_xI (Coq_xO
                           (Coq_xO (Coq_xI Coq_xH)))))))
                      then Some (Npos (Coq_xO (Coq_xO (Coq_xI Coq_xH))))
                      else if N.eqb c (Npos (Coq_xO (Coq_xI (Coq_xI (Coq_xI
                                (Coq_xO (Coq_xI Coq_xH)))))))
                           then Some (Npos (Coq_xO (Coq_xI (Coq_xO Coq_xH))))
                           else if N.eqb c (Npos (Coq_xO (Coq_xI (Coq_xO
                                     (Coq_xO (Coq_xI (Coq_xI Coq_xH)))))))
                                then Some (Npos (Coq_xI (Coq_xO (Coq_xI
                                       Coq_xH))))
                                else if N.eqb c (Npos (Coq_xO (Coq_xO (Coq_xI
                                          (Coq_xO (Coq_xI (Coq_xI
                                          Coq_xH)))))))
                                     then Some (Npos (Coq_xI (Coq_xO (Coq_xO
                                            Coq_xH))))
                                     else None

(** val hex4 : coq_N -> coq_N -> coq_N -> coq_N -> coq_N option **)

let hex4 a b c d =
  if (&&) ((&&) ((&&) (is_hex a) (is_hex b)) (is_hex c)) (is_hex d)
  then Some
         (N.add
           (N.add
             (N.add
               (N.mul (hexval a) (Npos (Coq_xO (Coq_xO (Coq_xO (Coq_xO
                 (Coq_xO (Coq_xO (Coq_xO (Coq_xO (Coq_xO (Coq_xO (Coq_xO
                 (Coq_xO Coq_xH))))))))))))))
               (N.mul (hexval b) (Npos (Coq_xO (Coq_xO (Coq_xO (Coq_xO
                 (Coq_xO (Coq_xO (Coq_xO (Coq_xO Coq_xH)))))))))))
             (N.mul (hexval c) (Npos (Coq_xO (Coq_xO (Coq_xO (Coq_xO
               Coq_xH))))))) (hexval d))
  else None

(** val str_body :
    bool -> nat -> coq_N list -> ((coq_N list * bool) * coq_N list) option **)

let rec str_body strict_cp fuel l =
  match fuel with
  | O -> None
  | S f ->
    (match l with
     | [] -> None
     | c :: r ->
       if N.eqb c (Npos (Coq_xO (Coq_xI (Coq_xO (Coq_xO (Coq_xO Coq_xH))))))
       then Some (([], false), r)
       else if N.eqb c (Npos (Coq_xO (Coq_xO (Coq_xI (Coq_xI (Coq_xI (Coq_xO
                 Coq_xH)))))))
            then (match r with
                  | [] -> None
                  | e :: r1 ->
                    if N.eqb e (Npos (Coq_xI (Coq_xO (Coq_xI (Coq_xO (Coq_xI
                         (Coq_xI Coq_xH)))))))
                    then (match r1 with
                          | [] -> None
                          | h1 :: l0 ->
                            (match l0 with
                             | [] -> None
                             | h2 :: l1 ->
                               (match l1 with
                                | [] -> None
                                | h3 :: l2 ->
                                  (match l2 with
                                   | [] -> None
                                   | h4 :: r2 ->
                                     (match hex4 h1 h2 h3 h4 with
                                      | Some cp ->
                                        if (&&)
                                             (N.leb (Npos (Coq_xO (Coq_xO
                                               (Coq_xO (Coq_xO (Coq_xO
                                               (Coq_xO (Coq_xO (Coq_xO
                                               (Coq_xO (Coq_xO (Coq_xO
                                               (Coq_xI (Coq_xI (Coq_xO
                                               (Coq_xI Coq_xH))))))))))))))))
                                               cp)
                                             (N.leb cp (Npos (Coq_xI (Coq_xI
                                               (Coq_xI (Coq_xI (Coq_xI
                                               (Coq_xI (Coq_xI (Coq_xI
                                               (Coq_xI (Coq_xI (Coq_xO
                                               (Coq_xI (Coq_xI (Coq_xO
                                               (Coq_xI Coq_xH)))))))))))))))))
                                        then let lone =
                                               if strict_cp
                                               then None
                                               else (match str_body strict_cp
                                                             f r2 with
                                                     | Some p ->
                                                       let (p0, rest) = p in
                                                       let (d, _) = p0 in
                                                       Some ((d, true), rest)
                                                     | None -> None)
                                             in
                                             (match r2 with
                                              | [] -> lone
                                              | q1 :: l3 ->
                                                (match l3 with
                                                 | [] -> lone
                                                 | q2 :: l4 ->
                                                   (match l4 with
                                                    | [] -> lone
                                                    | g1 :: l5 ->
                                                      (match l5 with
                                                       | [] -> lone
                                                       | g2 :: l6 ->
                                                         (match l6 with
                                                          | [] -> lone
                                                          | g3 :: l7 ->
                                                            (match l7 with
                                                             | [] -> lone
                                                             | g4 :: r3 ->
                                                               if (&&)
                                                                    (N.eqb q1
                                                                    (Npos
                                                                    (Coq_xO
                                                                    (Coq_xO
                                                                    (Coq_xI
                                                                    (Coq_xI
                                                                    (Coq_xI
                                                                    (Coq_xO
                                                                    Coq_xH))))))))
                                                                    (N.eqb q2
                                                                    (Npos
                                                                    (Coq_xI
                                                                    (Coq_xO
                                                                    (Coq_xI
                                                                    (Coq_xO
                                                                    (Coq_xI
                                                                    (Coq_xI
                                                                    Coq_xH))))))))
                                                               then (match 
                                                                    hex4 g1
                                                                    g2 g3 g4 with
                                                                    | Some lo ->
                                                                    if 
                                                                    (&&)
                                                                    (N.leb
                                                                    (Npos
                                                                    (Coq_xO
                                                                    (Coq_xO
                                                                    (Coq_xO
                                                                    (Coq_xO
                                                                    (Coq_xO
                                                                    (Coq_xO
                                                                    (Coq_xO
                                                                    (Coq_xO
                                                                    (Coq_xO
                                                                    (Coq_xO
                                                                    (Coq_xI
                                                                    (Coq_xI
                                                                    (Coq_xI
                                                                    (Coq_xO
                                                                    (Coq_xI
                                                                    Coq_xH))))))))))))))))
                                                                    lo)
                                                                    (N.leb lo
                                                                    (Npos
                                                                    (Coq_xI
                                                                    (Coq_xI
                                                                    (Coq_xI
                                                                    (Coq_xI
                                                                    (Coq_xI
                                                                    (Coq_xI
                                                                    (Coq_xI
                                                                    (Coq_xI
                                                                    (Coq_xI
                                                                    (Coq_xI
                                                                    (Coq_xI
                                                                    (Coq_xI
                                                                    (Coq_xI
                                                                    (Coq_xO
                                                                    (Coq_xI
                                                                    Coq_xH)))))))))))))))))
                                                                    then 
                                                                    (match 
                                                                    str_body
                                                                    strict_cp
                                                                    f r3 with
                                                                    | Some p ->
                                                                    let (
                                                                    p0, rest) =
                                                                    p
                                                                    in
                                                                    let (
                                                                    d, _) = p0
                                                                    in
                                                                    Some
                                                                    ((
                                                                    (app
                                                                    (utf8_encode
                                                                    (N.add
                                                                    (N.add
                                                                    (Npos
                                                                    (Coq_xO
                                                                    (Coq_xO
                                                                    (Coq_xO
                                                                    (Coq_xO
                                                                    (Coq_xO
                                                                    (Coq_xO
                                                                    (Coq_xO
                                                                    (Coq_xO
                                                                    (Coq_xO
                                                                    (Coq_xO
                                                                    (Coq_xO
                                                                    (Coq_xO
                                                                    (Coq_xO
                                                                    (Coq_xO
                                                                    (Coq_xO
                                                                    (Coq_xO
                                                                    Coq_xH)))))))))))))))))
                                                                    (N.mul
                                                                    (N.sub cp
                                                                    (Npos
                                                                    (Coq_xO
                                                                    (Coq_xO
                                                                    (Coq_xO
                                                                    (Coq_xO
                                                                    (Coq_xO
                                                                    (Coq_xO
                                                                    (Coq_xO
                                                                    (Coq_xO
                                                                    (Coq_xO
                                                                    (Coq_xO
                                                                    (Coq_xO
                                                                    (Coq_xI
                                                                    (Coq_xI
                                                                    (Coq_xO
                                                                    (Coq_xI
                                                                    Coq_xH)))))))))))))))))
                                                                    (Npos
                                                                    (Coq_xO
                                                                    (Coq_xO
                                                                    (Coq_xO
                                                                    (Coq_xO
                                                                    (Coq_xO
                                                                    (Coq_xO
                                                                    (Coq_xO
                                                                    (Coq_xO
                                                                    (Coq_xO
                                                                    (Coq_xO
                                                                    Coq_xH)))))))))))))
                                                                    (N.sub lo
                                                                    (Npos
                                                                    (Coq_xO
                                                                    (Coq_xO
                                                                    (Coq_xO
                                                                    (Coq_xO
                                                                    (Coq_xO
                                                                    (Coq_xO
                                                                    (Coq_xO
                                                                    (Coq_xO
                                                                    (Coq_xO
                                                                    (Coq_xO
                                                                    (Coq_xI
                                                                    (Coq_xI
                                                                    (Coq_xI
                                                                    (Coq_xO
                                                                    (Coq_xI
                                                                    Coq_xH)))))))))))))))))))
                                                                    d),
                                                                    true),
                                                                    rest)
                                                                    | None ->
                                                                    None)
                                                                    else lone
                                                                    | None ->
                                                                    lone)
                                                               else lone))))))
                                        else if (&&)
                                                  (N.leb (Npos (Coq_xO
                                                    (Coq_xO (Coq_xO (Coq_xO
                                                    (Coq_xO (Coq_xO (Coq_xO
                                                    (Coq_xO (Coq_xO (Coq_xO
                                                    (Coq_xI (Coq_xI (Coq_xI
                                                    (Coq_xO (Coq_xI
                                                    Coq_xH)))))))))))))))) cp)
                                                  (N.leb cp (Npos (Coq_xI
                                                    (Coq_xI (Coq_xI (Coq_xI
                                                    (Coq_xI (Coq_xI (Coq_xI
                                                    (Coq_xI (Coq_xI (Coq_xI
                                                    (Coq_xI (Coq_xI (Coq_xI
                                                    (Coq_xO (Coq_xI
                                                    Coq_xH)))))))))))))))))
                                             then if strict_cp
                                                  then None
                                                  else (match str_body
                                                                strict_cp f r2 with
                                                        | Some p ->
                                                          let (p0, rest) = p
                                                          in
                                                          let (d, _) = p0 in
                                                          Some ((d, true),
                                                          rest)
                                                        | None -> None)
                                             else (match str_body strict_cp f
                                                           r2 with
                                                   | Some p ->
                                                     let (p0, rest) = p in
                                                     let (d, _) = p0 in
                                                     Some
                                                     (((app (utf8_encode cp)
                                                         d), true), rest)
                                                   | None -> None)
                                      | None -> None)))))
                    else (match simple_escape e with
                          | Some o ->
                            (match str_body strict_cp f r1 with
                             | Some p ->
                               let (p0, rest) = p in
                               let (d, _) = p0 in
                               Some (((o :: d), true), rest)
                             | None -> None)
                          | None -> None))
            else if N.ltb c (Npos (Coq_xO (Coq_xO (Coq_xO (Coq_xO (Coq_xO
                      Coq_xH))))))
                 then None
                 else (match str_body strict_cp f r with
                       | Some p ->
                         let (p0, rest) = p in
                         let (d, h) = p0 in Some (((c :: d), h), rest)
                       | None -> None))

type jv =
| JNull
| JBool of bool
| JNum of coq_N list
| JStr of coq_N list * bool
| JArr of ((nat * nat) * jv) list
| JObj of (((coq_N list * nat) * nat) * jv) list

(** val jv_rect :
    'a1 -> (bool -> 'a1) -> (coq_N list -> 'a1) -> (coq_N list -> bool ->
    'a1) -> (((nat * nat) * jv) list -> 'a1) -> ((((coq_N
    list * nat) * nat) * jv) list -> 'a1) -> jv -> 'a1 **)

let jv_rect f f0 f1 f2 f3 f4 = function
| JNull -> f
| JBool b -> f0 b
| JNum lit -> f1 lit
| JStr (dec, esc) -> f2 dec esc
| JArr xs -> f3 xs
| JObj ms -> f4 ms

(** val jv_rec :
    'a1 -> (bool -> 'a1) -> (coq_N list -> 'a1) -> (coq_N list -> bool ->
    'a1) -> (((nat * nat) * jv) list -> 'a1) -> ((((coq_N
    list * nat) * nat) * jv) list -> 'a1) -> jv -> 'a1 **)

let jv_rec f f0 f1 f2 f3 f4 = function
| JNull -> f
| JBool b -> f0 b
| JNum lit -> f1 lit
| JStr (dec, esc) -> f2 dec esc
| JArr xs -> f3 xs
| JObj ms -> f4 ms

(** val take_prefix : coq_N list -> coq_N list -> coq_N list **)

let take_prefix l rest =
  firstn (sub (length l) (length rest)) l

(** val lit_match : coq_N list -> coq_N list -> coq_N list option **)

let lit_match word l =
  if (&&) (PeanoNat.Nat.leb (length word) (length l))
       (if list_eq_dec N.eq_dec (firstn (length word) l) word
        then true
        else false)
  then Some (skipn (length word) l)
  else None

(** val pvalue :
    bool -> nat -> nat -> coq_N list -> (((jv * nat) * nat) * coq_N list)
    option **)

let rec pvalue strict_cp fuel pos l =
  match fuel with
  | O -> None
  | S f ->
    let l1 = ws l in
    let p1 = add pos (sub (length l) (length l1)) in
    (match l1 with
     | [] -> None
     | c :: r ->
       if N.eqb c (Npos (Coq_xO (Coq_xI (Coq_xO (Coq_xO (Coq_xO Coq_xH))))))
       then (match str_body strict_cp (S (length r)) r with
             | Some p ->
               let (p0, rest) = p in
               let (d, h) = p0 in
               Some ((((JStr (d, h)), p1),
               (add p1 (sub (length l1) (length rest)))), rest)
             | None -> None)
       else if N.eqb c (Npos (Coq_xI (Coq_xI (Coq_xO (Coq_xI (Coq_xI (Coq_xO
                 Coq_xH)))))))
            then let r1 = ws r in
                 (match r1 with
                  | [] ->
                    (match pelems strict_cp f (S p1) r with
                     | Some p ->
                       let (xs, rest) = p in
                       Some ((((JArr xs), p1),
                       (add p1 (sub (length l1) (length rest)))), rest)
                     | None -> None)
                  | n :: rest ->
                    (match n with
                     | N0 ->
                       (match pelems strict_cp f (S p1) r with
                        | Some p ->
                          let (xs, rest0) = p in
                          Some ((((JArr xs), p1),
                          (add p1 (sub (length l1) (length rest0)))), rest0)
                        | None -> None)
                     | Npos p ->
                       (match p with
                        | Coq_xI p0 ->
                          (match p0 with
                           | Coq_xO p2 ->
                             (match p2 with
                              | Coq_xI p3 ->
                                (match p3 with
                                 | Coq_xI p4 ->
                                   (match p4 with
                                    | Coq_xI p5 ->
                                      (match p5 with
                                       | Coq_xO p6 ->
                                         (match p6 with
                                          | Coq_xH ->
                                            Some ((((JArr []), p1),
                                              (add p1
                                                (sub (length l1)
                                                  (length rest)))), rest)
                                          | _ ->
                                            (match pelems strict_cp f (S p1) r with
                                             | Some p7 ->
                                               let (xs, rest0) = p7 in
                                               Some ((((JArr xs), p1),
                                               (add p1
                                                 (sub (length l1)
                                                   (length rest0)))), rest0)
                                             | None -> None))
                                       | _ ->
                                         (match pelems strict_cp f (S p1) r with
                                          | Some p6 ->
                                            let (xs, rest0) = p6 in
                                            Some ((((JArr xs), p1),
                                            (add p1
                                              (sub (length l1) (length rest0)))),
                                            rest0)
                                          | None -> None))
                                    | _ ->
                                      (match pelems strict_cp f (S p1) r with
                                       | Some p5 ->
                                         let (xs, rest0) = p5 in
                                         Some ((((JArr xs), p1),
                                         (add p1
                                           (sub (length l1) (length rest0)))),
                                         rest0)
                                       | None -> None))
                                 | _ ->
                                   (match pelems strict_cp f (S p1) r with
                                    | Some p4 ->
                                      let (xs, rest0) = p4 in
                                      Some ((((JArr xs), p1),
                                      (add p1
                                        (sub (length l1) (length rest0)))),
                                      rest0)
                                    | None -> None))
                              | _ ->
                                (match pelems strict_cp f (S p1) r with
                                 | Some p3 ->
                                   let (xs, rest0) = p3 in
                                   Some ((((JArr xs), p1),
                                   (add p1 (sub (length l1) (length rest0)))),
                                   rest0)
                                 | None -> None))
                           | _ ->
                             (match pelems strict_cp f (S p1) r with
                              | Some p2 ->
                                let (xs, rest0) = p2 in
                                Some ((((JArr xs), p1),
                                (add p1 (sub (length l1) (length rest0)))),
                                rest0)
                              | None -> None))
                        | _ ->
                          (match pelems strict_cp f (S p1) r with
                           | Some p0 ->
                             let (xs, rest0) = p0 in
                             Some ((((JArr xs), p1),
                             (add p1 (sub (length l1) (length rest0)))),
                             rest0)
                           | None -> None))))
            else if N.eqb c (Npos (Coq_xI (Coq_xI (Coq_xO (Coq_xI (Coq_xI
                      (Coq_xI Coq_xH)))))))
                 then let r1 = ws r in
                      (match r1 with
                       | [] ->
                         (match pmembers strict_cp f (S p1) r with
                          | Some p ->
                            let (ms, rest) = p in
                            Some ((((JObj ms), p1),
                            (add p1 (sub (length l1) (length rest)))), rest)
                          | None -> None)
                       | n :: rest ->
                         (match n with
                          | N0 ->
                            (match pmembers strict_cp f (S p1) r with
                             | Some p ->
                               let (ms, rest0) = p in
                               Some ((((JObj ms), p1),
                               (add p1 (sub (length l1) (length rest0)))),
                               rest0)
                             | None -> None)
                          | Npos p ->
                            (match p with
                             | Coq_xI p0 ->
                               (match p0 with
                                | Coq_xO p2 ->
                                  (match p2 with
                                   | Coq_xI p3 ->
                                     (match p3 with
                                      | Coq_xI p4 ->
                                        (match p4 with
                                         | Coq_xI p5 ->
                                           (match p5 with
                                            | Coq_xI p6 ->
                                              (match p6 with
                                               | Coq_xH ->
                                                 Some ((((JObj []), p1),
                                                   (add p1
                                                     (sub (length l1)
                                                       (length rest)))), rest)
                                               | _ ->
                                                 (match pmembers strict_cp f
                                                          (S p1) r with
                                                  | Some p7 ->
                                                    let (ms, rest0) = p7 in
                                                    Some ((((JObj ms), p1),
                                                    (add p1
                                                      (sub (length l1)
                                                        (length rest0)))),
                                                    rest0)
                                                  | None -> None))
                                            | _ ->
                                              (match pmembers strict_cp f (S
                                                       p1) r with
                                               | Some p6 ->
                                                 let (ms, rest0) = p6 in
                                                 Some ((((JObj ms), p1),
                                                 (add p1
                                                   (sub (length l1)
                                                     (length rest0)))), rest0)
                                               | None -> None))
                                         | _ ->
                                           (match pmembers strict_cp f (S p1)
                                                    r with
                                            | Some p5 ->
                                              let (ms, rest0) = p5 in
                                              Some ((((JObj ms), p1),
                                              (add p1
                                                (sub (length l1)
                                                  (length rest0)))), rest0)
                                            | None -> None))
                                      | _ ->
                                        (match pmembers strict_cp f (S p1) r with
                                         | Some p4 ->
                                           let (ms, rest0) = p4 in
                                           Some ((((JObj ms), p1),
                                           (add p1
                                             (sub (length l1) (length rest0)))),
                                           rest0)
                                         | None -> None))
                                   | _ ->
                                     (match pmembers strict_cp f (S p1) r with
                                      | Some p3 ->
                                        let (ms, rest0) = p3 in
                                        Some ((((JObj ms), p1),
                                        (add p1
                                          (sub (length l1) (length rest0)))),
                                        rest0)
                                      | None -> None))
                                | _ ->
                                  (match pmembers strict_cp f (S p1) r with
                                   | Some p2 ->
                                     let (ms, rest0) = p2 in
                                     Some ((((JObj ms), p1),
                                     (add p1 (sub (length l1) (length rest0)))),
                                     rest0)
                                   | None -> None))
                             | _ ->
                               (match pmembers strict_cp f (S p1) r with
                                | Some p0 ->
                                  let (ms, rest0) = p0 in
                                  Some ((((JObj ms), p1),
                                  (add p1 (sub (length l1) (length rest0)))),
                                  rest0)
                                | None -> None))))
                 else if N.eqb c (Npos (Coq_xO (Coq_xO (Coq_xI (Coq_xO
                           (Coq_xI (Coq_xI Coq_xH)))))))
                      then (match lit_match ((Npos (Coq_xO (Coq_xI (Coq_xO
                                    (Coq_xO (Coq_xI (Coq_xI
                                    Coq_xH))))))) :: ((Npos (Coq_xI (Coq_xO
                                    (Coq_xI (Coq_xO (Coq_xI (Coq_xI
                                    Coq_xH))))))) :: ((Npos (Coq_xI (Coq_xO
                                    (Coq_xI (Coq_xO (Coq_xO (Coq_xI
                                    Coq_xH))))))) :: []))) r with
                            | Some rest ->
                              Some ((((JBool true), p1),
                                (add p1 (S (S (S (S O)))))), rest)
                            | None -> None)
                      else if N.eqb c (Npos (Coq_xO (Coq_xI (Coq_xI (Coq_xO
                                (Coq_xO (Coq_xI Coq_xH)))))))
                           then (match lit_match ((Npos (Coq_xI (Coq_xO
                                         (Coq_xO (Coq_xO (Coq_xO (Coq_xI
                                         Coq_xH))))))) :: ((Npos (Coq_xO
                                         (Coq_xO (Coq_xI (Coq_xI (Coq_xO
                                         (Coq_xI Coq_xH))))))) :: ((Npos
                                         (Coq_xI (Coq_xI (Coq_xO (Coq_xO
                                         (Coq_xI (Coq_xI
                                         Coq_xH))))))) :: ((Npos (Coq_xI
                                         (Coq_xO (Coq_xI (Coq_xO (Coq_xO
                                         (Coq_xI Coq_xH))))))) :: [])))) r with
                                 | Some rest ->
                                   Some ((((JBool false), p1),
                                     (add p1 (S (S (S (S (S O))))))), rest)
                                 | None -> None)
                           else if N.eqb c (Npos (Coq_xO (Coq_xI (Coq_xI
                                     (Coq_xI (Coq_xO (Coq_xI Coq_xH)))))))
                                then (match lit_match ((Npos (Coq_xI (Coq_xO
                                              (Coq_xI (Coq_xO (Coq_xI (Coq_xI
                                              Coq_xH))))))) :: ((Npos (Coq_xO
                                              (Coq_xO (Coq_xI (Coq_xI (Coq_xO
                                              (Coq_xI Coq_xH))))))) :: ((Npos
                                              (Coq_xO (Coq_xO (Coq_xI (Coq_xI
                                              (Coq_xO (Coq_xI
                                              Coq_xH))))))) :: []))) r with
                                      | Some rest ->
                                        Some (((JNull, p1),
                                          (add p1 (S (S (S (S O)))))), rest)
                                      | None -> None)
                                else if (||)
                                          (N.eqb c (Npos (Coq_xI (Coq_xO
                                            (Coq_xI (Coq_xI (Coq_xO
                                            Coq_xH))))))) (digit c)
                                     then (match num_rest l1 with
                                           | Some rest ->
                                             Some ((((JNum
                                               (take_prefix l1 rest)), p1),
                                               (add p1
                                                 (sub (length l1)
                                                   (length rest)))), rest)
                                           | None -> None)
                                     else None)

(** val pelems :
    bool -> nat -> nat -> coq_N list -> (((nat * nat) * jv) list * coq_N
    list) option **)

and pelems strict_cp fuel pos l =
  match fuel with
  | O -> None
  | S f ->
    (match pvalue strict_cp f pos l with
     | Some p ->
       let (p0, rest) = p in
       let (p1, b) = p0 in
       let (v, a) = p1 in
       let r1 = ws rest in
       let p2 = add b (sub (length rest) (length r1)) in
       (match r1 with
        | [] -> None
        | n :: r2 ->
          (match n with
           | N0 -> None
           | Npos p3 ->
             (match p3 with
              | Coq_xI p4 ->
                (match p4 with
                 | Coq_xO p5 ->
                   (match p5 with
                    | Coq_xI p6 ->
                      (match p6 with
                       | Coq_xI p7 ->
                         (match p7 with
                          | Coq_xI p8 ->
                            (match p8 with
                             | Coq_xO p9 ->
                               (match p9 with
                                | Coq_xH -> Some ((((a, b), v) :: []), r2)
                                | _ -> None)
                             | _ -> None)
                          | _ -> None)
                       | _ -> None)
                    | _ -> None)
                 | _ -> None)
              | Coq_xO p4 ->
                (match p4 with
                 | Coq_xO p5 ->
                   (match p5 with
                    | Coq_xI p6 ->
                      (match p6 with
                       | Coq_xI p7 ->
                         (match p7 with
                          | Coq_xO p8 ->
                            (match p8 with
                             | Coq_xH ->
                               (match pelems strict_cp f (S p2) r2 with
                                | Some p9 ->
                                  let (xs, r3) = p9 in
                                  Some ((((a, b), v) :: xs), r3)
                                | None -> None)
                             | _ -> None)
                          | _ -> None)
                       | _ -> None)
                    | _ -> None)
                 | _ -> None)
              | Coq_xH -> None)))
     | None -> None)

(** val pmembers :
    bool -> nat -> nat -> coq_N list -> ((((coq_N list * nat) * nat) * jv)
    list * coq_N list) option **)

and pmembers strict_cp fuel pos l =
  match fuel with
  | O -> None
  | S f ->
    let l1 = ws l in
    let p1 = add pos (sub (length l) (length l1)) in
    (match l1 with
     | [] -> None
     | n :: r ->
       (match n with
        | N0 -> None
        | Npos p ->
          (match p with
           | Coq_xO p0 ->
             (match p0 with
              | Coq_xI p2 ->
                (match p2 with
                 | Coq_xO p3 ->
                   (match p3 with
                    | Coq_xO p4 ->
                      (match p4 with
                       | Coq_xO p5 ->
                         (match p5 with
                          | Coq_xH ->
                            (match str_body strict_cp (S (length r)) r with
                             | Some p6 ->
                               let (p7, rest) = p6 in
                               let (k, _) = p7 in
                               let pk = add p1 (sub (length l1) (length rest))
                               in
                               let r1 = ws rest in
                               let pc = add pk (sub (length rest) (length r1))
                               in
                               (match r1 with
                                | [] -> None
                                | n0 :: r2 ->
                                  (match n0 with
                                   | N0 -> None
                                   | Npos p8 ->
                                     (match p8 with
                                      | Coq_xO p9 ->
                                        (match p9 with
                                         | Coq_xI p10 ->
                                           (match p10 with
                                            | Coq_xO p11 ->
                                              (match p11 with
                                               | Coq_xI p12 ->
                                                 (match p12 with
                                                  | Coq_xI p13 ->
                                                    (match p13 with
                                                     | Coq_xH ->
                                                       (match pvalue
                                                                strict_cp f
                                                                (S pc) r2 with
                                                        | Some p14 ->
                                                          let (p15, r3) = p14
                                                          in
                                                          let (p16, b) = p15
                                                          in
                                                          let (v, a) = p16 in
                                                          let r4 = ws r3 in
                                                          let p17 =
                                                            add b
                                                              (sub
                                                                (length r3)
                                                                (length r4))
                                                          in
                                                          (match r4 with
                                                           | [] -> None
                                                           | n1 :: r5 ->
                                                             (match n1 with
                                                              | N0 -> None
                                                              | Npos p18 ->
                                                                (match p18 with
                                                                 | Coq_xI p19 ->
                                                                   (match p19 with
                                                                    | Coq_xO p20 ->
                                                                    (match p20 with
                                                                    | Coq_xI p21 ->
                                                                    (match p21 with
                                                                    | Coq_xI p22 ->
                                                                    (match p22 with
                                                                    | Coq_xI p23 ->
                                                                    (match p23 with
                                                                    | Coq_xI p24 ->
                                                                    (match p24 with
                                                                    | Coq_xH ->
                                                                    Some
                                                                    (((((k,
                                                                    a), b),
                                                                    v) :: []),
                                                                    r5)
                                                                    | _ ->
                                                                    None)
                                                                    | _ ->
                                                                    None)
                                                                    | _ ->
                                                                    None)
                                                                    | _ ->
                                                                    None)
                                                                    | _ ->
                                                                    None)
                                                                    | _ ->
                                                                    None)
                                                                 | Coq_xO p19 ->
                                                                   (match p19 with
                                                                    | Coq_xO p20 ->
                                                                    (match p20 with
                                                                    | Coq_xI p21 ->
                                                                    (match p21 with
                                                                    | Coq_xI p22 ->
                                                                    (match p22 with
                                                                    | Coq_xO p23 ->
                                                                    (match p23 with
                                                                    | Coq_xH ->
                                                                    (match 
                                                                    pmembers
                                                                    strict_cp
                                                                    f (S p17)
                                                                    r5 with
                                                                    | Some p24 ->
                                                                    let (
                                                                    ms, r6) =
                                                                    p24
                                                                    in
                                                                    Some
                                                                    (((((k,
                                                                    a), b),
                                                                    v) :: ms),
                                                                    r6)
                                                                    | None ->
                                                                    None)
                                                                    | _ ->
                                                                    None)
                                                                    | _ ->
                                                                    None)
                                                                    | _ ->
                                                                    None)
                                                                    | _ ->
                                                                    None)
                                                                    | _ ->
                                                                    None)
                                                                 | Coq_xH ->
                                                                   None)))
                                                        | None -> None)
                                                     | _ -> None)
                                                  | _ -> None)
                                               | _ -> None)
                                            | _ -> None)
                                         | _ -> None)
                                      | _ -> None)))
                             | None -> None)
                          | _ -> None)
                       | _ -> None)
                    | _ -> None)
                 | _ -> None)
              | _ -> None)
           | _ -> None)))

(** val fuel_for : coq_N list -> nat **)

let fuel_for l =
  S (S (length l))

(** val ref_text : bool -> coq_N list -> ((jv * nat) * nat) option **)

let ref_text strict_cp l =
  match pvalue strict_cp (fuel_for l) O l with
  | Some p ->
    let (p0, rest) = p in (match ws rest with
                           | [] -> Some p0
                           | _ :: _ -> None)
  | None -> None

(** val ref_first : bool -> coq_N list -> ((jv * nat) * nat) option **)

let ref_first strict_cp l =
  match pvalue strict_cp (fuel_for l) O l with
  | Some p -> let (p0, _) = p in Some p0
  | None -> None

(** val rfc_text : coq_N list -> bool **)

let rfc_text l =
  match ref_text false l with
  | Some _ -> true
  | None -> false

(** val skip_accepts : coq_N list -> bool **)

let skip_accepts l =
  (&&) (utf8_valid l) (rfc_text l)

(** val full_accepts_grammar : coq_N list -> bool **)

let full_accepts_grammar l =
  (&&) (utf8_valid l)
    (match ref_text true l with
     | Some _ -> true
     | None -> false)

(** val depth : jv -> nat **)

let rec depth = function
| JArr xs ->
  S (fold_right (fun x m -> PeanoNat.Nat.max (depth (snd x)) m) O xs)
| JObj ms ->
  S (fold_right (fun x m -> PeanoNat.Nat.max (depth (snd x)) m) O ms)
| _ -> O

type pelem =
| PKey of coq_N list
| PIdx of nat

(** val pelem_rect : (coq_N list -> 'a1) -> (nat -> 'a1) -> pelem -> 'a1 **)

let pelem_rect f f0 = function
| PKey k -> f k
| PIdx i -> f0 i

(** val pelem_rec : (coq_N list -> 'a1) -> (nat -> 'a1) -> pelem -> 'a1 **)

let pelem_rec f f0 = function
| PKey k -> f k
| PIdx i -> f0 i

(** val bytes_eqb : coq_N list -> coq_N list -> bool **)

let rec bytes_eqb a b =
  match a with
  | [] -> (match b with
           | [] -> true
           | _ :: _ -> false)
  | x :: a' ->
    (match b with
     | [] -> false
     | y :: b' -> (&&) (N.eqb x y) (bytes_eqb a' b'))

(** val assoc_first :
    (((coq_N list * nat) * nat) * jv) list -> coq_N list ->
    ((nat * nat) * jv) option **)

let rec assoc_first ms k =
  match ms with
  | [] -> None
  | p :: r ->
    let (p0, v) = p in
    let (p1, b) = p0 in
    let (k', a) = p1 in
    if bytes_eqb k' k then Some ((a, b), v) else assoc_first r k

type lookup_res =
| Found of nat * nat * jv
| Missing
| WrongKind

(** val lookup_res_rect :
    (nat -> nat -> jv -> 'a1) -> 'a1 -> 'a1 -> lookup_res -> 'a1 **)

let lookup_res_rect f f0 f1 = function
| Found (a, b, v) -> f a b v
| Missing -> f0
| WrongKind -> f1

(** val lookup_res_rec :
    (nat -> nat -> jv -> 'a1) -> 'a1 -> 'a1 -> lookup_res -> 'a1 **)

let lookup_res_rec f f0 f1 = function
| Found (a, b, v) -> f a b v
| Missing -> f0
| WrongKind -> f1

(** val lookup : jv -> nat -> nat -> pelem list -> lookup_res **)

let rec lookup v a b = function
| [] -> Found (a, b, v)
| p0 :: p' ->
  (match p0 with
   | PKey k ->
     (match v with
      | JObj ms ->
        (match assoc_first ms k with
         | Some p1 ->
           let (p2, v') = p1 in let (a', b') = p2 in lookup v' a' b' p'
         | None -> Missing)
      | _ -> WrongKind)
   | PIdx i ->
     (match v with
      | JArr xs ->
        (match nth_error xs i with
         | Some p1 ->
           let (p2, v') = p1 in let (a', b') = p2 in lookup v' a' b' p'
         | None -> Missing)
      | _ -> WrongKind))

(** val has_dup_keys : nat -> jv -> bool **)

let rec has_dup_keys fuel v =
  match fuel with
  | O -> false
  | S f ->
    (match v with
     | JArr xs -> existsb (fun x -> has_dup_keys f (snd x)) xs
     | JObj ms ->
       let rec go = function
       | [] -> false
       | p :: r ->
         let (p0, x) = p in
         let (p1, _) = p0 in
         let (k, _) = p1 in
         (||)
           ((||) (existsb (fun m -> bytes_eqb (fst (fst (fst m))) k) r)
             (has_dup_keys f x)) (go r)
       in go ms
     | _ -> false)

(** val skip_elems : nat -> nat -> coq_N list -> (nat * coq_N list) option **)

let rec skip_elems i pos l =
  match i with
  | O -> Some (pos, l)
  | S j ->
    (match pvalue false (fuel_for l) pos l with
     | Some p ->
       let (p0, rest) = p in
       let (_, b) = p0 in
       let r1 = ws rest in
       (match r1 with
        | [] -> None
        | n :: r2 ->
          (match n with
           | N0 -> None
           | Npos p1 ->
             (match p1 with
              | Coq_xO p2 ->
                (match p2 with
                 | Coq_xO p3 ->
                   (match p3 with
                    | Coq_xI p4 ->
                      (match p4 with
                       | Coq_xI p5 ->
                         (match p5 with
                          | Coq_xO p6 ->
                            (match p6 with
                             | Coq_xH ->
                               skip_elems j (S
                                 (add b (sub (length rest) (length r1)))) r2
                             | _ -> None)
                          | _ -> None)
                       | _ -> None)
                    | _ -> None)
                 | _ -> None)
              | _ -> None)))
     | None -> None)

(** val find_member :
    nat -> coq_N list -> nat -> coq_N list -> (nat * coq_N list) option **)

let rec find_member fuel k pos l =
  match fuel with
  | O -> None
  | S f ->
    let l1 = ws l in
    let p1 = add pos (sub (length l) (length l1)) in
    (match l1 with
     | [] -> None
     | n :: r ->
       (match n with
        | N0 -> None
        | Npos p ->
          (match p with
           | Coq_xO p0 ->
             (match p0 with
              | Coq_xI p2 ->
                (match p2 with
                 | Coq_xO p3 ->
                   (match p3 with
                    | Coq_xO p4 ->
                      (match p4 with
                       | Coq_xO p5 ->
                         (match p5 with
                          | Coq_xH ->
                            (match str_body true (S (length r)) r with
                             | Some p6 ->
                               let (p7, rest) = p6 in
                               let (key, _) = p7 in
                               let pk = add p1 (sub (length l1) (length rest))
                               in
                               let r1 = ws rest in
                               let pc = add pk (sub (length rest) (length r1))
                               in
                               (match r1 with
                                | [] -> None
                                | n0 :: r2 ->
                                  (match n0 with
                                   | N0 -> None
                                   | Npos p8 ->
                                     (match p8 with
                                      | Coq_xO p9 ->
                                        (match p9 with
                                         | Coq_xI p10 ->
                                           (match p10 with
                                            | Coq_xO p11 ->
                                              (match p11 with
                                               | Coq_xI p12 ->
                                                 (match p12 with
                                                  | Coq_xI p13 ->
                                                    (match p13 with
                                                     | Coq_xH ->
                                                       if bytes_eqb key k
                                                       then Some ((S pc), r2)
                                                       else (match pvalue
                                                                    false
                                                                    (fuel_for
                                                                    r2) (S
                                                                    pc) r2 with
                                                             | Some p14 ->
                                                               let (p15, r3) =
                                                                 p14
                                                               in
                                                               let (_, b) =
                                                                 p15
                                                               in
                                                               let r4 = ws r3
                                                               in
                                                               (match r4 with
                                                                | [] -> None
                                                                | n1 :: r5 ->
                                                                  (match n1 with
                                                                   | N0 ->
                                                                    None
                                                                   | Npos p16 ->
                                                                    (match p16 with
                                                                    | Coq_xO p17 ->
                                                                    (match p17 with
                                                                    | Coq_xO p18 ->
                                                                    (match p18 with
                                                                    | Coq_xI p19 ->
                                                                    (match p19 with
                                                                    | Coq_xI p20 ->
                                                                    (match p20 with
                                                                    | Coq_xO p21 ->
                                                                    (match p21 with
                                                                    | Coq_xH ->
                                                                    find_member
                                                                    f k (S
                                                                    (add b
                                                                    (sub
                                                                    (length
                                                                    r3)
                                                                    (length
                                                                    r4)))) r5
                                                                    | _ ->
                                                                    None)
                                                                    | _ ->
                                                                    None)
                                                                    | _ ->
                                                                    None)
                                                                    | _ ->
                                                                    None)
                                                                    | _ ->
                                                                    None)
                                                                    | _ ->
                                                                    None)))
                                                             | None -> None)
                                                     | _ -> None)
                                                  | _ -> None)
                                               | _ -> None)
                                            | _ -> None)
                                         | _ -> None)
                                      | _ -> None)))
                             | None -> None)
                          | _ -> None)
                       | _ -> None)
                    | _ -> None)
                 | _ -> None)
              | _ -> None)
           | _ -> None)))

(** val ref_get_at : pelem list -> nat -> coq_N list -> (nat * nat) option **)

let rec ref_get_at p pos l =
  match p with
  | [] ->
    (match pvalue false (fuel_for l) pos l with
     | Some p0 ->
       let (p1, _) = p0 in let (p2, b) = p1 in let (_, a) = p2 in Some (a, b)
     | None -> None)
  | p0 :: p' ->
    (match p0 with
     | PKey k ->
       let l1 = ws l in
       let p1 = add pos (sub (length l) (length l1)) in
       (match l1 with
        | [] -> None
        | n :: r ->
          (match n with
           | N0 -> None
           | Npos p2 ->
             (match p2 with
              | Coq_xI p3 ->
                (match p3 with
                 | Coq_xI p4 ->
                   (match p4 with
                    | Coq_xO p5 ->
                      (match p5 with
                       | Coq_xI p6 ->
                         (match p6 with
                          | Coq_xI p7 ->
                            (match p7 with
                             | Coq_xI p8 ->
                               (match p8 with
                                | Coq_xH ->
                                  (match find_member (S (length r)) k (S p1) r with
                                   | Some p9 ->
                                     let (p10, r2) = p9 in
                                     ref_get_at p' p10 r2
                                   | None -> None)
                                | _ -> None)
                             | _ -> None)
                          | _ -> None)
                       | _ -> None)
                    | _ -> None)
                 | _ -> None)
              | _ -> None)))
     | PIdx i ->
       let l1 = ws l in
       let p1 = add pos (sub (length l) (length l1)) in
       (match l1 with
        | [] -> None
        | n :: r ->
          (match n with
           | N0 -> None
           | Npos p2 ->
             (match p2 with
              | Coq_xI p3 ->
                (match p3 with
                 | Coq_xI p4 ->
                   (match p4 with
                    | Coq_xO p5 ->
                      (match p5 with
                       | Coq_xI p6 ->
                         (match p6 with
                          | Coq_xI p7 ->
                            (match p7 with
                             | Coq_xO p8 ->
                               (match p8 with
                                | Coq_xH ->
                                  (match skip_elems i (S p1) r with
                                   | Some p9 ->
                                     let (p10, r2) = p9 in
                                     ref_get_at p' p10 r2
                                   | None -> None)
                                | _ -> None)
                             | _ -> None)
                          | _ -> None)
                       | _ -> None)
                    | _ -> None)
                 | _ -> None)
              | _ -> None))))

(** val ref_get : coq_N list -> pelem list -> (nat * nat) option **)

let ref_get l p =
  ref_get_at p O l

type item =
| IOk of coq_N list * nat * nat
| IErr
| IEnd

(** val item_rect :
    (coq_N list -> nat -> nat -> 'a1) -> 'a1 -> 'a1 -> item -> 'a1 **)

let item_rect f f0 f1 = function
| IOk (key, a, b) -> f key a b
| IErr -> f0
| IEnd -> f1

(** val item_rec :
    (coq_N list -> nat -> nat -> 'a1) -> 'a1 -> 'a1 -> item -> 'a1 **)

let item_rec f f0 f1 = function
| IOk (key, a, b) -> f key a b
| IErr -> f0
| IEnd -> f1

(** val arr_items : nat -> bool -> nat -> coq_N list -> item list **)

let rec arr_items fuel first pos l =
  match fuel with
  | O -> IErr :: []
  | S f ->
    let l1 = ws l in
    let p1 = add pos (sub (length l) (length l1)) in
    (match l1 with
     | [] -> IErr :: []
     | c :: r ->
       if N.eqb c (Npos (Coq_xI (Coq_xO (Coq_xI (Coq_xI (Coq_xI (Coq_xO
            Coq_xH)))))))
       then IEnd :: []
       else if first
            then let p = (p1, l1) in
                 let ok = true in
                 let (p2, l2) = p in
                 if ok
                 then (match pvalue false (fuel_for l2) p2 l2 with
                       | Some p0 ->
                         let (p3, rest) = p0 in
                         let (p4, b) = p3 in
                         let (_, a) = p4 in
                         (IOk ([], a, b)) :: (arr_items f false b rest)
                       | None -> IErr :: [])
                 else IErr :: []
            else if N.eqb c (Npos (Coq_xO (Coq_xO (Coq_xI (Coq_xI (Coq_xO
                      Coq_xH))))))
                 then let p = ((S p1), r) in
                      let ok = true in
                      let (p2, l2) = p in
                      if ok
                      then (match pvalue false (fuel_for l2) p2 l2 with
                            | Some p0 ->
                              let (p3, rest) = p0 in
                              let (p4, b) = p3 in
                              let (_, a) = p4 in
                              (IOk ([], a, b)) :: (arr_items f false b rest)
                            | None -> IErr :: [])
                      else IErr :: []
                 else let p = (p1, l1) in
                      let ok = false in
                      let (p2, l2) = p in
                      if ok
                      then (match pvalue false (fuel_for l2) p2 l2 with
                            | Some p0 ->
                              let (p3, rest) = p0 in
                              let (p4, b) = p3 in
                              let (_, a) = p4 in
                              (IOk ([], a, b)) :: (arr_items f false b rest)
                            | None -> IErr :: [])
                      else IErr :: [])

(** val ref_array_iter : coq_N list -> item list **)

let ref_array_iter l =
  if utf8_valid l
  then (match ws l with
        | [] -> IErr :: []
        | n :: r ->
          (match n with
           | N0 -> IErr :: []
           | Npos p ->
             (match p with
              | Coq_xI p0 ->
                (match p0 with
                 | Coq_xI p1 ->
                   (match p1 with
                    | Coq_xO p2 ->
                      (match p2 with
                       | Coq_xI p3 ->
                         (match p3 with
                          | Coq_xI p4 ->
                            (match p4 with
                             | Coq_xO p5 ->
                               (match p5 with
                                | Coq_xH ->
                                  arr_items (S (length l)) true (S
                                    (sub (length l) (length (ws l)))) r
                                | _ -> IErr :: [])
                             | _ -> IErr :: [])
                          | _ -> IErr :: [])
                       | _ -> IErr :: [])
                    | _ -> IErr :: [])
                 | _ -> IErr :: [])
              | _ -> IErr :: [])))
  else IErr :: []

(** val obj_items : nat -> bool -> nat -> coq_N list -> item list **)

let rec obj_items fuel first pos l =
  match fuel with
  | O -> IErr :: []
  | S f ->
    let l1 = ws l in
    let p1 = add pos (sub (length l) (length l1)) in
    (match l1 with
     | [] -> IErr :: []
     | c :: r ->
       if N.eqb c (Npos (Coq_xI (Coq_xO (Coq_xI (Coq_xI (Coq_xI (Coq_xI
            Coq_xH)))))))
       then IEnd :: []
       else let (p, ok) =
              if first
              then ((p1, l1), true)
              else if N.eqb c (Npos (Coq_xO (Coq_xO (Coq_xI (Coq_xI (Coq_xO
                        Coq_xH))))))
                   then let r1 = ws r in
                        (((add (S p1) (sub (length r) (length r1))), r1),
                        true)
                   else ((p1, l1), false)
            in
            let (p2, l2) = p in
            if ok
            then (match l2 with
                  | [] -> IErr :: []
                  | n :: kr ->
                    (match n with
                     | N0 -> IErr :: []
                     | Npos p0 ->
                       (match p0 with
                        | Coq_xO p3 ->
                          (match p3 with
                           | Coq_xI p4 ->
                             (match p4 with
                              | Coq_xO p5 ->
                                (match p5 with
                                 | Coq_xO p6 ->
                                   (match p6 with
                                    | Coq_xO p7 ->
                                      (match p7 with
                                       | Coq_xH ->
                                         (match str_body true (S (length kr))
                                                  kr with
                                          | Some p8 ->
                                            let (p9, rest) = p8 in
                                            let (k, _) = p9 in
                                            let pk =
                                              add p2
                                                (sub (length l2)
                                                  (length rest))
                                            in
                                            let r1 = ws rest in
                                            let pc =
                                              add pk
                                                (sub (length rest)
                                                  (length r1))
                                            in
                                            (match r1 with
                                             | [] -> IErr :: []
                                             | n0 :: r2 ->
                                               (match n0 with
                                                | N0 -> IErr :: []
                                                | Npos p10 ->
                                                  (match p10 with
                                                   | Coq_xO p11 ->
                                                     (match p11 with
                                                      | Coq_xI p12 ->
                                                        (match p12 with
                                                         | Coq_xO p13 ->
                                                           (match p13 with
                                                            | Coq_xI p14 ->
                                                              (match p14 with
                                                               | Coq_xI p15 ->
                                                                 (match p15 with
                                                                  | Coq_xH ->
                                                                    (match 
                                                                    pvalue
                                                                    false
                                                                    (fuel_for
                                                                    r2) (S
                                                                    pc) r2 with
                                                                    | Some p16 ->
                                                                    let (
                                                                    p17, r3) =
                                                                    p16
                                                                    in
                                                                    let (
                                                                    p18, b) =
                                                                    p17
                                                                    in
                                                                    let (
                                                                    _, a) =
                                                                    p18
                                                                    in
                                                                    (IOk (k,
                                                                    a,
                                                                    b)) :: 
                                                                    (obj_items
                                                                    f false b
                                                                    r3)
                                                                    | None ->
                                                                    IErr :: [])
                                                                  | _ ->
                                                                    IErr :: [])
                                                               | _ ->
                                                                 IErr :: [])
                                                            | _ -> IErr :: [])
                                                         | _ -> IErr :: [])
                                                      | _ -> IErr :: [])
                                                   | _ -> IErr :: [])))
                                          | None -> IErr :: [])
                                       | _ -> IErr :: [])
                                    | _ -> IErr :: [])
                                 | _ -> IErr :: [])
                              | _ -> IErr :: [])
                           | _ -> IErr :: [])
                        | _ -> IErr :: [])))
            else IErr :: [])

(** val ref_object_iter : coq_N list -> item list **)

let ref_object_iter l =
  if utf8_valid l
  then (match ws l with
        | [] -> IErr :: []
        | n :: r ->
          (match n with
           | N0 -> IErr :: []
           | Npos p ->
             (match p with
              | Coq_xI p0 ->
                (match p0 with
                 | Coq_xI p1 ->
                   (match p1 with
                    | Coq_xO p2 ->
                      (match p2 with
                       | Coq_xI p3 ->
                         (match p3 with
                          | Coq_xI p4 ->
                            (match p4 with
                             | Coq_xI p5 ->
                               (match p5 with
                                | Coq_xH ->
                                  obj_items (S (length l)) true (S
                                    (sub (length l) (length (ws l)))) r
                                | _ -> IErr :: [])
                             | _ -> IErr :: [])
                          | _ -> IErr :: [])
                       | _ -> IErr :: [])
                    | _ -> IErr :: [])
                 | _ -> IErr :: [])
              | _ -> IErr :: [])))
  else IErr :: []

(** val merge : nat -> jv -> jv -> jv **)

let rec merge fuel sch doc =
  match fuel with
  | O -> doc
  | S f ->
    (match sch with
     | JObj ms ->
       (match ms with
        | [] -> doc
        | sm :: sms ->
          (match doc with
           | JObj dms ->
             JObj
               (map (fun m ->
                 let (y, sv) = m in
                 let (y0, b) = y in
                 let (k, a) = y0 in
                 (match assoc_first dms k with
                  | Some p ->
                    let (_, dv) = p in (((k, a), b), (merge f sv dv))
                  | None -> (((k, a), b), sv))) (sm :: sms))
           | _ -> doc))
     | _ -> doc)

(** val fffd : coq_N list **)

let fffd =
  (Npos (Coq_xI (Coq_xI (Coq_xI (Coq_xI (Coq_xO (Coq_xI (Coq_xI
    Coq_xH)))))))) :: ((Npos (Coq_xI (Coq_xI (Coq_xI (Coq_xI (Coq_xI (Coq_xI
    (Coq_xO Coq_xH)))))))) :: ((Npos (Coq_xI (Coq_xO (Coq_xI (Coq_xI (Coq_xI
    (Coq_xI (Coq_xO Coq_xH)))))))) :: []))

(** val utf8_lossy_f : nat -> coq_N list -> coq_N list **)

let rec utf8_lossy_f fuel l =
  match fuel with
  | O -> []
  | S f ->
    (match l with
     | [] -> []
     | c :: r ->
       if N.ltb c (Npos (Coq_xO (Coq_xO (Coq_xO (Coq_xO (Coq_xO (Coq_xO
            (Coq_xO Coq_xH))))))))
       then c :: (utf8_lossy_f f r)
       else if (&&)
                 (N.leb (Npos (Coq_xO (Coq_xI (Coq_xO (Coq_xO (Coq_xO (Coq_xO
                   (Coq_xI Coq_xH)))))))) c)
                 (N.leb c (Npos (Coq_xI (Coq_xI (Coq_xI (Coq_xI (Coq_xI
                   (Coq_xO (Coq_xI Coq_xH)))))))))
            then (match r with
                  | [] -> fffd
                  | c1 :: r1 ->
                    if cont c1
                    then c :: (c1 :: (utf8_lossy_f f r1))
                    else app fffd (utf8_lossy_f f r))
            else if (&&)
                      (N.leb (Npos (Coq_xO (Coq_xO (Coq_xO (Coq_xO (Coq_xO
                        (Coq_xI (Coq_xI Coq_xH)))))))) c)
                      (N.leb c (Npos (Coq_xI (Coq_xI (Coq_xI (Coq_xI (Coq_xO
                        (Coq_xI (Coq_xI Coq_xH)))))))))
                 then (match r with
                       | [] -> fffd
                       | c1 :: r1 ->
                         if (&&)
                              ((&&) (cont c1)
                                (if N.eqb c (Npos (Coq_xO (Coq_xO (Coq_xO
                                      (Coq_xO (Coq_xO (Coq_xI (Coq_xI
                                      Coq_xH))))))))
                                 then N.leb (Npos (Coq_xO (Coq_xO (Coq_xO
                                        (Coq_xO (Coq_xO (Coq_xI (Coq_xO
                                        Coq_xH)))))))) c1
                                 else true))
                              (if N.eqb c (Npos (Coq_xI (Coq_xO (Coq_xI
                                    (Coq_xI (Coq_xO (Coq_xI (Coq_xI
                                    Coq_xH))))))))
                               then N.leb c1 (Npos (Coq_xI (Coq_xI (Coq_xI
                                      (Coq_xI (Coq_xI (Coq_xO (Coq_xO
                                      Coq_xH))))))))
                               else true)
                         then (match r1 with
                               | [] -> fffd
                               | c2 :: r2 ->
                                 if cont c2
                                 then c :: (c1 :: (c2 :: (utf8_lossy_f f r2)))
                                 else app fffd (utf8_lossy_f f r1))
                         else app fffd (utf8_lossy_f f r))
                 else if (&&)
                           (N.leb (Npos (Coq_xO (Coq_xO (Coq_xO (Coq_xO
                             (Coq_xI (Coq_xI (Coq_xI Coq_xH)))))))) c)
                           (N.leb c (Npos (Coq_xO (Coq_xO (Coq_xI (Coq_xO
                             (Coq_xI (Coq_xI (Coq_xI Coq_xH)))))))))
                      then (match r with
                            | [] -> fffd
                            | c1 :: r1 ->
                              if (&&)
                                   ((&&) (cont c1)
                                     (if N.eqb c (Npos (Coq_xO (Coq_xO
                                           (Coq_xO (Coq_xO (Coq_xI (Coq_xI
                                           (Coq_xI Coq_xH))))))))
                                      then N.leb (Npos (Coq_xO (Coq_xO
                                             (Coq_xO (Coq_xO (Coq_xI (Coq_xO
                                             (Coq_xO Coq_xH)))))))) c1
                                      else true))
                                   (if N.eqb c (Npos (Coq_xO (Coq_xO (Coq_xI
                                         (Coq_xO (Coq_xI (Coq_xI (Coq_xI
                                         Coq_xH))))))))
                                    then N.leb c1 (Npos (Coq_xI (Coq_xI
                                           (Coq_xI (Coq_xI (Coq_xO (Coq_xO
                                           (Coq_xO Coq_xH))))))))
                                    else true)
                              then (match r1 with
                                    | [] -> fffd
                                    | c2 :: r2 ->
                                      if cont c2
                                      then (match r2 with
                                            | [] -> fffd
                                            | c3 :: r3 ->
                                              if cont c3
                                              then c :: (c1 :: (c2 :: (c3 :: 
                                                     (utf8_lossy_f f r3))))
                                              else app fffd
                                                     (utf8_lossy_f f r2))
                                      else app fffd (utf8_lossy_f f r1))
                              else app fffd (utf8_lossy_f f r))
                      else app fffd (utf8_lossy_f f r))

(** val utf8_lossy : coq_N list -> coq_N list **)

let utf8_lossy l =
  utf8_lossy_f (S (length l)) l

(** val str_body_lossy :
    nat -> coq_N list -> ((coq_N list * bool) * coq_N list) option **)

let rec str_body_lossy fuel l =
  match fuel with
  | O -> None
  | S f ->
    (match l with
     | [] -> None
     | c :: r ->
       if N.eqb c (Npos (Coq_xO (Coq_xI (Coq_xO (Coq_xO (Coq_xO Coq_xH))))))
       then Some (([], false), r)
       else if N.eqb c (Npos (Coq_xO (Coq_xO (Coq_xI (Coq_xI (Coq_xI (Coq_xO
                 Coq_xH)))))))
            then (match r with
                  | [] -> None
                  | e :: r1 ->
                    if N.eqb e (Npos (Coq_xI (Coq_xO (Coq_xI (Coq_xO (Coq_xI
                         (Coq_xI Coq_xH)))))))
                    then (match r1 with
                          | [] -> None
                          | h1 :: l0 ->
                            (match l0 with
                             | [] -> None
                             | h2 :: l1 ->
                               (match l1 with
                                | [] -> None
                                | h3 :: l2 ->
                                  (match l2 with
                                   | [] -> None
                                   | h4 :: r2 ->
                                     (match hex4 h1 h2 h3 h4 with
                                      | Some cp ->
                                        let continue_with = fun out rest ->
                                          match str_body_lossy f rest with
                                          | Some p ->
                                            let (p0, rr) = p in
                                            let (d, _) = p0 in
                                            Some (((app out d), true), rr)
                                          | None -> None
                                        in
                                        if (&&)
                                             (N.leb (Npos (Coq_xO (Coq_xO
                                               (Coq_xO (Coq_xO (Coq_xO
                                               (Coq_xO (Coq_xO (Coq_xO
                                               (Coq_xO (Coq_xO (Coq_xO
                                               (Coq_xI (Coq_xI (Coq_xO
                                               (Coq_xI Coq_xH))))))))))))))))
                                               cp)
                                             (N.leb cp (Npos (Coq_xI (Coq_xI
                                               (Coq_xI (Coq_xI (Coq_xI
                                               (Coq_xI (Coq_xI (Coq_xI
                                               (Coq_xI (Coq_xI (Coq_xO
                                               (Coq_xI (Coq_xI (Coq_xO
                                               (Coq_xI Coq_xH)))))))))))))))))
                                        then (match r2 with
                                              | [] -> continue_with fffd r2
                                              | n :: l3 ->
                                                (match n with
                                                 | N0 -> continue_with fffd r2
                                                 | Npos p ->
                                                   (match p with
                                                    | Coq_xO p0 ->
                                                      (match p0 with
                                                       | Coq_xO p1 ->
                                                         (match p1 with
                                                          | Coq_xI p2 ->
                                                            (match p2 with
                                                             | Coq_xI p3 ->
                                                               (match p3 with
                                                                | Coq_xI p4 ->
                                                                  (match p4 with
                                                                   | Coq_xO p5 ->
                                                                    (match p5 with
                                                                    | Coq_xH ->
                                                                    (match l3 with
                                                                    | [] ->
                                                                    continue_with
                                                                    fffd r2
                                                                    | n0 :: l4 ->
                                                                    (match n0 with
                                                                    | N0 ->
                                                                    continue_with
                                                                    fffd r2
                                                                    | Npos p6 ->
                                                                    (match p6 with
                                                                    | Coq_xI p7 ->
                                                                    (match p7 with
                                                                    | Coq_xO p8 ->
                                                                    (match p8 with
                                                                    | Coq_xI p9 ->
                                                                    (match p9 with
                                                                    | Coq_xO p10 ->
                                                                    (match p10 with
                                                                    | Coq_xI p11 ->
                                                                    (match p11 with
                                                                    | Coq_xI p12 ->
                                                                    (match p12 with
                                                                    | Coq_xH ->
                                                                    (match l4 with
                                                                    | [] ->
                                                                    continue_with
                                                                    fffd r2
                                                                    | g1 :: l5 ->
                                                                    (match l5 with
                                                                    | [] ->
                                                                    continue_with
                                                                    fffd r2
                                                                    | g2 :: l6 ->
                                                                    (match l6 with
                                                                    | [] ->
                                                                    continue_with
                                                                    fffd r2
                                                                    | g3 :: l7 ->
                                                                    (match l7 with
                                                                    | [] ->
                                                                    continue_with
                                                                    fffd r2
                                                                    | g4 :: r3 ->
                                                                    (match 
                                                                    hex4 g1
                                                                    g2 g3 g4 with
                                                                    | Some lo ->
                                                                    if 
                                                                    (&&)
                                                                    (N.leb
                                                                    (Npos
                                                                    (Coq_xO
                                                                    (Coq_xO
                                                                    (Coq_xO
                                                                    (Coq_xO
                                                                    (Coq_xO
                                                                    (Coq_xO
                                                                    (Coq_xO
                                                                    (Coq_xO
                                                                    (Coq_xO
                                                                    (Coq_xO
                                                                    (Coq_xI
                                                                    (Coq_xI
                                                                    (Coq_xI
                                                                    (Coq_xO
                                                                    (Coq_xI
                                                                    Coq_xH))))))))))))))))
                                                                    lo)
                                                                    (N.leb lo
                                                                    (Npos
                                                                    (Coq_xI
                                                                    (Coq_xI
                                                                    (Coq_xI
                                                                    (Coq_xI
                                                                    (Coq_xI
                                                                    (Coq_xI
                                                                    (Coq_xI
                                                                    (Coq_xI
                                                                    (Coq_xI
                                                                    (Coq_xI
                                                                    (Coq_xI
                                                                    (Coq_xI
                                                                    (Coq_xI
                                                                    (Coq_xO
                                                                    (Coq_xI
                                                                    Coq_xH)))))))))))))))))
                                                                    then 
                                                                    continue_with
                                                                    (utf8_encode
                                                                    (N.add
                                                                    (N.add
                                                                    (Npos
                                                                    (Coq_xO
                                                                    (Coq_xO
                                                                    (Coq_xO
                                                                    (Coq_xO
                                                                    (Coq_xO
                                                                    (Coq_xO
                                                                    (Coq_xO
                                                                    (Coq_xO
                                                                    (Coq_xO
                                                                    (Coq_xO
                                                                    (Coq_xO
                                                                    (Coq_xO
                                                                    (Coq_xO
                                                                    (Coq_xO
                                                                    (Coq_xO
                                                                    (Coq_xO
                                                                    Coq_xH)))))))))))))))))
                                                                    (N.mul
                                                                    (N.sub cp
                                                                    (Npos
                                                                    (Coq_xO
                                                                    (Coq_xO
                                                                    (Coq_xO
                                                                    (Coq_xO
                                                                    (Coq_xO
                                                                    (Coq_xO
                                                                    (Coq_xO
                                                                    (Coq_xO
                                                                    (Coq_xO
                                                                    (Coq_xO
                                                                    (Coq_xO
                                                                    (Coq_xI
                                                                    (Coq_xI
                                                                    (Coq_xO
                                                                    (Coq_xI
                                                                    Coq_xH)))))))))))))))))
                                                                    (Npos
                                                                    (Coq_xO
                                                                    (Coq_xO
                                                                    (Coq_xO
                                                                    (Coq_xO
                                                                    (Coq_xO
                                                                    (Coq_xO
                                                                    (Coq_xO
                                                                    (Coq_xO
                                                                    (Coq_xO
                                                                    (Coq_xO
                                                                    Coq_xH)))))))))))))
                                                                    (N.sub lo
                                                                    (Npos
                                                                    (Coq_xO
                                                                    (Coq_xO
                                                                    (Coq_xO
                                                                    (Coq_xO
                                                                    (Coq_xO
                                                                    (Coq_xO
                                                                    (Coq_xO
                                                                    (Coq_xO
                                                                    (Coq_xO
                                                                    (Coq_xO
                                                                    (Coq_xI
                                                                    (Coq_xI
                                                                    (Coq_xI
                                                                    (Coq_xO
                                                                    (Coq_xI
                                                                    Coq_xH)))))))))))))))))))
                                                                    r3
                                                                    else 
                                                                    continue_with
                                                                    fffd r2
                                                                    | None ->
                                                                    None)))))
                                                                    | _ ->
                                                                    continue_with
                                                                    fffd r2)
                                                                    | _ ->
                                                                    continue_with
                                                                    fffd r2)
                                                                    | _ ->
                                                                    continue_with
                                                                    fffd r2)
                                                                    | _ ->
                                                                    continue_with
                                                                    fffd r2)
                                                                    | _ ->
                                                                    continue_with
                                                                    fffd r2)
                                                                    | _ ->
                                                                    continue_with
                                                                    fffd r2)
                                                                    | _ ->
                                                                    continue_with
                                                                    fffd r2)))
                                                                    | _ ->
                                                                    continue_with
                                                                    fffd r2)
                                                                   | _ ->
                                                                    continue_with
                                                                    fffd r2)
                                                                | _ ->
                                                                  continue_with
                                                                    fffd r2)
                                                             | _ ->
                                                               continue_with
                                                                 fffd r2)
                                                          | _ ->
                                                            continue_with
                                                              fffd r2)
                                                       | _ ->
                                                         continue_with fffd r2)
                                                    | _ ->
                                                      continue_with fffd r2)))
                                        else if (&&)
                                                  (N.leb (Npos (Coq_xO
                                                    (Coq_xO (Coq_xO (Coq_xO
                                                    (Coq_xO (Coq_xO (Coq_xO
                                                    (Coq_xO (Coq_xO (Coq_xO
                                                    (Coq_xI (Coq_xI (Coq_xI
                                                    (Coq_xO (Coq_xI
                                                    Coq_xH)))))))))))))))) cp)
                                                  (N.leb cp (Npos (Coq_xI
                                                    (Coq_xI (Coq_xI (Coq_xI
                                                    (Coq_xI (Coq_xI (Coq_xI
                                                    (Coq_xI (Coq_xI (Coq_xI
                                                    (Coq_xI (Coq_xI (Coq_xI
                                                    (Coq_xO (Coq_xI
                                                    Coq_xH)))))))))))))))))
                                             then continue_with fffd r2
                                             else continue_with
                                                    (utf8_encode cp) r2
                                      | None -> None)))))
                    else (match simple_escape e with
                          | Some o ->
                            (match str_body_lossy f r1 with
                             | Some p ->
                               let (p0, rest) = p in
                               let (d, _) = p0 in
                               Some (((o :: d), true), rest)
                             | None -> None)
                          | None -> None))
            else if N.ltb c (Npos (Coq_xO (Coq_xO (Coq_xO (Coq_xO (Coq_xO
                      Coq_xH))))))
                 then None
                 else (match str_body_lossy f r with
                       | Some p ->
                         let (p0, rest) = p in
                         let (d, h) = p0 in Some (((c :: d), h), rest)
                       | None -> None))

(** val decode_literal : bool -> coq_N list -> (coq_N list * bool) option **)

let decode_literal lossy lit = match lit with
| [] -> None
| n :: body ->
  (match n with
   | N0 -> None
   | Npos p ->
     (match p with
      | Coq_xO p0 ->
        (match p0 with
         | Coq_xI p1 ->
           (match p1 with
            | Coq_xO p2 ->
              (match p2 with
               | Coq_xO p3 ->
                 (match p3 with
                  | Coq_xO p4 ->
                    (match p4 with
                     | Coq_xH ->
                       if lossy
                       then (match str_body_lossy (S (length body)) body with
                             | Some p5 ->
                               let (p6, l) = p5 in
                               let (d, h) = p6 in
                               (match l with
                                | [] -> Some ((utf8_lossy d), h)
                                | _ :: _ -> None)
                             | None -> None)
                       else if utf8_valid lit
                            then (match str_body true (S (length body)) body with
                                  | Some p5 ->
                                    let (p6, l) = p5 in
                                    (match l with
                                     | [] -> Some p6
                                     | _ :: _ -> None)
                                  | None -> None)
                            else None
                     | _ -> None)
                  | _ -> None)
               | _ -> None)
            | _ -> None)
         | _ -> None)
      | _ -> None))

(** val skip_literal : coq_N list -> bool **)

let skip_literal lit = match lit with
| [] -> false
| n :: body ->
  (match n with
   | N0 -> false
   | Npos p ->
     (match p with
      | Coq_xO p0 ->
        (match p0 with
         | Coq_xI p1 ->
           (match p1 with
            | Coq_xO p2 ->
              (match p2 with
               | Coq_xO p3 ->
                 (match p3 with
                  | Coq_xO p4 ->
                    (match p4 with
                     | Coq_xH ->
                       (&&) (utf8_valid lit)
                         (match str_body false (S (length body)) body with
                          | Some p5 ->
                            let (_, l) = p5 in
                            (match l with
                             | [] -> true
                             | _ :: _ -> false)
                          | None -> false)
                     | _ -> false)
                  | _ -> false)
               | _ -> false)
            | _ -> false)
         | _ -> false)
      | _ -> false))
