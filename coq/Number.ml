open BinInt
open BinNums
open Datatypes
open List

(** val coq_W : coq_Z **)

let coq_W =
  Z.pow (Zpos (Coq_xO Coq_xH)) (Zpos (Coq_xO (Coq_xO (Coq_xO (Coq_xO (Coq_xO
    (Coq_xO Coq_xH)))))))

(** val dvalue : coq_Z list -> coq_Z **)

let dvalue ds =
  fold_left (fun a d ->
    Z.add (Z.mul a (Zpos (Coq_xO (Coq_xI (Coq_xO Coq_xH))))) d) ds Z0

type num =
| Unsigned of coq_Z
| Signed of coq_Z
| FloatOfInt of coq_Z
| FloatPath of coq_Z * coq_Z * bool

(** val wrap_acc : coq_Z list -> coq_Z **)

let wrap_acc ds =
  fold_left (fun a d ->
    Z.modulo
      (Z.add
        (Z.modulo (Z.mul a (Zpos (Coq_xO (Coq_xI (Coq_xO Coq_xH))))) coq_W) d)
      coq_W) ds Z0

(** val parse_int : bool -> coq_Z list -> num **)

let parse_int negative ds =
  let cnt = Z.of_nat (length ds) in
  if Z.leb cnt (Zpos (Coq_xI (Coq_xI (Coq_xO (Coq_xO Coq_xH)))))
  then let p = ((wrap_acc ds), Z0) in
       let (sig0, exp) = p in
       if Z.eqb exp Z0
       then if negative
            then if Z.ltb
                      (Z.pow (Zpos (Coq_xO Coq_xH)) (Zpos (Coq_xI (Coq_xI
                        (Coq_xI (Coq_xI (Coq_xI Coq_xH))))))) sig0
                 then FloatOfInt sig0
                 else Signed
                        (Z.sub (Z.modulo (Z.add (Z.sub Z0 sig0) coq_W) coq_W)
                          (if Z.eqb sig0 Z0 then Z0 else coq_W))
            else Unsigned sig0
       else if Z.eqb exp (Zpos Coq_xH)
            then let last =
                   nth (S (S (S (S (S (S (S (S (S (S (S (S (S (S (S (S (S (S
                     (S O))))))))))))))))))) ds Z0
                 in
                 let m = Z.mul sig0 (Zpos (Coq_xO (Coq_xI (Coq_xO Coq_xH))))
                 in
                 let ov0 = Z.leb coq_W m in
                 let out = Z.add (Z.modulo m coq_W) last in
                 let ov1 = Z.leb coq_W out in
                 if (&&) (negb ov0) (negb ov1)
                 then if negative
                      then FloatOfInt (Z.modulo out coq_W)
                      else Unsigned (Z.modulo out coq_W)
                 else FloatPath (sig0, exp, true)
            else FloatPath (sig0, exp, true)
  else let p =
         ((dvalue
            (firstn (S (S (S (S (S (S (S (S (S (S (S (S (S (S (S (S (S (S (S
              O))))))))))))))))))) ds)),
         (Z.sub cnt (Zpos (Coq_xI (Coq_xI (Coq_xO (Coq_xO Coq_xH)))))))
       in
       let (sig0, exp) = p in
       if Z.eqb exp Z0
       then if negative
            then if Z.ltb
                      (Z.pow (Zpos (Coq_xO Coq_xH)) (Zpos (Coq_xI (Coq_xI
                        (Coq_xI (Coq_xI (Coq_xI Coq_xH))))))) sig0
                 then FloatOfInt sig0
                 else Signed
                        (Z.sub (Z.modulo (Z.add (Z.sub Z0 sig0) coq_W) coq_W)
                          (if Z.eqb sig0 Z0 then Z0 else coq_W))
            else Unsigned sig0
       else if Z.eqb exp (Zpos Coq_xH)
            then let last =
                   nth (S (S (S (S (S (S (S (S (S (S (S (S (S (S (S (S (S (S
                     (S O))))))))))))))))))) ds Z0
                 in
                 let m = Z.mul sig0 (Zpos (Coq_xO (Coq_xI (Coq_xO Coq_xH))))
                 in
                 let ov0 = Z.leb coq_W m in
                 let out = Z.add (Z.modulo m coq_W) last in
                 let ov1 = Z.leb coq_W out in
                 if (&&) (negb ov0) (negb ov1)
                 then if negative
                      then FloatOfInt (Z.modulo out coq_W)
                      else Unsigned (Z.modulo out coq_W)
                 else FloatPath (sig0, exp, true)
            else FloatPath (sig0, exp, true)

(** val spec_int : bool -> coq_Z -> num **)

let spec_int negative v =
  if negative
  then if Z.leb v
            (Z.pow (Zpos (Coq_xO Coq_xH)) (Zpos (Coq_xI (Coq_xI (Coq_xI
              (Coq_xI (Coq_xI Coq_xH)))))))
       then Signed (Z.opp v)
       else FloatOfInt v
  else if Z.ltb v coq_W then Unsigned v else FloatOfInt v
