open Datatypes
open List

val get_first : ('a1 -> 'a1 -> bool) -> ('a1 * 'a2) list -> 'a1 -> 'a2 option

type ('key, 'val0) map_ = 'key -> 'val0 option

val empty : ('a1, 'a2) map_

val insert :
  ('a1 -> 'a1 -> bool) -> ('a1, 'a2) map_ -> 'a1 -> 'a2 -> ('a1, 'a2) map_

val promote : ('a1 -> 'a1 -> bool) -> ('a1 * 'a2) list -> ('a1, 'a2) map_
