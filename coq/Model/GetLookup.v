(* Model/GetLookup.v -- the two reference functions of the lazy-get properties agree: on a text the strict
   reference parser accepts, walking a path through the BYTES (ref_get, the oracle of C14) finds exactly
   the span that looking the path up in the parsed TREE finds (lookup, the oracle of C10; first member
   wins).  Ingredients: fuel monotonicity of the parser, strict => lax with identical spans, and the
   element / member walkers stepping over exactly what the parser stepped over. *)
From Coq Require Import List NArith Arith Lia Bool.
From SonicV Require Import Spec.Ref Model.Skip Model.SkipAll Model.RefSound Model.ValueEdges.
Import ListNotations.
Open Scope N_scope.

(* ---------- more fuel never changes a result ---------- *)
Lemma str_body_mono : forall strict f l r, Ref.str_body strict f l = Some r -> Ref.str_body strict (S f) l = Some r.
Proof.
  intros strict. induction f as [|f IH]; intros l r H; [discriminate|].
  remember (S f) as g eqn:Eg. cbn [Ref.str_body]. rewrite Eg in H at 1. cbn [Ref.str_body] in H. subst g.
  destruct l as [|c t]; [discriminate|].
  destruct (c =? 34); [exact H|].
  destruct (c =? 92).
  - destruct t as [|e r1]; [discriminate|]. destruct (e =? 117).
    + destruct r1 as [|h1 [|h2 [|h3 [|h4 r2]]]]; try discriminate.
      destruct (hex4 h1 h2 h3 h4) as [cp|]; [|discriminate].
      assert (K : forall (x : list N) (g : list N -> list N),
                match Ref.str_body strict f x with Some (d, _, rest) => Some (g d, true, rest) | None => None end = Some r ->
                match Ref.str_body strict (S f) x with Some (d, _, rest) => Some (g d, true, rest) | None => None end = Some r).
      { intros x g E. destruct (Ref.str_body strict f x) as [[[d h] rest]|] eqn:S1; [|discriminate]. rewrite (IH _ _ S1). exact E. }
      assert (KL : (if strict then None else match Ref.str_body strict f r2 with Some (d, _, rest) => Some (d, true, rest) | None => None end) = Some r ->
                   (if strict then None else match Ref.str_body strict (S f) r2 with Some (d, _, rest) => Some (d, true, rest) | None => None end) = Some r).
      { destruct strict; [discriminate|]. exact (K r2 (fun x => x)). }
      destruct ((55296 <=? cp) && (cp <=? 56319)).
      * destruct r2 as [|q1 [|q2 [|g1 [|g2 [|g3 [|g4 r3]]]]]]; try (exact (KL H)).
        destruct ((q1 =? 92) && (q2 =? 117)); [|exact (KL H)].
        destruct (hex4 g1 g2 g3 g4) as [lo|]; [|exact (KL H)].
        destruct ((56320 <=? lo) && (lo <=? 57343)); [|exact (KL H)].
        exact (K r3 _ H).
      * destruct ((56320 <=? cp) && (cp <=? 57343)).
        -- destruct strict; [discriminate|]. exact (K r2 (fun x => x) H).
        -- exact (K r2 _ H).
    + destruct (Ref.simple_escape e) as [o|]; [|discriminate].
      destruct (Ref.str_body strict f r1) as [[[d h] rest]|] eqn:S1; [|discriminate]. rewrite (IH _ _ S1). exact H.
  - destruct (c <? 32); [discriminate|].
    destruct (Ref.str_body strict f t) as [[[d h] rest]|] eqn:S1; [|discriminate]. rewrite (IH _ _ S1). exact H.
Qed.

Theorem pvalue_mono : forall strict fuel,
  (forall pos l r, pvalue strict fuel pos l = Some r -> pvalue strict (S fuel) pos l = Some r) /\
  (forall pos l r, pelems strict fuel pos l = Some r -> pelems strict (S fuel) pos l = Some r) /\
  (forall pos l r, pmembers strict fuel pos l = Some r -> pmembers strict (S fuel) pos l = Some r).
Proof.
  intros strict. induction fuel as [|f (IH1 & IH2 & IH3)]; [repeat split; intros; discriminate|].
  split; [|split].
  - intros pos l r H. remember (S f) as g eqn:Eg. cbn [pvalue]. rewrite Eg in H at 1. cbn [pvalue] in H. subst g.
    destruct (Ref.ws l) as [|c t]; [discriminate|].
    destruct (c =? 34); [exact H|].
    destruct (c =? 91).
    { destruct (Ref.ws t) as [|c2 t2].
      - destruct (pelems strict f _ t) as [[xs rest]|] eqn:PE; [|discriminate]. rewrite (IH2 _ _ _ PE). exact H.
      - destruct (N.eqb_spec c2 93) as [-> | N3]; [exact H|].
        assert (H' : match pelems strict f (S (pos + (length l - length (c :: t)))) t with
                     | Some (xs, rest0) => Some (JArr xs, (pos + (length l - length (c :: t)))%nat, (pos + (length l - length (c :: t)) + (length (c :: t) - length rest0))%nat, rest0)
                     | None => None end = Some r).
        { destruct c2 as [|p]; [exact H|]. repeat (destruct p as [p|p|]; try exact H); contradiction. }
        destruct (pelems strict f _ t) as [[xs rest]|] eqn:PE; [|discriminate]. rewrite (IH2 _ _ _ PE).
        destruct c2 as [|p]; [exact H'|]. repeat (destruct p as [p|p|]; try exact H'); contradiction. }
    destruct (c =? 123).
    { destruct (Ref.ws t) as [|c2 t2].
      - destruct (pmembers strict f _ t) as [[ms rest]|] eqn:PM; [|discriminate]. rewrite (IH3 _ _ _ PM). exact H.
      - destruct (N.eqb_spec c2 125) as [-> | N3]; [exact H|].
        assert (H' : match pmembers strict f (S (pos + (length l - length (c :: t)))) t with
                     | Some (ms, rest0) => Some (JObj ms, (pos + (length l - length (c :: t)))%nat, (pos + (length l - length (c :: t)) + (length (c :: t) - length rest0))%nat, rest0)
                     | None => None end = Some r).
        { destruct c2 as [|p]; [exact H|]. repeat (destruct p as [p|p|]; try exact H); contradiction. }
        destruct (pmembers strict f _ t) as [[ms rest]|] eqn:PM; [|discriminate]. rewrite (IH3 _ _ _ PM).
        destruct c2 as [|p]; [exact H'|]. repeat (destruct p as [p|p|]; try exact H'); contradiction. }
    exact H.
  - intros pos l r H. remember (S f) as g eqn:Eg. cbn [pelems]. rewrite Eg in H at 1. cbn [pelems] in H. subst g.
    destruct (pvalue strict f pos l) as [[[[v a] b] rest]|] eqn:PV; [|discriminate]. rewrite (IH1 _ _ _ PV).
    destruct (Ref.ws rest) as [|c r2]; [discriminate|].
    destruct (N.eqb_spec c 93) as [-> | N1]; [exact H|].
    destruct (N.eqb_spec c 44) as [-> | N2].
    + destruct (pelems strict f _ r2) as [[xs r3]|] eqn:PE; [|discriminate]. rewrite (IH2 _ _ _ PE). exact H.
    + exfalso. destruct c as [|p]; [discriminate|]. repeat (destruct p as [p|p|]; try discriminate); contradiction.
  - intros pos l r H. remember (S f) as g eqn:Eg. cbn [pmembers]. rewrite Eg in H at 1. cbn [pmembers] in H. subst g.
    destruct (Ref.ws l) as [|q k]; [discriminate|].
    destruct (N.eqb_spec q 34) as [-> | Nq]; [|exfalso; destruct q as [|p]; [discriminate|]; repeat (destruct p as [p|p|]; try discriminate); contradiction].
    destruct (Ref.str_body strict (S (length k)) k) as [[[key hk] rest]|]; [|discriminate].
    destruct (Ref.ws rest) as [|c r2]; [discriminate|].
    destruct (N.eqb_spec c 58) as [-> | Nc]; [|exfalso; destruct c as [|p]; [discriminate|]; repeat (destruct p as [p|p|]; try discriminate); contradiction].
    match type of H with match pvalue strict f ?P r2 with _ => _ end = _ => destruct (pvalue strict f P r2) as [[[[v a] b] r3]|] eqn:PV; [|discriminate] end.
    rewrite (IH1 _ _ _ PV).
    destruct (Ref.ws r3) as [|c2 r5]; [discriminate|].
    destruct (N.eqb_spec c2 125) as [-> | N1]; [exact H|].
    destruct (N.eqb_spec c2 44) as [-> | N2]; [|exfalso; destruct c2 as [|p]; [discriminate|]; repeat (destruct p as [p|p|]; try discriminate); contradiction].
    match type of H with match pmembers strict f ?P r5 with _ => _ end = _ => destruct (pmembers strict f P r5) as [[ms r6]|] eqn:PM; [|discriminate] end.
    rewrite (IH3 _ _ _ PM). exact H.
Qed.

Lemma pvalue_mono_le : forall strict f g pos l r, (f <= g)%nat -> pvalue strict f pos l = Some r -> pvalue strict g pos l = Some r.
Proof. intros strict f g pos l r Hle H. induction Hle as [|g Hle IH]; [exact H|]. apply (proj1 (pvalue_mono strict g)). exact IH. Qed.

(* ---------- the fuel a result needs is bounded by the bytes it consumes ---------- *)
Lemma ws_len' : forall l, (length (Ref.ws l) <= length l)%nat.
Proof. induction l as [|c r IH]; [cbn; lia|]. cbn [Ref.ws]. destruct (Ref.is_ws c); cbn [length]; lia. Qed.

Lemma str_body_rest_len : forall strict f l d h rest, Ref.str_body strict f l = Some (d, h, rest) -> (length rest < length l)%nat.
Proof. intros strict f l d h rest H. destruct (str_body_sound _ _ _ _ _ _ H) as (body & -> & _). rewrite app_length. cbn [length]. lia. Qed.

Lemma pvalue_rest_len : forall strict fuel pos l v a b rest, pvalue strict fuel pos l = Some (v, a, b, rest) -> (length rest < length l)%nat.
Proof.
  intros strict fuel pos l v a b rest H. destruct (proj1 (pvalue_sound strict fuel) _ _ _ _ _ _ H) as (w & tok & -> & _ & Hv & _ & _).
  destruct (value_edges tok Hv) as (c & t & -> & _ & _). rewrite !app_length. cbn [length]. lia.
Qed.

Lemma pelems_rest_len : forall strict fuel pos l xs rest, pelems strict fuel pos l = Some (xs, rest) -> (length rest < length l)%nat.
Proof. intros strict fuel pos l xs rest H. destruct (proj1 (proj2 (pvalue_sound strict fuel)) _ _ _ _ H) as (es & -> & _). rewrite app_length. cbn [length]. lia. Qed.
Lemma pmembers_rest_len : forall strict fuel pos l ms rest, pmembers strict fuel pos l = Some (ms, rest) -> (length rest < length l)%nat.
Proof. intros strict fuel pos l ms rest H. destruct (proj2 (proj2 (pvalue_sound strict fuel)) _ _ _ _ H) as (es & -> & _). rewrite app_length. cbn [length]. lia. Qed.

Local Ltac nb c := exfalso; let q := fresh "q" in destruct c as [|q]; [discriminate|]; repeat (destruct q as [q|q|]; try discriminate); contradiction.

Theorem fuel_enough : forall strict fuel,
  (forall pos l v a b rest, pvalue strict fuel pos l = Some (v, a, b, rest) ->
     forall g, (length l - length rest <= g)%nat -> pvalue strict g pos l = Some (v, a, b, rest)) /\
  (forall pos l xs rest, pelems strict fuel pos l = Some (xs, rest) ->
     forall g, (length l - length rest <= g)%nat -> pelems strict g pos l = Some (xs, rest)) /\
  (forall pos l ms rest, pmembers strict fuel pos l = Some (ms, rest) ->
     forall g, (length l - length rest <= g)%nat -> pmembers strict g pos l = Some (ms, rest)).
Proof.
  intros strict. induction fuel as [|f (IH1 & IH2 & IH3)]; [repeat split; intros; discriminate|].
  split; [|split].
  - intros pos l v a b rest H g Hg. pose proof (pvalue_rest_len _ _ _ _ _ _ _ _ H) as RL.
    destruct g as [|g]; [lia|].
    cbn [pvalue] in H |- *. pose proof (ws_len' l) as WL.
    destruct (Ref.ws l) as [|c t] eqn:Ew; [discriminate|]. cbn [length] in WL.
    destruct (c =? 34); [exact H|].
    destruct (c =? 91).
    { destruct (Ref.ws t) as [|c2 t2].
      - destruct (pelems strict f _ t) as [[xs rest']|] eqn:PE; [|discriminate].
        assert (rest' = rest) by (injection H; auto). subst rest'.
        pose proof (pelems_rest_len _ _ _ _ _ _ PE). rewrite (IH2 _ _ _ _ PE g) by lia. exact H.
      - destruct (N.eqb_spec c2 93) as [-> | N3]; [exact H|].
        assert (H' : match pelems strict f (S (pos + (length l - length (c :: t)))) t with
                     | Some (xs, rest0) => Some (JArr xs, (pos + (length l - length (c :: t)))%nat, (pos + (length l - length (c :: t)) + (length (c :: t) - length rest0))%nat, rest0)
                     | None => None end = Some (v, a, b, rest)).
        { destruct c2 as [|p]; [exact H|]. repeat (destruct p as [p|p|]; try exact H); contradiction. }
        destruct (pelems strict f _ t) as [[xs rest']|] eqn:PE; [|discriminate].
        assert (rest' = rest) by (injection H'; auto). subst rest'.
        pose proof (pelems_rest_len _ _ _ _ _ _ PE). rewrite (IH2 _ _ _ _ PE g) by lia.
        destruct c2 as [|p]; [exact H'|]. repeat (destruct p as [p|p|]; try exact H'); contradiction. }
    destruct (c =? 123).
    { destruct (Ref.ws t) as [|c2 t2].
      - destruct (pmembers strict f _ t) as [[ms rest']|] eqn:PM; [|discriminate].
        assert (rest' = rest) by (injection H; auto). subst rest'.
        pose proof (pmembers_rest_len _ _ _ _ _ _ PM). rewrite (IH3 _ _ _ _ PM g) by lia. exact H.
      - destruct (N.eqb_spec c2 125) as [-> | N3]; [exact H|].
        assert (H' : match pmembers strict f (S (pos + (length l - length (c :: t)))) t with
                     | Some (ms, rest0) => Some (JObj ms, (pos + (length l - length (c :: t)))%nat, (pos + (length l - length (c :: t)) + (length (c :: t) - length rest0))%nat, rest0)
                     | None => None end = Some (v, a, b, rest)).
        { destruct c2 as [|p]; [exact H|]. repeat (destruct p as [p|p|]; try exact H); contradiction. }
        destruct (pmembers strict f _ t) as [[ms rest']|] eqn:PM; [|discriminate].
        assert (rest' = rest) by (injection H'; auto). subst rest'.
        pose proof (pmembers_rest_len _ _ _ _ _ _ PM). rewrite (IH3 _ _ _ _ PM g) by lia.
        destruct c2 as [|p]; [exact H'|]. repeat (destruct p as [p|p|]; try exact H'); contradiction. }
    exact H.
  - intros pos l xs rest H g Hg. pose proof (pelems_rest_len _ _ _ _ _ _ H) as RL.
    destruct g as [|g]; [lia|]. cbn [pelems] in H |- *.
    destruct (pvalue strict f pos l) as [[[[v a] b] r1]|] eqn:PV; [|discriminate].
    pose proof (pvalue_rest_len _ _ _ _ _ _ _ _ PV) as L1. pose proof (ws_len' r1) as W1.
    destruct (Ref.ws r1) as [|c r2] eqn:Ew; [discriminate|]. cbn [length] in W1.
    destruct (N.eqb_spec c 93) as [-> | N1].
    + assert (r2 = rest) by (injection H; auto). subst r2.
      rewrite (IH1 _ _ _ _ _ _ PV g) by lia. rewrite Ew. exact H.
    + destruct (N.eqb_spec c 44) as [-> | N2]; [|nb c].
      destruct (pelems strict f _ r2) as [[xs' r3]|] eqn:PE; [|discriminate].
      assert (r3 = rest) by (injection H; auto). subst r3.
      pose proof (pelems_rest_len _ _ _ _ _ _ PE) as L2.
      rewrite (IH1 _ _ _ _ _ _ PV g) by lia. rewrite Ew. rewrite (IH2 _ _ _ _ PE g) by lia. exact H.
  - intros pos l ms rest H g Hg. pose proof (pmembers_rest_len _ _ _ _ _ _ H) as RL.
    destruct g as [|g]; [lia|]. cbn [pmembers] in H |- *. pose proof (ws_len' l) as WL.
    destruct (Ref.ws l) as [|q k] eqn:El; [discriminate|]. cbn [length] in WL.
    destruct (N.eqb_spec q 34) as [-> | Nq]; [|nb q].
    destruct (Ref.str_body strict (S (length k)) k) as [[[key hk] r0]|] eqn:SK; [|discriminate].
    pose proof (str_body_rest_len _ _ _ _ _ _ SK) as L0. pose proof (ws_len' r0) as W0.
    destruct (Ref.ws r0) as [|c r2] eqn:Er; [discriminate|]. cbn [length] in W0.
    destruct (N.eqb_spec c 58) as [-> | Nc]; [|nb c].
    match type of H with match pvalue strict f ?P r2 with _ => _ end = _ => destruct (pvalue strict f P r2) as [[[[v a] b] r3]|] eqn:PV; [|discriminate] end.
    pose proof (pvalue_rest_len _ _ _ _ _ _ _ _ PV) as L3. pose proof (ws_len' r3) as W3.
    destruct (Ref.ws r3) as [|c2 r5] eqn:Er3; [discriminate|]. cbn [length] in W3.
    destruct (N.eqb_spec c2 125) as [-> | N1].
    + assert (r5 = rest) by (injection H; auto). subst r5.
      rewrite (IH1 _ _ _ _ _ _ PV g) by lia. rewrite Er3. exact H.
    + destruct (N.eqb_spec c2 44) as [-> | N2]; [|nb c2].
      match type of H with match pmembers strict f ?P r5 with _ => _ end = _ => destruct (pmembers strict f P r5) as [[ms' r6]|] eqn:PM; [|discriminate] end.
      assert (r6 = rest) by (injection H; auto). subst r6.
      pose proof (pmembers_rest_len _ _ _ _ _ _ PM) as L6.
      rewrite (IH1 _ _ _ _ _ _ PV g) by lia. rewrite Er3. rewrite (IH3 _ _ _ _ PM g) by lia. exact H.
Qed.

Lemma fuel_for_enough : forall strict fuel pos l v a b rest, pvalue strict fuel pos l = Some (v, a, b, rest) ->
  pvalue strict (fuel_for l) pos l = Some (v, a, b, rest).
Proof. intros strict fuel pos l v a b rest H. apply (proj1 (fuel_enough strict fuel) _ _ _ _ _ _ H). unfold fuel_for. lia. Qed.

(* ---------- what the strict parser accepts, the lax one accepts with the same result ---------- *)
Lemma str_true_false : forall f l r, Ref.str_body true f l = Some r -> Ref.str_body false f l = Some r.
Proof.
  induction f as [|f IH]; intros l r H; [discriminate|].
  cbn [Ref.str_body] in H |- *. destruct l as [|c t]; [discriminate|].
  destruct (c =? 34); [exact H|].
  destruct (c =? 92).
  - destruct t as [|e r1]; [discriminate|]. destruct (e =? 117).
    + destruct r1 as [|h1 [|h2 [|h3 [|h4 r2]]]]; try discriminate.
      destruct (hex4 h1 h2 h3 h4) as [cp|]; [|discriminate].
      assert (K : forall (x : list N) (g : list N -> list N),
                match Ref.str_body true f x with Some (d, _, rest) => Some (g d, true, rest) | None => None end = Some r ->
                match Ref.str_body false f x with Some (d, _, rest) => Some (g d, true, rest) | None => None end = Some r).
      { intros x g E. destruct (Ref.str_body true f x) as [[[d h] rest]|] eqn:S1; [|discriminate]. rewrite (IH _ _ S1). exact E. }
      destruct ((55296 <=? cp) && (cp <=? 56319)).
      * destruct r2 as [|q1 [|q2 [|g1 [|g2 [|g3 [|g4 r3]]]]]]; try discriminate.
        destruct ((q1 =? 92) && (q2 =? 117)); [|discriminate].
        destruct (hex4 g1 g2 g3 g4) as [lo|]; [|discriminate].
        destruct ((56320 <=? lo) && (lo <=? 57343)); [|discriminate].
        exact (K r3 _ H).
      * destruct ((56320 <=? cp) && (cp <=? 57343)); [discriminate|]. exact (K r2 _ H).
    + destruct (Ref.simple_escape e) as [o|]; [|discriminate].
      destruct (Ref.str_body true f r1) as [[[d h] rest]|] eqn:S1; [|discriminate]. rewrite (IH _ _ S1). exact H.
  - destruct (c <? 32); [discriminate|].
    destruct (Ref.str_body true f t) as [[[d h] rest]|] eqn:S1; [|discriminate]. rewrite (IH _ _ S1). exact H.
Qed.

Theorem pvalue_true_false : forall fuel,
  (forall pos l r, pvalue true fuel pos l = Some r -> pvalue false fuel pos l = Some r) /\
  (forall pos l r, pelems true fuel pos l = Some r -> pelems false fuel pos l = Some r) /\
  (forall pos l r, pmembers true fuel pos l = Some r -> pmembers false fuel pos l = Some r).
Proof.
  induction fuel as [|f (IH1 & IH2 & IH3)]; [repeat split; intros; discriminate|].
  split; [|split].
  - intros pos l r H. cbn [pvalue] in H |- *.
    destruct (Ref.ws l) as [|c t]; [discriminate|].
    destruct (c =? 34).
    { destruct (Ref.str_body true (S (length t)) t) as [[[d h] rest]|] eqn:S1; [|discriminate]. rewrite (str_true_false _ _ _ S1). exact H. }
    destruct (c =? 91).
    { destruct (Ref.ws t) as [|c2 t2].
      - destruct (pelems true f _ t) as [[xs rest]|] eqn:PE; [|discriminate]. rewrite (IH2 _ _ _ PE). exact H.
      - destruct (N.eqb_spec c2 93) as [-> | N3]; [exact H|].
        assert (H' : match pelems true f (S (pos + (length l - length (c :: t)))) t with
                     | Some (xs, rest0) => Some (JArr xs, (pos + (length l - length (c :: t)))%nat, (pos + (length l - length (c :: t)) + (length (c :: t) - length rest0))%nat, rest0)
                     | None => None end = Some r).
        { destruct c2 as [|p]; [exact H|]. repeat (destruct p as [p|p|]; try exact H); contradiction. }
        destruct (pelems true f _ t) as [[xs rest]|] eqn:PE; [|discriminate]. rewrite (IH2 _ _ _ PE).
        destruct c2 as [|p]; [exact H'|]. repeat (destruct p as [p|p|]; try exact H'); contradiction. }
    destruct (c =? 123).
    { destruct (Ref.ws t) as [|c2 t2].
      - destruct (pmembers true f _ t) as [[ms rest]|] eqn:PM; [|discriminate]. rewrite (IH3 _ _ _ PM). exact H.
      - destruct (N.eqb_spec c2 125) as [-> | N3]; [exact H|].
        assert (H' : match pmembers true f (S (pos + (length l - length (c :: t)))) t with
                     | Some (ms, rest0) => Some (JObj ms, (pos + (length l - length (c :: t)))%nat, (pos + (length l - length (c :: t)) + (length (c :: t) - length rest0))%nat, rest0)
                     | None => None end = Some r).
        { destruct c2 as [|p]; [exact H|]. repeat (destruct p as [p|p|]; try exact H); contradiction. }
        destruct (pmembers true f _ t) as [[ms rest]|] eqn:PM; [|discriminate]. rewrite (IH3 _ _ _ PM).
        destruct c2 as [|p]; [exact H'|]. repeat (destruct p as [p|p|]; try exact H'); contradiction. }
    exact H.
  - intros pos l r H. cbn [pelems] in H |- *.
    destruct (pvalue true f pos l) as [[[[v a] b] rest]|] eqn:PV; [|discriminate]. rewrite (IH1 _ _ _ PV).
    destruct (Ref.ws rest) as [|c r2]; [discriminate|].
    destruct (N.eqb_spec c 93) as [-> | N1]; [exact H|].
    destruct (N.eqb_spec c 44) as [-> | N2]; [|nb c].
    destruct (pelems true f _ r2) as [[xs r3]|] eqn:PE; [|discriminate]. rewrite (IH2 _ _ _ PE). exact H.
  - intros pos l r H. cbn [pmembers] in H |- *.
    destruct (Ref.ws l) as [|q k]; [discriminate|].
    destruct (N.eqb_spec q 34) as [-> | Nq]; [|nb q].
    destruct (Ref.str_body true (S (length k)) k) as [[[key hk] rest]|] eqn:SK; [|discriminate]. rewrite (str_true_false _ _ _ SK).
    destruct (Ref.ws rest) as [|c r2]; [discriminate|].
    destruct (N.eqb_spec c 58) as [-> | Nc]; [|nb c].
    match type of H with match pvalue true f ?P r2 with _ => _ end = _ => destruct (pvalue true f P r2) as [[[[v a] b] r3]|] eqn:PV; [|discriminate] end.
    rewrite (IH1 _ _ _ PV).
    destruct (Ref.ws r3) as [|c2 r5]; [discriminate|].
    destruct (N.eqb_spec c2 125) as [-> | N1]; [exact H|].
    destruct (N.eqb_spec c2 44) as [-> | N2]; [|nb c2].
    match type of H with match pmembers true f ?P r5 with _ => _ end = _ => destruct (pmembers true f P r5) as [[ms r6]|] eqn:PM; [|discriminate] end.
    rewrite (IH3 _ _ _ PM). exact H.
Qed.

(* what the walkers use to step over a value the strict parser accepted *)
Lemma lax_step : forall fuel pos l v a b rest, pvalue true fuel pos l = Some (v, a, b, rest) ->
  pvalue false (fuel_for l) pos l = Some (v, a, b, rest).
Proof. intros fuel pos l v a b rest H. apply (fuel_for_enough false fuel). apply (proj1 (pvalue_true_false fuel)). exact H. Qed.

(* ---------- the element walker reaches the i-th element the parser produced ---------- *)
Lemma elems_walk : forall i fuel pos l xs rest a b v, pelems true fuel pos l = Some (xs, rest) -> nth_error xs i = Some (a, b, v) ->
  exists p2 l2 f2 rest2, skip_elems i pos l = Some (p2, l2) /\ pvalue true f2 p2 l2 = Some (v, a, b, rest2).
Proof.
  induction i as [|j IH]; intros fuel pos l xs rest a b v H Hn; (destruct fuel as [|f]; [discriminate|]); cbn [pelems] in H;
    destruct (pvalue true f pos l) as [[[[v0 a0] b0] r1]|] eqn:PV; try discriminate.
  - (* the first element *)
    assert (Hd : exists tl, xs = (a0, b0, v0) :: tl).
    { destruct (Ref.ws r1) as [|c r2]; [discriminate|].
      destruct (N.eqb_spec c 93) as [-> | N1]; [injection H as <- _; eauto|].
      destruct (N.eqb_spec c 44) as [-> | N2]; [|nb c].
      destruct (pelems true f _ r2) as [[xs' r3]|]; [|discriminate]. injection H as <- _. eauto. }
    destruct Hd as (tl & ->). cbn [nth_error] in Hn. injection Hn as <- <- <-.
    exists pos, l, f, r1. split; [reflexivity|exact PV].
  - cbn [skip_elems]. rewrite (lax_step _ _ _ _ _ _ _ PV).
    destruct (Ref.ws r1) as [|c r2]; [discriminate|].
    destruct (N.eqb_spec c 93) as [-> | N1].
    { injection H as <- _. cbn [nth_error] in Hn. destruct j; discriminate. }
    destruct (N.eqb_spec c 44) as [-> | N2]; [|nb c].
    destruct (pelems true f _ r2) as [[xs' r3]|] eqn:PE; [|discriminate]. injection H as <- _.
    cbn [nth_error] in Hn. exact (IH _ _ _ _ _ _ _ _ PE Hn).
Qed.

(* ---------- the member walker reaches the first member with the key, where the parser's list has it ---------- *)
Lemma members_walk : forall fuel F pos l ms rest k a b v, pmembers true fuel pos l = Some (ms, rest) -> (length ms <= F)%nat ->
  assoc_first ms k = Some (a, b, v) ->
  exists p2 l2 f2 rest2, find_member F k pos l = Some (p2, l2) /\ pvalue true f2 p2 l2 = Some (v, a, b, rest2).
Proof.
  induction fuel as [|f IH]; intros F pos l ms rest k a b v H HF HA; [discriminate|].
  cbn [pmembers] in H.
  destruct (Ref.ws l) as [|q kk] eqn:El; [discriminate|].
  destruct (N.eqb_spec q 34) as [-> | Nq]; [|nb q].
  destruct (Ref.str_body true (S (length kk)) kk) as [[[key hk] r0]|] eqn:SK; [|discriminate].
  destruct (Ref.ws r0) as [|c r2] eqn:Er; [discriminate|].
  destruct (N.eqb_spec c 58) as [-> | Nc]; [|nb c].
  match type of H with match pvalue true f ?P r2 with _ => _ end = _ => destruct (pvalue true f P r2) as [[[[v0 a0] b0] r3]|] eqn:PV; [|discriminate] end.
  assert (Hd : exists tl, ms = (key, a0, b0, v0) :: tl /\
                 (tl = [] \/ exists r5, Ref.ws r3 = 44 :: r5 /\ pmembers true f (S (b0 + (length r3 - length (44%N :: r5)))) r5 = Some (tl, rest))).
  { destruct (Ref.ws r3) as [|c2 r5]; [discriminate|].
    destruct (N.eqb_spec c2 125) as [-> | N1]; [injection H as <- _; eexists; split; [reflexivity|left; reflexivity]|].
    destruct (N.eqb_spec c2 44) as [-> | N2]; [|nb c2].
    match type of H with match pmembers true f ?P r5 with _ => _ end = _ => destruct (pmembers true f P r5) as [[ms' r6]|] eqn:PM; [|discriminate] end.
    injection H as <- <-. eexists; split; [reflexivity|right; eauto]. }
  destruct Hd as (tl & -> & Tl). cbn [length] in HF. destruct F as [|F']; [lia|].
  cbn [find_member]. rewrite El, SK, Er.
  cbn [assoc_first] in HA.
  destruct (bytes_eqb key k).
  - injection HA as <- <- <-. eexists. eexists. exists f. eexists. split; [reflexivity|exact PV].
  - rewrite (lax_step _ _ _ _ _ _ _ PV).
    destruct Tl as [-> | (r5 & E5 & PM)]; [discriminate|].
    rewrite E5. apply (IH F' _ _ _ _ _ _ _ _ PM); [lia|exact HA].
Qed.

(* a member list is not longer than the text it was parsed from *)
Lemma pmembers_count : forall fuel pos l ms rest, pmembers true fuel pos l = Some (ms, rest) -> (length ms <= length l)%nat.
Proof.
  induction fuel as [|f IH]; intros pos l ms rest H; [discriminate|]. cbn [pmembers] in H. pose proof (ws_len' l) as WL.
  destruct (Ref.ws l) as [|q kk] eqn:El; [discriminate|]. cbn [length] in WL.
  destruct (N.eqb_spec q 34) as [-> | Nq]; [|nb q].
  destruct (Ref.str_body true (S (length kk)) kk) as [[[key hk] r0]|] eqn:SK; [|discriminate].
  pose proof (str_body_rest_len _ _ _ _ _ _ SK) as L0. pose proof (ws_len' r0) as W0.
  destruct (Ref.ws r0) as [|c r2] eqn:Er; [discriminate|]. cbn [length] in W0.
  destruct (N.eqb_spec c 58) as [-> | Nc]; [|nb c].
  match type of H with match pvalue true f ?P r2 with _ => _ end = _ => destruct (pvalue true f P r2) as [[[[v0 a0] b0] r3]|] eqn:PV; [|discriminate] end.
  pose proof (pvalue_rest_len _ _ _ _ _ _ _ _ PV) as L3. pose proof (ws_len' r3) as W3.
  destruct (Ref.ws r3) as [|c2 r5] eqn:Er3; [discriminate|]. cbn [length] in W3.
  destruct (N.eqb_spec c2 125) as [-> | N1]; [injection H as <- _; cbn [length]; lia|].
  destruct (N.eqb_spec c2 44) as [-> | N2]; [|nb c2].
  match type of H with match pmembers true f ?P r5 with _ => _ end = _ => destruct (pmembers true f P r5) as [[ms' r6]|] eqn:PM; [|discriminate] end.
  injection H as <- _. cbn [length]. specialize (IH _ _ _ _ PM). lia.
Qed.

(* ---------- how containers come out of the parser ---------- *)
Lemma pvalue_arr_inv : forall fuel pos l xs a b rest, pvalue true fuel pos l = Some (Ref.JArr xs, a, b, rest) ->
  exists f r, fuel = S f /\ Ref.ws l = 91 :: r /\ (xs = [] \/ pelems true f (S (pos + (length l - length (91%N :: r)))) r = Some (xs, rest)).
Proof.
  intros fuel pos l xs a b rest H. destruct fuel as [|f]; [discriminate|]. cbn [pvalue] in H.
  destruct (Ref.ws l) as [|c t]; [discriminate|].
  destruct (N.eqb_spec c 34) as [-> | N1].
  { destruct (Ref.str_body true (S (length t)) t) as [[[d h] r]|]; discriminate. }
  destruct (N.eqb_spec c 91) as [-> | N2].
  { exists f, t. split; [reflexivity|]. split; [reflexivity|].
    destruct (Ref.ws t) as [|c2 t2].
    - destruct (pelems true f _ t) as [[xs' rest']|]; [|discriminate]. injection H as <- _ _ <-. right. reflexivity.
    - destruct (N.eqb_spec c2 93) as [-> | N3]; [injection H as <- _ _ _; left; reflexivity|].
      assert (H' : match pelems true f (S (pos + (length l - length (91%N :: t)))) t with
                   | Some (xs0, rest0) => Some (Ref.JArr xs0, (pos + (length l - length (91%N :: t)))%nat, (pos + (length l - length (91%N :: t)) + (length (91%N :: t) - length rest0))%nat, rest0)
                   | None => None end = Some (Ref.JArr xs, a, b, rest)).
      { destruct c2 as [|p]; [exact H|]. repeat (destruct p as [p|p|]; try exact H); contradiction. }
      destruct (pelems true f _ t) as [[xs' rest']|]; [|discriminate]. injection H' as <- _ _ <-. right. reflexivity. }
  destruct (N.eqb_spec c 123) as [-> | N3].
  { destruct (Ref.ws t) as [|c2 t2].
    - destruct (pmembers true f _ t) as [[ms rest']|]; discriminate.
    - exfalso. destruct (pmembers true f _ t) as [[ms rest']|]; destruct c2 as [|p]; try discriminate; repeat (destruct p as [p|p|]; try discriminate). }
  destruct (c =? 116); [destruct (lit_match _ t); discriminate|].
  destruct (c =? 102); [destruct (lit_match _ t); discriminate|].
  destruct (c =? 110); [destruct (lit_match _ t); discriminate|].
  destruct ((c =? 45) || Ref.digit c); [|discriminate]. destruct (Ref.num_rest (c :: t)); discriminate.
Qed.

Lemma pvalue_obj_inv : forall fuel pos l ms a b rest, pvalue true fuel pos l = Some (Ref.JObj ms, a, b, rest) ->
  exists f r, fuel = S f /\ Ref.ws l = 123 :: r /\ (ms = [] \/ pmembers true f (S (pos + (length l - length (123%N :: r)))) r = Some (ms, rest)).
Proof.
  intros fuel pos l ms a b rest H. destruct fuel as [|f]; [discriminate|]. cbn [pvalue] in H.
  destruct (Ref.ws l) as [|c t]; [discriminate|].
  destruct (N.eqb_spec c 34) as [-> | N1].
  { destruct (Ref.str_body true (S (length t)) t) as [[[d h] r]|]; discriminate. }
  destruct (N.eqb_spec c 91) as [-> | N2].
  { destruct (Ref.ws t) as [|c2 t2].
    - destruct (pelems true f _ t) as [[xs rest']|]; discriminate.
    - exfalso. destruct (pelems true f _ t) as [[xs rest']|]; destruct c2 as [|p]; try discriminate; repeat (destruct p as [p|p|]; try discriminate). }
  destruct (N.eqb_spec c 123) as [-> | N3].
  { exists f, t. split; [reflexivity|]. split; [reflexivity|].
    destruct (Ref.ws t) as [|c2 t2].
    - destruct (pmembers true f _ t) as [[ms' rest']|]; [|discriminate]. injection H as <- _ _ <-. right. reflexivity.
    - destruct (N.eqb_spec c2 125) as [-> | N4]; [injection H as <- _ _ _; left; reflexivity|].
      assert (H' : match pmembers true f (S (pos + (length l - length (123%N :: t)))) t with
                   | Some (ms0, rest0) => Some (Ref.JObj ms0, (pos + (length l - length (123%N :: t)))%nat, (pos + (length l - length (123%N :: t)) + (length (123%N :: t) - length rest0))%nat, rest0)
                   | None => None end = Some (Ref.JObj ms, a, b, rest)).
      { destruct c2 as [|p]; [exact H|]. repeat (destruct p as [p|p|]; try exact H); contradiction. }
      destruct (pmembers true f _ t) as [[ms' rest']|]; [|discriminate]. injection H' as <- _ _ <-. right. reflexivity. }
  destruct (c =? 116); [destruct (lit_match _ t); discriminate|].
  destruct (c =? 102); [destruct (lit_match _ t); discriminate|].
  destruct (c =? 110); [destruct (lit_match _ t); discriminate|].
  destruct ((c =? 45) || Ref.digit c); [|discriminate]. destruct (Ref.num_rest (c :: t)); discriminate.
Qed.

(* ---------- main theorem ---------- *)
Theorem get_at_is_lookup : forall p fuel pos l v a b rest a' b' v', pvalue true fuel pos l = Some (v, a, b, rest) ->
  lookup v a b p = Found a' b' v' -> ref_get_at p pos l = Some (a', b').
Proof.
  induction p as [|e p IH]; intros fuel pos l v a b rest a' b' v' H L.
  - cbn [lookup] in L. injection L as <- <- <-. cbn [ref_get_at]. rewrite (lax_step _ _ _ _ _ _ _ H). reflexivity.
  - destruct e as [k|i]; cbn [lookup] in L.
    + destruct v as [| | | | |ms]; try discriminate.
      destruct (assoc_first ms k) as [[[a1 b1] v1]|] eqn:A; [|discriminate].
      destruct (pvalue_obj_inv _ _ _ _ _ _ _ H) as (f & r & -> & Ew & [-> | PM]); [discriminate|].
      cbn [ref_get_at]. rewrite Ew.
      destruct (members_walk _ (S (length r)) _ _ _ _ _ _ _ _ PM ltac:(pose proof (pmembers_count _ _ _ _ _ PM); lia) A) as (p2 & l2 & f2 & rest2 & FM & PV).
      rewrite FM. exact (IH _ _ _ _ _ _ _ _ _ _ PV L).
    + destruct v as [| | | |xs|]; try discriminate.
      destruct (nth_error xs i) as [[[a1 b1] v1]|] eqn:A; [|discriminate].
      destruct (pvalue_arr_inv _ _ _ _ _ _ _ H) as (f & r & -> & Ew & [-> | PE]); [destruct i; discriminate|].
      cbn [ref_get_at]. rewrite Ew.
      destruct (elems_walk _ _ _ _ _ _ _ _ _ PE A) as (p2 & l2 & f2 & rest2 & SE & PV).
      rewrite SE. exact (IH _ _ _ _ _ _ _ _ _ _ PV L).
Qed.

(* on an accepted text, the byte walker finds exactly the span the tree lookup finds *)
Theorem get_is_lookup : forall l v a b p a' b' v', ref_text true l = Some (v, a, b) ->
  lookup v a b p = Found a' b' v' -> ref_get l p = Some (a', b').
Proof.
  intros l v a b p a' b' v' H L. unfold ref_text in H.
  destruct (pvalue true (fuel_for l) 0 l) as [[[[v0 a0] b0] rest]|] eqn:PV; [|discriminate].
  destruct (Ref.ws rest); [|discriminate]. injection H as <- <- <-.
  exact (get_at_is_lookup p _ _ _ _ _ _ _ _ _ _ PV L).
Qed.
Print Assumptions get_is_lookup.

(* ---------- the converse: where the lookup does not resolve, the walker returns nothing ---------- *)
Lemma elems_walk_none : forall i fuel pos l xs rest, pelems true fuel pos l = Some (xs, rest) -> nth_error xs i = None ->
  skip_elems i pos l = None \/ exists p2 l2, skip_elems i pos l = Some (p2, l2) /\ False.
Proof. intros. left. revert fuel pos l xs rest H H0.
  induction i as [|j IH]; intros fuel pos l xs rest H Hn; (destruct fuel as [|f]; [discriminate|]); cbn [pelems] in H;
    destruct (pvalue true f pos l) as [[[[v0 a0] b0] r1]|] eqn:PV; try discriminate.
  - exfalso. destruct (Ref.ws r1) as [|c r2]; [discriminate|].
    destruct (N.eqb_spec c 93) as [-> | N1]; [injection H as <- _; discriminate|].
    destruct (N.eqb_spec c 44) as [-> | N2]; [|nb c].
    destruct (pelems true f _ r2) as [[xs' r3]|]; [|discriminate]. injection H as <- _. discriminate.
  - cbn [skip_elems]. rewrite (lax_step _ _ _ _ _ _ _ PV).
    destruct (Ref.ws r1) as [|c r2]; [discriminate|].
    destruct (N.eqb_spec c 93) as [-> | N1]; [reflexivity|].
    destruct (N.eqb_spec c 44) as [-> | N2]; [|nb c].
    destruct (pelems true f _ r2) as [[xs' r3]|] eqn:PE; [|discriminate]. injection H as <- _.
    cbn [nth_error] in Hn. exact (IH _ _ _ _ _ PE Hn).
Qed.

Lemma skip_elems_none : forall i fuel pos l xs rest, pelems true fuel pos l = Some (xs, rest) -> nth_error xs i = None -> skip_elems i pos l = None.
Proof. intros i fuel pos l xs rest H Hn. destruct (elems_walk_none i fuel pos l xs rest H Hn) as [E | (p2 & l2 & _ & [])]. exact E. Qed.

Lemma find_member_none : forall fuel F pos l ms rest k, pmembers true fuel pos l = Some (ms, rest) -> assoc_first ms k = None -> find_member F k pos l = None.
Proof.
  induction fuel as [|f IH]; intros F pos l ms rest k H HA; [discriminate|].
  destruct F as [|F']; [reflexivity|].
  cbn [pmembers] in H. cbn [find_member].
  destruct (Ref.ws l) as [|q kk] eqn:El; [discriminate|].
  destruct (N.eqb_spec q 34) as [-> | Nq]; [|nb q].
  destruct (Ref.str_body true (S (length kk)) kk) as [[[key hk] r0]|] eqn:SK; [|discriminate].
  destruct (Ref.ws r0) as [|c r2] eqn:Er; [discriminate|].
  destruct (N.eqb_spec c 58) as [-> | Nc]; [|nb c].
  match type of H with match pvalue true f ?P r2 with _ => _ end = _ => destruct (pvalue true f P r2) as [[[[v0 a0] b0] r3]|] eqn:PV; [|discriminate] end.
  rewrite (lax_step _ _ _ _ _ _ _ PV).
  destruct (Ref.ws r3) as [|c2 r5] eqn:Er3; [discriminate|].
  destruct (N.eqb_spec c2 125) as [-> | N1].
  { injection H as <- _. cbn [assoc_first] in HA. destruct (bytes_eqb key k); [discriminate|reflexivity]. }
  destruct (N.eqb_spec c2 44) as [-> | N2]; [|nb c2].
  match type of H with match pmembers true f ?P r5 with _ => _ end = _ => destruct (pmembers true f P r5) as [[ms' r6]|] eqn:PM; [|discriminate] end.
  injection H as <- _. cbn [assoc_first] in HA. destruct (bytes_eqb key k); [discriminate|].
  exact (IH F' _ _ _ _ _ PM HA).
Qed.

(* what a scalar or a container of the other kind looks like to the walker *)
Lemma pvalue_first_byte : forall fuel pos l v a b rest, pvalue true fuel pos l = Some (v, a, b, rest) ->
  exists c t, Ref.ws l = c :: t /\ (c = 91 -> exists xs, v = Ref.JArr xs) /\ (c = 123 -> exists ms, v = Ref.JObj ms) /\
              ((exists xs, v = Ref.JArr xs) -> c = 91) /\ ((exists ms, v = Ref.JObj ms) -> c = 123).
Proof.
  intros fuel pos l v a b rest H. destruct fuel as [|f]; [discriminate|]. cbn [pvalue] in H.
  destruct (Ref.ws l) as [|c t]; [discriminate|]. exists c, t. split; [reflexivity|].
  destruct (N.eqb_spec c 34) as [-> | N1].
  { destruct (Ref.str_body true (S (length t)) t) as [[[d h] r]|]; [|discriminate]. injection H as <- _ _ _.
    repeat split; try discriminate; intros (x & E); discriminate. }
  destruct (N.eqb_spec c 91) as [-> | N2].
  { assert (G : exists xs, v = Ref.JArr xs).
    { destruct (Ref.ws t) as [|c2 t2].
      - destruct (pelems true f _ t) as [[xs rest']|]; [|discriminate]. injection H as <- _ _ _. eauto.
      - destruct (pelems true f _ t) as [[xs rest']|]; destruct c2 as [|p]; try discriminate; try (injection H as <- _ _ _; eauto);
          repeat (destruct p as [p|p|]; try discriminate; try (injection H as <- _ _ _; eauto)). }
    repeat split; try discriminate; auto. intros (ms & E). destruct G as (xs & ->). discriminate. }
  destruct (N.eqb_spec c 123) as [-> | N3].
  { assert (G : exists ms, v = Ref.JObj ms).
    { destruct (Ref.ws t) as [|c2 t2].
      - destruct (pmembers true f _ t) as [[ms rest']|]; [|discriminate]. injection H as <- _ _ _. eauto.
      - destruct (pmembers true f _ t) as [[ms rest']|]; destruct c2 as [|p]; try discriminate; try (injection H as <- _ _ _; eauto);
          repeat (destruct p as [p|p|]; try discriminate; try (injection H as <- _ _ _; eauto)). }
    repeat split; try discriminate; auto. intros (xs & E). destruct G as (ms & ->). discriminate. }
  assert (G : (forall xs, v <> Ref.JArr xs) /\ (forall ms, v <> Ref.JObj ms)).
  { destruct (c =? 116); [destruct (lit_match _ t); [injection H as <- _ _ _; split; discriminate|discriminate]|].
    destruct (c =? 102); [destruct (lit_match _ t); [injection H as <- _ _ _; split; discriminate|discriminate]|].
    destruct (c =? 110); [destruct (lit_match _ t); [injection H as <- _ _ _; split; discriminate|discriminate]|].
    destruct ((c =? 45) || Ref.digit c); [|discriminate]. destruct (Ref.num_rest (c :: t)); [injection H as <- _ _ _; split; discriminate|discriminate]. }
  destruct G as [G1 G2]. repeat split; try contradiction; intros (x & E); [exact (False_ind _ (G1 _ E))|exact (False_ind _ (G2 _ E))].
Qed.

Theorem get_at_none : forall p fuel pos l v a b rest, pvalue true fuel pos l = Some (v, a, b, rest) ->
  (lookup v a b p = Missing \/ lookup v a b p = WrongKind) -> ref_get_at p pos l = None.
Proof.
  induction p as [|e p IH]; intros fuel pos l v a b rest H L.
  - cbn [lookup] in L. destruct L; discriminate.
  - destruct (pvalue_first_byte _ _ _ _ _ _ _ H) as (c & t & Ew & A1 & O1 & A2 & O2).
    destruct e as [k|i]; cbn [lookup] in L; cbn [ref_get_at]; rewrite Ew.
    + destruct v as [| | | | |ms].
      1-5: (destruct (N.eqb_spec c 123) as [-> | Nc]; [destruct (O1 eq_refl) as (ms & E); discriminate|];
            destruct c as [|q]; [reflexivity|]; repeat (destruct q as [q|q|]; try reflexivity); contradiction).
      rewrite (O2 (ex_intro _ ms eq_refl)) in Ew |- *.
      destruct (pvalue_obj_inv _ _ _ _ _ _ _ H) as (f & r & -> & Ew' & Cs). rewrite Ew in Ew'. injection Ew' as <-.
      destruct (assoc_first ms k) as [[[a1 b1] v1]|] eqn:A.
      * destruct Cs as [-> | PM]; [discriminate|].
        destruct (members_walk _ (S (length t)) _ _ _ _ _ _ _ _ PM ltac:(pose proof (pmembers_count _ _ _ _ _ PM); lia) A) as (p2 & l2 & f2 & rest2 & FM & PV).
        rewrite FM. exact (IH _ _ _ _ _ _ _ PV L).
      * destruct Cs as [-> | PM].
        -- (* empty object: the walker meets the closing brace where a key must start *)
           assert (E0 : exists r5, Ref.ws t = 125 :: r5).
           { cbn [pvalue] in H. rewrite Ew in H. change (123 =? 34) with false in H. change (123 =? 91) with false in H. change (123 =? 123) with true in H. cbv iota in H.
             destruct (Ref.ws t) as [|c2 t2] eqn:E2.
             - destruct (pmembers true f _ t) as [[ms rest']|] eqn:PM; [|discriminate]. injection H as -> _ _ _.
               exfalso. destruct f as [|f']; [discriminate|]. cbn [pmembers] in PM. rewrite E2 in PM. discriminate.
             - destruct (N.eqb_spec c2 125) as [-> | N4]; [eauto|]. exfalso.
               assert (H' : match pmembers true f (S (pos + (length l - length (123%N :: t)))) t with
                   | Some (ms0, rest0) => Some (Ref.JObj ms0, (pos + (length l - length (123%N :: t)))%nat, (pos + (length l - length (123%N :: t)) + (length (123%N :: t) - length rest0))%nat, rest0)
                   | None => None end = Some (Ref.JObj [], a, b, rest)).
               { destruct c2 as [|q]; [exact H|]. repeat (destruct q as [q|q|]; try exact H); contradiction. }
               destruct (pmembers true f _ t) as [[ms rest']|] eqn:PM; [|discriminate]. injection H' as -> _ _ _.
               destruct f as [|f']; [discriminate|]. cbn [pmembers] in PM. rewrite E2 in PM.
               destruct (N.eqb_spec c2 34) as [-> | Nq]; [|nb c2].
               destruct (Ref.str_body true (S (length t2)) t2) as [[[key hk] r0]|]; [|discriminate].
               destruct (Ref.ws r0) as [|c3 r2]; [discriminate|]. destruct (N.eqb_spec c3 58) as [-> | N5]; [|nb c3].
               match type of PM with match pvalue true f' ?P r2 with _ => _ end = _ => destruct (pvalue true f' P r2) as [[[[v0 a0] b0] r3]|]; [|discriminate] end.
               destruct (Ref.ws r3) as [|c4 r5]; [discriminate|].
               destruct (N.eqb_spec c4 125) as [-> | N6]; [discriminate|]. destruct (N.eqb_spec c4 44) as [-> | N7]; [|nb c4].
               match type of PM with match pmembers true f' ?P r5 with _ => _ end = _ => destruct (pmembers true f' P r5) as [[ms' r6]|]; discriminate end. }
           destruct E0 as (r5 & E5). cbn [find_member]. rewrite E5. reflexivity.
        -- rewrite (find_member_none _ _ _ _ _ _ _ PM A). reflexivity.
    + destruct v as [| | | |xs|].
      1-4,6: (destruct (N.eqb_spec c 91) as [-> | Nc]; [destruct (A1 eq_refl) as (xs & E); discriminate|];
              destruct c as [|q]; [reflexivity|]; repeat (destruct q as [q|q|]; try reflexivity); contradiction).
      rewrite (A2 (ex_intro _ xs eq_refl)) in Ew |- *.
      destruct (pvalue_arr_inv _ _ _ _ _ _ _ H) as (f & r & -> & Ew' & Cs). rewrite Ew in Ew'. injection Ew' as <-.
      destruct (nth_error xs i) as [[[a1 b1] v1]|] eqn:A.
      * destruct Cs as [-> | PE]; [destruct i; discriminate|].
        destruct (elems_walk _ _ _ _ _ _ _ _ _ PE A) as (p2 & l2 & f2 & rest2 & SE & PV).
        rewrite SE. exact (IH _ _ _ _ _ _ _ PV L).
      * destruct Cs as [-> | PE].
        -- (* empty array *)
           assert (E0 : exists r5, Ref.ws t = 93 :: r5).
           { cbn [pvalue] in H. rewrite Ew in H. change (91 =? 34) with false in H. change (91 =? 91) with true in H. cbv iota in H.
             destruct (Ref.ws t) as [|c2 t2] eqn:E2.
             - destruct (pelems true f _ t) as [[xs rest']|] eqn:PE; [|discriminate]. injection H as -> _ _ _.
               exfalso. destruct f as [|f']; [discriminate|]. cbn [pelems] in PE.
               destruct (pvalue true f' _ t) as [[[[v0 a0] b0] r1]|] eqn:PV; [|discriminate].
               destruct f' as [|f'']; [discriminate|]. cbn [pvalue] in PV. rewrite E2 in PV. discriminate.
             - destruct (N.eqb_spec c2 93) as [-> | N4]; [eauto|]. exfalso.
               assert (H' : match pelems true f (S (pos + (length l - length (91%N :: t)))) t with
                   | Some (xs0, rest0) => Some (Ref.JArr xs0, (pos + (length l - length (91%N :: t)))%nat, (pos + (length l - length (91%N :: t)) + (length (91%N :: t) - length rest0))%nat, rest0)
                   | None => None end = Some (Ref.JArr [], a, b, rest)).
               { destruct c2 as [|q]; [exact H|]. repeat (destruct q as [q|q|]; try exact H); contradiction. }
               destruct (pelems true f _ t) as [[xs rest']|] eqn:PE; [|discriminate]. injection H' as -> _ _ _.
               destruct f as [|f']; [discriminate|]. cbn [pelems] in PE.
               destruct (pvalue true f' _ t) as [[[[v0 a0] b0] r1]|]; [|discriminate].
               destruct (Ref.ws r1) as [|c3 r2]; [discriminate|].
               destruct (N.eqb_spec c3 93) as [-> | N5]; [discriminate|]. destruct (N.eqb_spec c3 44) as [-> | N6]; [|nb c3].
               destruct (pelems true f' _ r2) as [[xs' r3]|]; discriminate. }
           destruct E0 as (r5 & E5).
           (* the walker tries to parse a value at the closing bracket *)
           destruct i as [|j].
           ++ cbn [skip_elems]. destruct p as [|e2 p2]; cbn [ref_get_at].
              ** unfold fuel_for. cbn [pvalue]. rewrite E5.
                 change (93 =? 34) with false. change (93 =? 91) with false. change (93 =? 123) with false.
                 change (93 =? 116) with false. change (93 =? 102) with false. change (93 =? 110) with false. reflexivity.
              ** destruct e2; rewrite E5; reflexivity.
           ++ cbn [skip_elems]. unfold fuel_for. cbn [pvalue]. rewrite E5.
              change (93 =? 34) with false. change (93 =? 91) with false. change (93 =? 123) with false.
              change (93 =? 116) with false. change (93 =? 102) with false. change (93 =? 110) with false. reflexivity.
        -- rewrite (skip_elems_none _ _ _ _ _ _ PE A). reflexivity.
Qed.

(* on an accepted text the byte walker and the tree lookup are the same function of the path *)
Theorem get_iff_lookup : forall l v a b p, ref_text true l = Some (v, a, b) ->
  ref_get l p = match lookup v a b p with Found a' b' _ => Some (a', b') | _ => None end.
Proof.
  intros l v a b p H. unfold ref_text in H.
  destruct (pvalue true (fuel_for l) 0 l) as [[[[v0 a0] b0] rest]|] eqn:PV; [|discriminate].
  destruct (Ref.ws rest); [|discriminate]. injection H as <- <- <-.
  unfold ref_get. destruct (lookup v0 a0 b0 p) as [a' b' v'| |] eqn:L.
  - exact (get_at_is_lookup p _ _ _ _ _ _ _ _ _ _ PV L).
  - apply (get_at_none p _ _ _ _ _ _ _ PV). left. exact L.
  - apply (get_at_none p _ _ _ _ _ _ _ PV). right. exact L.
Qed.
Print Assumptions get_iff_lookup.
