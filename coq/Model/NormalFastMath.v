(* Model/NormalFastMath.v -- the arithmetic behind the 19-digit fast path of sonic-number
   (parse_floating_normal_fast, after yyjson): a 64-bit significand s1 times a 128-bit approximation
   T = s2 * 2^64 + s2x of the power of ten, truncated to the upper word(s), decides the rounding of
   the exact product whenever the code says it does. Pure integer arithmetic; the exact factor is the
   positive rational N / D with |T - N/D| < 1. *)
From Coq Require Import ZArith Lia Bool.
From SonicV Require Import Spec.Num Model.NumSpec.
Open Scope Z_scope.

Definition W := 18446744073709551616.            (* 2^64 *)

Section Product.
  Variables s1 s2 s2x N D : Z.
  Hypothesis Hs1 : 0 <= s1 < W.
  Hypothesis Hs2 : 0 <= s2 < W.
  Hypothesis Hs2x : 0 <= s2x < W.
  Hypothesis HD : 0 < D.
  Hypothesis Terr : (s2 * W + s2x - 1) * D < N < (s2 * W + s2x + 1) * D.

  Let A := s1 * s2.
  Let B := s1 * s2x.
  Let hi := A / W.
  Let lo := A mod W.
  Let hi2 := B / W.
  Let loB := B mod W.

  Lemma Phat : s1 * (s2 * W + s2x) = hi * (W * W) + lo * W + hi2 * W + loB.
  Proof.
    unfold hi, lo, hi2, loB, A, B, W.
    pose proof (Z.div_mod (s1 * s2) 18446744073709551616 ltac:(lia)).
    pose proof (Z.div_mod (s1 * s2x) 18446744073709551616 ltac:(lia)). lia.
  Qed.

  Lemma exact_between : (s1 * (s2 * W + s2x) - s1) * D <= s1 * N <= (s1 * (s2 * W + s2x) + s1) * D.
  Proof. destruct Terr as [L U]. split; nia. Qed.
  Lemma exact_between_strict : 0 < s1 -> (s1 * (s2 * W + s2x) - s1) * D < s1 * N < (s1 * (s2 * W + s2x) + s1) * D.
  Proof. intros P. destruct Terr as [L U]. split; nia. Qed.

  Lemma ranges : 0 <= hi < W /\ 0 <= lo < W /\ 0 <= hi2 < W /\ 0 <= loB < W.
  Proof.
    unfold hi, lo, hi2, loB, A, B, W in *.
    assert (0 <= s1 * s2 < 18446744073709551616 * 18446744073709551616) by nia.
    assert (0 <= s1 * s2x < 18446744073709551616 * 18446744073709551616) by nia.
    repeat split; try (apply Z.div_pos; lia); try (apply Z.div_lt_upper_bound; lia); try (apply Z.mod_pos_bound; lia).
  Qed.

  (* first stage: the low nine bits of the upper word are neither all zero nor all one *)
  Theorem first_stage_decides : 0 < s1 -> 1 <= hi mod 512 <= 510 ->
    (hi / 512) * (512 * (W * W)) * D < s1 * N < (hi / 512 + 1) * (512 * (W * W)) * D.
  Proof.
    intros P Hb. pose proof Phat as E. pose proof (exact_between_strict P) as [L U]. pose proof ranges as (R1 & R2 & R3 & R4).
    pose proof (Z.div_mod hi 512 ltac:(lia)) as DM. set (h9 := hi / 512) in *. set (b := hi mod 512) in *.
    rewrite E in L, U. unfold W in *.
    split.
    - apply Z.le_lt_trans with (2 := L). apply Z.mul_le_mono_nonneg_r; [lia|]. nia.
    - apply Z.lt_le_trans with (1 := U). apply Z.mul_le_mono_nonneg_r; [lia|]. nia.
  Qed.

  (* second stage: the middle word of the 192-bit product is neither 0 nor all ones *)
  Definition add := (lo + hi2) mod W.
  Definition carry := if W <=? lo + hi2 then 1 else 0.
  Theorem second_stage_decides : 0 < s1 -> 1 <= add <= W - 2 ->
    ((hi + carry) / 512) * (512 * (W * W)) * D < s1 * N < ((hi + carry) / 512 + 1) * (512 * (W * W)) * D.
  Proof.
    intros P Ha. pose proof Phat as E. pose proof (exact_between_strict P) as [L U]. pose proof ranges as (R1 & R2 & R3 & R4).
    assert (S : lo + hi2 = carry * W + add).
    { unfold add, carry. pose proof (Z.div_mod (lo + hi2) W ltac:(unfold W; lia)) as DM0.
      pose proof (Z.mod_pos_bound (lo + hi2) W ltac:(unfold W; lia)) as MB0.
      destruct (Z.leb_spec W (lo + hi2)); unfold W in *; nia. }
    pose proof (Z.div_mod (hi + carry) 512 ltac:(lia)) as DM. pose proof (Z.mod_pos_bound (hi + carry) 512 ltac:(lia)) as MB.
    set (H := hi + carry) in *. set (h9 := H / 512) in *.
    assert (E2 : s1 * (s2 * W + s2x) = H * (W * W) + add * W + loB) by (unfold H; nia).
    rewrite E2 in L, U. unfold W in *.
    split.
    - apply Z.le_lt_trans with (2 := L). apply Z.mul_le_mono_nonneg_r; [lia|]. nia.
    - apply Z.lt_le_trans with (1 := U). apply Z.mul_le_mono_nonneg_r; [lia|]. nia.
  Qed.
End Product.

(* ---------- rounding: half-up on the truncated word is nearest-even on the exact value ---------- *)
(* X / Dn is the exact value in units of the upper word H; it lies strictly inside the 512-block of H *)
Lemma round_at_10 : forall X Dn H, 0 < Dn -> 0 <= H ->
  (H / 512) * 512 * Dn < X < (H / 512 + 1) * 512 * Dn ->
  rne_div X (Dn * 1024) = H / 1024 + (H / 512) mod 2.
Proof.
  intros X Dn H HD HH [L U]. symmetry.
  pose proof (Z.div_mod (H / 512) 2 ltac:(lia)) as DM. pose proof (Z.mod_pos_bound (H / 512) 2 ltac:(lia)) as MB.
  assert (Q : H / 1024 = H / 512 / 2) by (rewrite Z.div_div by lia; reflexivity).
  assert (H9 : 0 <= H / 512) by (apply Z.div_pos; lia).
  set (h9 := H / 512) in *. set (q := h9 / 2) in *. set (b := h9 mod 2) in *. rewrite Q.
  assert (P0 : 0 <= h9 * 512 * Dn) by (apply Z.mul_nonneg_nonneg; lia).
  assert (X0 : 0 <= X) by lia.
  apply rne_div_unique; [lia|lia| |].
  - assert (b = 0 \/ b = 1) as [-> | ->] by lia; nia.
  - intros T. exfalso. assert (b = 0 \/ b = 1) as [B0 | B1] by lia; rewrite ?B0, ?B1 in *; nia.
Qed.

Lemma round_at_11 : forall X Dn H, 0 < Dn -> 0 <= H ->
  (H / 512) * 512 * Dn < X < (H / 512 + 1) * 512 * Dn ->
  rne_div X (Dn * 2048) = H / 2048 + (H / 1024) mod 2.
Proof.
  intros X Dn H HD HH [L U]. symmetry.
  assert (Q1 : H / 1024 = H / 512 / 2) by (rewrite Z.div_div by lia; reflexivity).
  assert (Q2 : H / 2048 = H / 1024 / 2) by (rewrite Z.div_div by lia; reflexivity).
  pose proof (Z.div_mod (H / 512) 2 ltac:(lia)) as DM1. pose proof (Z.mod_pos_bound (H / 512) 2 ltac:(lia)) as MB1.
  pose proof (Z.div_mod (H / 1024) 2 ltac:(lia)) as DM2. pose proof (Z.mod_pos_bound (H / 1024) 2 ltac:(lia)) as MB2.
  rewrite <- Q1 in DM1. rewrite <- Q2 in DM2.
  assert (H9 : 0 <= H / 512) by (apply Z.div_pos; lia).
  assert (H11 : 0 <= H / 2048) by (apply Z.div_pos; lia).
  set (h9 := H / 512) in *. set (h10 := H / 1024) in *. set (q := H / 2048) in *.
  set (c := h9 mod 2) in *. set (b := h10 mod 2) in *.
  assert (P0 : 0 <= h9 * 512 * Dn) by (apply Z.mul_nonneg_nonneg; lia).
  assert (X0 : 0 <= X) by lia.
  assert (E9 : h9 = 4 * q + 2 * b + c) by lia.
  rewrite E9 in L, U.
  assert (Bc : b = 0 \/ b = 1) by lia. assert (Cc : c = 0 \/ c = 1) by lia.
  apply rne_div_unique; [lia|lia| |].
  - destruct Bc as [-> | ->]; destruct Cc as [-> | ->]; nia.
  - intros T. exfalso. destruct Bc as [B0 | B0]; destruct Cc as [C0 | C0]; rewrite B0, C0 in *; nia.
Qed.
