(* Model/GuardsOk.v -- the obligations of the guards Gen/Guards.v was regenerated with on this run
   (lib/guards.py reads them from the current source text).  Each lemma is stated about the
   extracted constants, not about numerals copied by hand: a guard edited in the source changes what
   is proved here, and an edit that makes a guard unsafe makes a proof fail. *)
From Coq Require Import ZArith List Lia.
From SonicV Require Import Gen.Guards Gen.Tables Model.NodeBudget.
Import ListNotations.
Local Open Scope Z_scope.

(* ---------- DOM node buffer (C01) ---------- *)
Lemma node_guard_shape : 1 <= G_NODE_DIV <= 2 /\ 2 <= G_NODE_ADD.
Proof. vm_compute. intuition discriminate. Qed.

Theorem node_buffer_guard_suffices : forall v total, (NodeBudget.len v <= total)%nat ->
  Z.of_nat (1 + peak v) <= Z.of_nat total / G_NODE_DIV + G_NODE_ADD.
Proof.
  intros v total H. pose proof (node_budget_sufficient v total H) as B. destruct node_guard_shape as [[D1 D2] A].
  assert (Z.of_nat (total / 2) = Z.of_nat total / 2) by (rewrite Nat2Z.inj_div; reflexivity).
  assert (Z.of_nat total / 2 <= Z.of_nat total / G_NODE_DIV) by (apply Z.div_le_compat_l; lia).
  lia.
Qed.

(* ---------- integer accumulation (C07) ---------- *)
(* G_INT_DIGITS digits never wrap a u64, so the wrapping accumulation is exact up to that count;
   the re-accumulation of the slow path is over the same count *)
Theorem int_digits_guard : 10 ^ G_INT_DIGITS <= 2 ^ 64 /\ G_INT_DIGITS_REDO = G_INT_DIGITS /\ G_INT_DIGITS = 19.
Proof. vm_compute. intuition (discriminate || reflexivity). Qed.
(* the float paths keep fewer digits than fit a u64 *)
Theorem float_digits_guard : 0 < G_FLOAT_DIGITS <= G_INT_DIGITS.
Proof. vm_compute. intuition discriminate. Qed.

(* ---------- exponent clamp: beyond the clamp every result is zero or infinite anyway ---------- *)
(* significands are below 2^64: at the low clamp the value is below half the smallest subnormal
   (2^-1075), at the high clamp even a significand of 1 is above the largest finite double *)
Theorem exponent_clamp_guard :
  343 <= - G_EXP_CLAMP_LO /\ 2 ^ 64 * 2 ^ 1075 < 10 ^ 343 /\
  309 <= G_EXP_CLAMP_HI - 20 /\ 2 ^ 1024 <= 10 ^ 309.
Proof. vm_compute. intuition discriminate. Qed.

(* ---------- Clinger fast path ---------- *)
Definition POW10_FLOAT_LEN : Z := Z.of_nat (length POW10_FLOAT_BITS).
Theorem clinger_guard :
  (* the significand converts to f64 exactly *)
  2 ^ G_CL_SHIFT <= 2 ^ 53 /\
  (* every table index the path uses is inside POW10_FLOAT *)
  0 <= - G_CL_LO < POW10_FLOAT_LEN /\ G_CL_SPLIT < POW10_FLOAT_LEN /\ G_CL_SPLIT_MUL < POW10_FLOAT_LEN /\
  0 < G_CL_SPLIT + 1 - G_CL_SPLIT_SUB /\ G_CL_HI - G_CL_SPLIT_SUB < POW10_FLOAT_LEN /\
  (* every power of ten used as a factor is exactly representable: 10^22 < 2^53 * 2^22 and 5^22 < 2^53 *)
  5 ^ G_CL_SPLIT < 2 ^ 53 /\ 5 ^ (G_CL_HI - G_CL_SPLIT_SUB) < 2 ^ 53 /\ 5 ^ (- G_CL_LO) < 2 ^ 53 /\
  (* the split product is exact when it passes the magnitude test: 10^G_CL_MID_EXP < 2^53 *)
  10 ^ G_CL_MID_EXP < 2 ^ 53 /\ G_CL_SPLIT_MUL = G_CL_SPLIT_SUB /\ G_CL_SPLIT = G_CL_SPLIT_SUB.
Proof. vm_compute. intuition (discriminate || reflexivity). Qed.

(* ---------- Eisel-Lemire style normal fast path ---------- *)
Definition POW5_LEN : Z := Z.of_nat (length POWER_OF_FIVE_128).
Theorem normal_fast_guard :
  (* table index in range for every exponent that passes the guard *)
  0 <= (G_NF_LO + 1) + G_NF_IDX /\ (G_NF_HI - 1) + G_NF_IDX < POW5_LEN /\ G_NF_IDX = - SMALLEST_POWER_OF_FIVE /\
  (* the largest value that can reach it, (2^64 - 1) * 10^(G_NF_HI - 1), rounds to a FINITE double:
     it is below 2^1024 - 2^970, the midpoint above the largest finite double *)
  (2 ^ 64 - 1) * 10 ^ (G_NF_HI - 1) < 2 ^ 1024 - 2 ^ 970 /\
  (* the smallest non-zero value that can reach it, 1 * 10^(G_NF_LO + 1), is a NORMAL double: >= 2^-1022 *)
  10 ^ (- (G_NF_LO + 1)) <= 2 ^ 1022.
Proof. vm_compute. intuition (discriminate || reflexivity). Qed.

(* ---------- input padding (C01) ---------- *)
(* a block load that starts at any byte of the text ends inside the padding that parse entry points
   append behind it (PADDING_SIZE is dumped from the crate, G_MAX_BLOCK is read from the source) *)
Theorem padding_covers_block_loads : forall len i, 0 <= i < len -> i + G_MAX_BLOCK <= len + Z.of_N PADDING_SIZE.
Proof. intros len i H. assert (G_MAX_BLOCK <= Z.of_N PADDING_SIZE) by (vm_compute; discriminate). lia. Qed.

(* combinations quoted by Props/C01.v and Props/C04.v *)
Lemma float_table_indices :
  0 <= - G_CL_LO < POW10_FLOAT_LEN /\ G_CL_SPLIT < POW10_FLOAT_LEN /\ G_CL_SPLIT_MUL < POW10_FLOAT_LEN /\
  G_CL_HI - G_CL_SPLIT_SUB < POW10_FLOAT_LEN /\ 0 < G_CL_SPLIT + 1 - G_CL_SPLIT_SUB /\
  0 <= (G_NF_LO + 1) + G_NF_IDX /\ (G_NF_HI - 1) + G_NF_IDX < POW5_LEN.
Proof. pose proof clinger_guard as C. pose proof normal_fast_guard as N. intuition. Qed.
Lemma float_fast_path_guards_ok :
  2 ^ G_CL_SHIFT <= 2 ^ 53 /\ (2 ^ 64 - 1) * 10 ^ (G_NF_HI - 1) < 2 ^ 1024 - 2 ^ 970 /\ 10 ^ (- (G_NF_LO + 1)) <= 2 ^ 1022.
Proof. pose proof clinger_guard as C. pose proof normal_fast_guard as N. intuition. Qed.
