(* Model/FuncsUni.v -- theorems about the \u-escape helpers of src/util/unicode.rs as translated (T2):
   hex_to_u32_nocheck is the table expression of Model/TablesDefs.v (hence, by hex_table_valid, the value
   of four hex digits), and codepoint_to_utf8 writes exactly the UTF-8 encoding of the reference
   (Spec.Ref.utf8_encode), touches nothing behind it, never panics, and returns 0 without writing
   for values above U+10FFFF. *)
From Coq Require Import ZArith NArith List Bool Lia.
From SonicV Require Import Base.RustInt Gen.Tables Gen.Funcs Spec.Ref Model.TablesDefs Model.TablesOk.
Import ListNotations.
Open Scope Z_scope.
Ltac Zify.zify_post_hook ::= Z.div_mod_to_equations.

(* ---------- hex ---------- *)
Lemma idx_table : forall (T : list N) i, 0 <= i < Z.of_nat (length T) ->
  idx (map Z.of_N T) i = Some (Z.of_N (tab T (Z.to_N i))).
Proof.
  intros T i H. unfold idx, tab. rewrite map_length. destruct (Z.ltb_spec i 0); [lia|]. destruct (Z.leb_spec (Z.of_nat (length T)) i); [lia|]. cbn [orb].
  rewrite nth_error_map. rewrite Z_N_nat.
  rewrite (nth_error_nth' T 0%N) by lia. reflexivity.
Qed.

Lemma of_N_lor : forall a b, Z.of_N (N.lor a b) = Z.lor (Z.of_N a) (Z.of_N b).
Proof. intros [|p] [|q]; reflexivity. Qed.

Theorem hex_to_u32_translated : forall a b c d, 0 <= a < 256 -> 0 <= b < 256 -> 0 <= c < 256 -> 0 <= d < 256 ->
  hex_to_u32_nocheck [a; b; c; d] = Some (Z.of_N (hex_to_u32 (Z.to_N a) (Z.to_N b) (Z.to_N c) (Z.to_N d))).
Proof.
  intros a b c d Ha Hb Hc Hd. unfold hex_to_u32_nocheck, DIGIT_TO_VAL32_Z.
  assert (L : Z.of_nat (length DIGIT_TO_VAL32) = 886) by reflexivity.
  change (idx [a; b; c; d] 0) with (Some a). change (idx [a; b; c; d] 1) with (Some b).
  change (idx [a; b; c; d] 2) with (Some c). change (idx [a; b; c; d] 3) with (Some d). cbn [bind].
  rewrite (chk_u_some 64 (630 + a)) by lia. cbn [bind]. rewrite idx_table by lia. cbn [bind].
  rewrite (chk_u_some 64 (420 + b)) by lia. cbn [bind]. rewrite idx_table by lia. cbn [bind].
  rewrite (chk_u_some 64 (210 + c)) by lia. cbn [bind]. rewrite idx_table by lia. cbn [bind].
  rewrite idx_table by lia. cbn [bind].
  unfold hex_to_u32. rewrite !of_N_lor.
  replace (Z.to_N (630 + a)) with (630 + Z.to_N a)%N by lia.
  replace (Z.to_N (420 + b)) with (420 + Z.to_N b)%N by lia.
  replace (Z.to_N (210 + c)) with (210 + Z.to_N c)%N by lia.
  replace (Z.to_N d) with (0 + Z.to_N d)%N at 1 by lia. reflexivity.
Qed.

(* ---------- UTF-8 encoding ---------- *)
Definition enc_Z (cp : Z) : list Z :=
  if cp <? 128 then [cp]
  else if cp <? 2048 then [192 + cp / 64; 128 + cp mod 64]
  else if cp <? 65536 then [224 + cp / 4096; 128 + (cp / 64) mod 64; 128 + cp mod 64]
  else [240 + cp / 262144; 128 + (cp / 4096) mod 64; 128 + (cp / 64) mod 64; 128 + cp mod 64].

Lemma enc_Z_is_reference : forall cp, 0 <= cp -> map Z.of_N (utf8_encode (Z.to_N cp)) = enc_Z cp.
Proof.
  intros cp H. unfold utf8_encode, enc_Z.
  destruct (N.ltb_spec (Z.to_N cp) 128); destruct (Z.ltb_spec cp 128); try lia; [cbn [map]; f_equal; lia|].
  destruct (N.ltb_spec (Z.to_N cp) 2048); destruct (Z.ltb_spec cp 2048); try lia.
  { cbn [map]. rewrite !N2Z.inj_add, N2Z.inj_div, N2Z.inj_mod, Z2N.id by lia. reflexivity. }
  destruct (N.ltb_spec (Z.to_N cp) 65536); destruct (Z.ltb_spec cp 65536); try lia.
  { cbn [map]. rewrite !N2Z.inj_add, !N2Z.inj_mod, !N2Z.inj_div, Z2N.id by lia. reflexivity. }
  cbn [map]. rewrite !N2Z.inj_add, !N2Z.inj_mod, !N2Z.inj_div, Z2N.id by lia. reflexivity.
Qed.

Lemma land63 : forall x, 0 <= x -> Z.land x 63 = x mod 64.
Proof. intros x H. change 63 with (Z.ones 6). rewrite Z.land_ones by lia. reflexivity. Qed.
Lemma land255 : forall x, 0 <= x -> Z.land x 255 = x mod 256.
Proof. intros x H. change 255 with (Z.ones 8). rewrite Z.land_ones by lia. reflexivity. Qed.

Theorem codepoint_to_utf8_translated : forall cp b0 b1 b2 b3 rest, 0 <= cp <= 1114111 ->
  codepoint_to_utf8 cp (b0 :: b1 :: b2 :: b3 :: rest) =
    Some (Z.of_nat (length (enc_Z cp)), enc_Z cp ++ skipn (length (enc_Z cp)) (b0 :: b1 :: b2 :: b3 :: rest)).
Proof.
  intros cp b0 b1 b2 b3 rest H. unfold codepoint_to_utf8, enc_Z.
  destruct (Z.leb_spec cp 127); destruct (Z.ltb_spec cp 128); try lia.
  { unfold upd. change (Z.to_nat 0) with 0%nat. cbn [length skipn app upd_nat]. rewrite Z.mod_small by lia. reflexivity. }
  destruct (Z.leb_spec cp 2047); destruct (Z.ltb_spec cp 2048); try lia.
  { rewrite (chk_u_some 32 (cp / 64 + 192)) by lia. cbn [bind].
    rewrite land63 by lia. rewrite (chk_u_some 32 (cp mod 64 + 128)) by lia. cbn [bind].
    rewrite land255 by lia.
    unfold upd. change (Z.to_nat 0) with 0%nat. change (Z.to_nat 1) with 1%nat. change (Z.to_nat 2) with 2%nat. change (Z.to_nat 3) with 3%nat.
    cbn [upd_nat length skipn app].
    rewrite !Z.mod_mod by lia. rewrite !(Z.mod_small (_ + _) 256) by lia.
    repeat (f_equal; try lia). }
  destruct (Z.leb_spec cp 65535); destruct (Z.ltb_spec cp 65536); try lia.
  { rewrite (chk_u_some 32 (cp / 4096 + 224)) by lia. cbn [bind].
    rewrite !land63 by lia. rewrite (chk_u_some 32 ((cp / 64) mod 64 + 128)) by lia. cbn [bind].
    rewrite (chk_u_some 32 (cp mod 64 + 128)) by lia. cbn [bind].
    rewrite land255 by lia.
    unfold upd. change (Z.to_nat 0) with 0%nat. change (Z.to_nat 1) with 1%nat. change (Z.to_nat 2) with 2%nat. change (Z.to_nat 3) with 3%nat.
    cbn [upd_nat length skipn app].
    rewrite !Z.mod_mod by lia. rewrite !(Z.mod_small (_ + _) 256) by lia.
    repeat (f_equal; try lia). }
  destruct (Z.leb_spec cp 1114111); try lia.
  rewrite (chk_u_some 32 (cp / 262144 + 240)) by lia. cbn [bind].
  rewrite !land63 by lia. rewrite (chk_u_some 32 ((cp / 4096) mod 64 + 128)) by lia. cbn [bind].
  rewrite (chk_u_some 32 ((cp / 64) mod 64 + 128)) by lia. cbn [bind].
  rewrite (chk_u_some 32 (cp mod 64 + 128)) by lia. cbn [bind].
  unfold upd. change (Z.to_nat 0) with 0%nat. change (Z.to_nat 1) with 1%nat. change (Z.to_nat 2) with 2%nat. change (Z.to_nat 3) with 3%nat.
    cbn [upd_nat length skipn app].
  rewrite !(Z.mod_small (_ + _) 256) by lia.
  repeat (f_equal; try lia).
Qed.

Theorem codepoint_to_utf8_rejects : forall cp buf, 1114111 < cp -> codepoint_to_utf8 cp buf = Some (0, buf).
Proof.
  intros cp buf H. unfold codepoint_to_utf8.
  destruct (Z.leb_spec cp 127); [lia|]. destruct (Z.leb_spec cp 2047); [lia|].
  destruct (Z.leb_spec cp 65535); [lia|]. destruct (Z.leb_spec cp 1114111); [lia|]. reflexivity.
Qed.
