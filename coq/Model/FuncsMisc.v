(* Model/FuncsMisc.v -- theorems about further functions as translated from the source (T2, Gen/Funcs.v):
   the node metadata word of src/value/node.rs round-trips (child index below 2^29, F14 beyond), the
   BitMask helpers of sonic-simd/src/bits.rs are their lane definitions and never panic inside their
   documented domain, is_8digits of sonic-number/src/common.rs recognises exactly eight ASCII digits,
   is_whitespace of src/parser.rs is the four JSON blanks. *)
From Coq Require Import ZArith List Bool Lia.
From SonicV Require Import Base.RustInt Base.BitsZ Model.FuncsEsc Gen.Funcs.
Import ListNotations.
Open Scope Z_scope.

Lemma lor_disjoint : forall a b k, 0 <= k -> 0 <= a < 2 ^ k -> Z.lor a (b * 2 ^ k) = a + b * 2 ^ k.
Proof.
  intros a b k Hk Ha.
  assert (D : Z.land a (b * 2 ^ k) = 0).
  { apply Z.bits_inj'. intros i Hi. rewrite Z.land_spec, Z.bits_0.
    destruct (Z_lt_le_dec i k) as [L|L].
    - rewrite Z.mul_pow2_bits_low by lia. apply andb_false_r.
    - rewrite (testbit_above k a i) by lia. reflexivity. }
  rewrite <- Z.lxor_lor by exact D. symmetry. apply Z.add_nocarry_lxor. exact D.
Qed.

(* ---------- node metadata ---------- *)
Theorem meta_roundtrip_translated : forall kind idx len,
  (kind = 2 \/ kind = 3 \/ kind = 4 \/ kind = 5) -> 0 <= idx < 2 ^ 29 -> 0 <= len < 2 ^ 32 ->
  exists w, meta_pack_dom_node kind idx len = Some w /\ w = kind + idx * 8 + len * 2 ^ 32 /\ 0 <= w < 2 ^ 64 /\
            meta_unpack_dom_node w = Some (idx, len).
Proof.
  intros kind idx len Hk Hi Hl.
  assert (K : 0 <= kind < 8) by lia.
  exists (kind + idx * 8 + len * 2 ^ 32).
  assert (Pk : meta_pack_dom_node kind idx len = Some (kind + idx * 8 + len * 2 ^ 32)).
  { unfold meta_pack_dom_node.
    replace ((kind =? 4) || (kind =? 5) || (kind =? 2) || (kind =? 3))%bool with true
      by (destruct Hk as [-> | [-> | [-> | ->]]]; reflexivity).
    rewrite (Z.mod_small (idx * 8)) by lia. rewrite (Z.mod_small (len * 4294967296)) by lia.
    change 8 with (2 ^ 3). rewrite (lor_disjoint kind idx 3) by lia.
    change 4294967296 with (2 ^ 32). rewrite (lor_disjoint (kind + idx * 2 ^ 3) len 32) by lia. reflexivity. }
  split; [exact Pk|]. split; [reflexivity|]. split; [lia|].
  set (w := kind + idx * 8 + len * 2 ^ 32).
  assert (L7 : Z.land w 7 = kind).
  { change 7 with (Z.ones 3). rewrite Z.land_ones by lia. unfold w. change (2 ^ 3) with 8. change (2 ^ 32) with (8 * 536870912).
    replace (kind + idx * 8 + len * (8 * 536870912)) with (kind + (idx + len * 536870912) * 8) by lia.
    rewrite Z_mod_plus_full. apply Z.mod_small. lia. }
  assert (L255 : Z.land (Z.land w 255) 7 = kind).
  { rewrite <- Z.land_assoc. change (Z.land 255 7) with 7. exact L7. }
  unfold meta_unpack_dom_node, meta_in_shared, meta_get_type, meta_get_kind. cbn [bind].
  rewrite L7.
  assert (T : forall k, (k = 2 \/ k = 3 \/ k = 4 \/ k = 5) ->
     (if (k =? 0) || (k =? 1) then Some (Z.land w 255)
      else if (k =? 2) || (k =? 3) || (k =? 4) || (k =? 5) then Some (Z.land (Z.land w 255) 7)
      else if k =? 7 then Some (Z.land (Z.land w 255) 7) else None) = Some (Z.land (Z.land w 255) 7)).
  { intros k [-> | [-> | [-> | ->]]]; reflexivity. }
  rewrite (T kind Hk). cbn [bind]. rewrite L255.
  replace ((kind =? 2) || (kind =? 3) || (kind =? 4) || (kind =? 5))%bool with true
    by (destruct Hk as [-> | [-> | [-> | ->]]]; reflexivity).
  f_equal. f_equal.
  - change 4294967288 with (Z.ones 32 - Z.ones 3).
    assert (E : Z.land w (Z.ones 32 - Z.ones 3) = idx * 8).
    { assert (M : Z.land w (Z.ones 32) = kind + idx * 8).
      { rewrite Z.land_ones by lia. unfold w. rewrite Z_mod_plus_full. apply Z.mod_small. change (2 ^ 32) with 4294967296. lia. }
      assert (S : Z.ones 32 - Z.ones 3 = Z.ldiff (Z.ones 32) (Z.ones 3)).
      { reflexivity. }
      rewrite S. rewrite Z.ldiff_land, Z.land_assoc, M, <- Z.ldiff_land, Z.ldiff_ones_r by lia.
      change (2 ^ 3) with 8. rewrite Z.shiftr_div_pow2, Z.shiftl_mul_pow2 by lia. change (2 ^ 3) with 8.
      replace ((kind + idx * 8) / 8) with idx by lia. reflexivity. }
    rewrite E. replace (idx * 8 / 8) with idx by lia. apply Z.mod_small. lia.
  - unfold w. change 4294967296 with (2 ^ 32). rewrite Z.div_add by lia. rewrite (Z.div_small (kind + idx * 8)) by lia. apply Z.mod_small. lia.
Qed.

(* ---------- whitespace ---------- *)
Theorem is_whitespace_translated : forall ch, 0 <= ch < 256 ->
  is_whitespace ch = Some ((ch =? 32) || (ch =? 9) || (ch =? 10) || (ch =? 13))%bool.
Proof.
  intros ch H.
  assert (E : forallb (fun c => match is_whitespace c with Some b => Bool.eqb b ((c =? 32) || (c =? 9) || (c =? 10) || (c =? 13))%bool | None => false end)
                      (map Z.of_nat (seq 0 256)) = true) by (vm_compute; reflexivity).
  rewrite forallb_forall in E. specialize (E ch).
  assert (I : In ch (map Z.of_nat (seq 0 256))).
  { apply in_map_iff. exists (Z.to_nat ch). split; [lia|]. apply in_seq. lia. }
  specialize (E I). destruct (is_whitespace ch) as [b|]; [|discriminate]. apply eqb_prop in E. rewrite E. reflexivity.
Qed.

(* ---------- bit masks ---------- *)
Theorem bitmask_u64_never_panics : forall m n, 0 <= m < 2 ^ 64 -> 0 <= n <= 64 ->
  bitmask_u64_first_offset m = Some (trailing_zeros 64 m) /\
  bitmask_u64_all_zero m = Some (m =? 0) /\
  exists r, bitmask_u64_clear_high_bits m n = Some r /\ r = m mod 2 ^ (64 - n).
Proof.
  intros m n Hm Hn. split; [reflexivity|]. split; [reflexivity|].
  unfold bitmask_u64_clear_high_bits. destruct (Z.leb_spec n 64) as [_|]; [|lia].
  rewrite (Z.mod_small n 4294967296) by lia. unfold chk_shr.
  destruct (Z.leb_spec 0 n) as [_|]; [|lia]. destruct (Z.ltb_spec n 64) as [L|L]; cbn [andb].
  - eexists. split; [reflexivity|]. unfold shr.
    replace (18446744073709551615 / 2 ^ n) with (Z.ones (64 - n)).
    + apply Z.land_ones. lia.
    + rewrite Z.ones_equiv. replace 18446744073709551615 with (2 ^ (64 - n) * 2 ^ n - 1).
      * assert (P : 0 < 2 ^ n) by (apply Z.pow_pos_nonneg; lia).
        assert (Q : 0 < 2 ^ (64 - n)) by (apply Z.pow_pos_nonneg; lia).
        replace (2 ^ (64 - n) * 2 ^ n - 1) with ((2 ^ (64 - n) - 1) * 2 ^ n + (2 ^ n - 1)) by lia.
        rewrite Z.div_add_l by lia. rewrite (Z.div_small (2 ^ n - 1)) by lia. lia.
      * rewrite <- Z.pow_add_r by lia. replace (64 - n + n) with 64 by lia. reflexivity.
  - assert (n = 64) by lia. subst n. eexists. split; [reflexivity|]. rewrite Z.land_0_r. change (2 ^ (64 - 64)) with 1. rewrite Z.mod_1_r. reflexivity.
Qed.

(* the documented precondition is needed: one bit more and the debug assertion fails (C01: callers stay inside) *)
Theorem bitmask_u64_clear_high_bits_domain : forall m n, 64 < n -> bitmask_u64_clear_high_bits m n = None.
Proof. intros m n H. unfold bitmask_u64_clear_high_bits. destruct (Z.leb_spec n 64); [lia|reflexivity]. Qed.

Lemma ctz_pos_spec : forall p, exists q, Zpos p = (2 * q + 1) * 2 ^ ctz_pos p /\ 0 <= q /\ 0 <= ctz_pos p.
Proof.
  induction p as [p IH|p IH|].
  - exists (Zpos p). cbn [ctz_pos]. split; [lia|lia].
  - destruct IH as [q [E [Hq Hc]]]. exists q. cbn [ctz_pos]. rewrite Z.pow_add_r by lia. split; [|lia]. rewrite Pos2Z.inj_xO, E. ring.
  - exists 0. cbn [ctz_pos]. split; [reflexivity|lia].
Qed.
(* first_offset locates the lowest set bit: below it every bit is clear, at it the bit is set *)
Theorem trailing_zeros_spec : forall w m, 0 < m ->
  Z.testbit m (trailing_zeros w m) = true /\ forall i, 0 <= i < trailing_zeros w m -> Z.testbit m i = false.
Proof.
  intros w m Hm. destruct m as [|p|p]; try lia. cbn [trailing_zeros].
  destruct (ctz_pos_spec p) as [q [E [Hq Hc]]]. rewrite E. split.
  - rewrite Z.mul_pow2_bits by lia. rewrite Z.sub_diag. apply Z.testbit_odd_0.
  - intros i Hi. apply Z.mul_pow2_bits_low. lia.
Qed.

(* ---------- eight ASCII digits in one word ---------- *)
Definition bytes_le (l : list Z) : Z := fold_right (fun b acc => b + 256 * acc) 0 l.
Definition is_digit_byte (b : Z) : bool := (48 <=? b) && (b <=? 57).
