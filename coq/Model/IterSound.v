(* Model/IterSound.v -- the reference iterators of Spec/Ref.v (what the lazy iterators are compared
   with): every item they yield is a well-formed value located exactly at its span inside the
   input; the transcript is items, then exactly one terminal (error or end). *)
From Coq Require Import List NArith Arith Lia Bool.
From SonicV Require Import Spec.Ref Model.Skip Model.SkipAll Model.RefSound.
Import ListNotations.
Open Scope N_scope.

Definition located (orig : list N) (a b : nat) : Prop :=
  exists pre tok post, orig = pre ++ tok ++ post /\ a = length pre /\ b = (a + length tok)%nat /\ Value tok.

Definition is_item (i : item) : bool := match i with IOk _ _ _ => true | _ => false end.

(* shape: zero or more items followed by exactly one terminal *)
Fixpoint shape (l : list item) : bool :=
  match l with
  | [] => false
  | [t] => negb (is_item t)
  | i :: r => is_item i && shape r
  end.

Lemma arr_items_sound : forall fuel first pos l orig pre0, orig = pre0 ++ l -> pos = length pre0 ->
  shape (arr_items fuel first pos l) = true /\
  forall k a b, In (IOk k a b) (arr_items fuel first pos l) -> located orig a b.
Proof.
  induction fuel as [|f IH]; intros first pos l orig pre0 Eo Ep; [split; [reflexivity|intros k a b [H|[]]; discriminate]|].
  cbn [arr_items]. rewrite ws_same. destruct (ws_split_len l) as (A & _ & L).
  destruct (Skip.ws l) as [|c r] eqn:Ew; [split; [reflexivity|intros k a b [H|[]]; discriminate]|].
  destruct (c =? 93); [split; [reflexivity|intros k a b [H|[]]; discriminate]|].
  (* the element starts at (p2, l2) *)
  set (p1 := (pos + (length l - length (c :: r)))%nat).
  assert (Step : forall p2 l2 pre2, orig = pre2 ++ l2 -> p2 = length pre2 ->
            shape (match pvalue false (fuel_for l2) p2 l2 with
                   | Some (_, a, b, rest) => IOk [] a b :: arr_items f false b rest
                   | None => [IErr] end) = true /\
            forall k a b, In (IOk k a b) (match pvalue false (fuel_for l2) p2 l2 with
                   | Some (_, a, b, rest) => IOk [] a b :: arr_items f false b rest
                   | None => [IErr] end) -> located orig a b).
  { intros p2 l2 pre2 E2 P2.
    destruct (pvalue false (fuel_for l2) p2 l2) as [[[[v a] b] rest]|] eqn:PV; [|split; [reflexivity|intros k a b [H|[]]; discriminate]].
    destruct (proj1 (pvalue_sound false _) _ _ _ _ _ _ PV) as (w & tok & E & _ & Hv & Ea & Eb).
    assert (Loc : located orig a b).
    { exists (pre2 ++ w), tok, rest. repeat split; try assumption.
      - rewrite E2, E. rewrite <- app_assoc. reflexivity.
      - rewrite Ea, P2, app_length. reflexivity. }
    destruct (IH false b rest orig (pre2 ++ w ++ tok)) as [Sh In'].
    { rewrite E2, E. repeat rewrite <- app_assoc. reflexivity. }
    { rewrite Eb, Ea, P2. rewrite !app_length. lia. }
    split.
    - cbn [shape is_item andb]. destruct (arr_items f false b rest) as [|x xs] eqn:AI; [discriminate|exact Sh].
    - intros k a' b' [H|H]; [injection H as _ <- <-; exact Loc|exact (In' _ _ _ H)]. }
  destruct first.
  - (* first element: at the non-space byte *)
    apply (Step p1 (c :: r) (pre0 ++ take_ws l)).
    + rewrite Eo. rewrite A at 1. rewrite <- app_assoc. reflexivity.
    + unfold p1. rewrite app_length, Ep, L. reflexivity.
  - destruct (N.eqb_spec c 44) as [->|Nc]; [|split; [reflexivity|intros k a b [H|[]]; discriminate]].
    apply (Step (S p1) r (pre0 ++ take_ws l ++ [44])).
    + rewrite Eo. rewrite A at 1. repeat rewrite <- app_assoc. reflexivity.
    + unfold p1. rewrite !app_length, Ep, L. cbn [length]. lia.
Qed.

Theorem array_iterator_items_located : forall l k a b, In (IOk k a b) (ref_array_iter l) -> located l a b.
Proof.
  intros l k a b H. unfold ref_array_iter in H. destruct (utf8_valid l); [|destruct H as [H|[]]; discriminate].
  rewrite ws_same in H. destruct (ws_split_len l) as (A & _ & L). destruct (Skip.ws l) as [|c r] eqn:Ew; [destruct H as [H|[]]; discriminate|].
  destruct (N.eqb_spec c 91) as [->|Nc]; [|exfalso; destruct c as [|p]; [destruct H as [H|[]]; discriminate|]; repeat (destruct p as [p|p|]; try (destruct H as [H|[]]; discriminate)); contradiction].
  refine (proj2 (arr_items_sound _ true _ r l (take_ws l ++ [91]) _ _) k a b H).
  - rewrite A at 1. rewrite <- app_assoc. reflexivity.
  - rewrite app_length, L. cbn [length]. lia.
Qed.

Theorem array_iterator_shape : forall l, shape (ref_array_iter l) = true.
Proof.
  intros l. unfold ref_array_iter. destruct (utf8_valid l); [|reflexivity].
  rewrite ws_same. destruct (ws_split_len l) as (A & _ & L). destruct (Skip.ws l) as [|c r] eqn:Ew; [reflexivity|].
  destruct (N.eqb_spec c 91) as [->|Nc]; [|destruct c as [|p]; [reflexivity|]; repeat (destruct p as [p|p|]; try reflexivity); contradiction].
  refine (proj1 (arr_items_sound _ true _ r l (take_ws l ++ [91]) _ _)).
  - rewrite A at 1. rewrite <- app_assoc. reflexivity.
  - rewrite app_length, L. cbn [length]. lia.
Qed.
