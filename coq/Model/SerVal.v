(* Model/SerVal.v -- the serde data model as the serializer sees it, and the JSON tree a value
   must be written as (serde/ser.rs: Serializer, MapKeySerializer). Floats are kept as bit
   patterns: what digits ryu prints is outside the repository, so a printed number is accepted
   when it denotes exactly the value written (Spec/Num.v). *)
From Coq Require Import List NArith ZArith Bool.
From SonicV Require Import Spec.Ref Spec.Num.
Import ListNotations.
Open Scope Z_scope.

Inductive sval :=
| VBool (b : bool)
| VInt (z : Z)                       (* every integer width *)
| VF64 (bits : Z) | VF32 (bits : Z)
| VStr (s : list N)                  (* str, String, char *)
| VNull                              (* unit, unit struct, None *)
| VSeq (l : list sval)               (* seq, tuple, tuple struct, byte buffer *)
| VMap (l : list (sval * sval))
| VStruct (l : list (list N * sval))
| VVariant (name : list N) (payload : option sval).   (* unit variant / newtype, tuple, struct variant *)

Inductive etree :=
| ENull | EBool (b : bool) | EInt (z : Z) | EF64 (bits : Z) | EF32 (bits : Z) | EStr (s : list N)
| EArr (l : list etree) | EObj (l : list (list N * etree)).

Definition f64_finite (bits : Z) : bool := negb ((bits / 2 ^ 52) mod 2 ^ 11 =? 2047).
Definition f32_finite (bits : Z) : bool := negb ((bits / 2 ^ 23) mod 2 ^ 8 =? 255).

(* decimal digits of an integer *)
Fixpoint dec_digits (fuel : nat) (n : Z) (acc : list N) : list N :=
  match fuel with O => acc | S f =>
    let acc' := Z.to_N (48 + n mod 10) :: acc in
    if n / 10 =? 0 then acc' else dec_digits f (n / 10) acc'
  end.
Definition z_to_dec (z : Z) : list N :=
  let a := Z.abs z in
  let d := dec_digits (S (Z.to_nat (Z.log2 a))) a [] in
  if z <? 0 then 45%N :: d else d.

(* a map key must be a string, a char, a bool, an integer or a unit variant *)
Definition key_of (k : sval) : option (list N) :=
  match k with
  | VStr s => Some s
  | VBool true => Some [116; 114; 117; 101]%N
  | VBool false => Some [102; 97; 108; 115; 101]%N
  | VInt z => Some (z_to_dec z)
  | VVariant name None => Some name
  | _ => None
  end.

Fixpoint opt_all {A} (l : list (option A)) : option (list A) :=
  match l with
  | [] => Some []
  | Some x :: r => match opt_all r with Some xs => Some (x :: xs) | None => None end
  | None :: _ => None
  end.

Fixpoint expect (fuel : nat) (v : sval) : option etree :=
  match fuel with O => None | S f =>
  match v with
  | VBool b => Some (EBool b)
  | VInt z => Some (EInt z)
  | VF64 b => Some (if f64_finite b then EF64 b else ENull)
  | VF32 b => Some (if f32_finite b then EF32 b else ENull)
  | VStr s => Some (EStr s)
  | VNull => Some ENull
  | VSeq l => option_map EArr (opt_all (map (expect f) l))
  | VMap l =>
      option_map EObj (opt_all (map (fun kv =>
        match key_of (fst kv), expect f (snd kv) with
        | Some k, Some t => Some (k, t)
        | _, _ => None end) l))
  | VStruct l =>
      option_map EObj (opt_all (map (fun kv => match expect f (snd kv) with Some t => Some (fst kv, t) | None => None end) l))
  | VVariant name None => Some (EStr name)
  | VVariant name (Some p) => match expect f p with Some t => Some (EObj [(name, t)]) | None => None end
  end end.

(* does a parsed JSON tree denote the expected tree? *)
Fixpoint matches (fuel : nat) (e : etree) (j : Ref.jv) : bool :=
  match fuel with O => false | S f =>
  match e, j with
  | ENull, JNull => true
  | EBool b, JBool b' => Bool.eqb b b'
  | EInt z, JNum lit => let d := parse_lit lit in plain_int d && ((if neg d then - mant d else mant d) =? z)
  | EF64 bits, JNum lit => match round_f64 (parse_lit lit) with Bits b => b =? bits | Infinite => false end
  | EF32 bits, JNum lit =>
      match round_f64 (parse_lit lit) with
      | Bits b => match narrow_f32 b with Some x => x =? bits | None => false end
      | Infinite => false end
  | EStr s, JStr d _ => bytes_eqb s d
  | EArr l, JArr xs =>
      (fix go (a : list etree) (b : list (nat * nat * jv)) : bool :=
         match a, b with
         | [], [] => true
         | x :: a', (_, _, y) :: b' => matches f x y && go a' b'
         | _, _ => false end) l xs
  | EObj l, JObj ms =>
      (fix go (a : list (list N * etree)) (b : list (list N * nat * nat * jv)) : bool :=
         match a, b with
         | [], [] => true
         | (k, x) :: a', (k', _, _, y) :: b' => bytes_eqb k k' && matches f x y && go a' b'
         | _, _ => false end) l ms
  | _, _ => false
  end end.
