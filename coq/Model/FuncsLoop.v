(* Model/FuncsLoop.v -- loops over bytes as translated from the source (T2): Position::from_index of
   src/reader.rs is the line / column model of Model/Err.v (hence, by from_index_is_pos_of, the line and
   column of the offset), and the portable get_nonspace_bits of src/util/arch/fallback.rs is the lane-wise
   classifier of Model/Simd.v, on every 64-byte block. Neither panics. *)
From Coq Require Import ZArith NArith List Bool Lia.
From SonicV Require Import Base.RustInt Gen.Funcs Model.Err Model.Simd Model.FuncsMisc.
Import ListNotations.
Open Scope Z_scope.

(* ---------- Position::from_index ---------- *)
Definition step_pos (st : Z * Z) (ch : Z) : option (Z * Z) :=
  let position := st in
  if ch =? 10 then t3 <- chk_u 64 (fst position + 1);; (let position := (t3, snd position) in let position0 := (fst position, 0) in Some position0)
  else t2 <- chk_u 64 (snd position + 1);; (let position := (fst position, t2) in Some position).

Lemma from_index_unfold : forall i data,
  position_from_index i data =
    (s1 <- slice data 0 (Z.min i (Z.of_nat (length data)));; position <- foldM step_pos s1 (1, 0);; Some position).
Proof. intros. reflexivity. Qed.

Lemma loop_is_model : forall (l : list Z) (line col : nat),
  Z.of_nat line + Z.of_nat (length l) < 2 ^ 64 -> Z.of_nat col + Z.of_nat (length l) < 2 ^ 64 ->
  foldM step_pos l (Z.of_nat line, Z.of_nat col) =
    Some (Z.of_nat (fst (from_index_loop (map Z.to_N l) line col)), Z.of_nat (snd (from_index_loop (map Z.to_N l) line col))).
Proof.
  induction l as [|c r IH]; intros line col HL HC; [reflexivity|].
  cbn [foldM map from_index_loop length] in *. unfold step_pos at 1. cbn [fst snd].
  assert (E : (c =? 10) = N.eqb (Z.to_N c) nl).
  { unfold nl. destruct (Z.eqb_spec c 10) as [->|N]; [reflexivity|]. symmetry. apply N.eqb_neq. intros X. destruct c; cbn in X; try discriminate; lia. }
  rewrite <- E. destruct (c =? 10).
  - rewrite chk_u_some by lia. cbn [bind fst snd]. replace (Z.of_nat line + 1) with (Z.of_nat (S line)) by lia.
    change 0 with (Z.of_nat 0). apply IH; lia.
  - rewrite chk_u_some by lia. cbn [bind fst snd]. replace (Z.of_nat col + 1) with (Z.of_nat (S col)) by lia.
    apply IH; lia.
Qed.

Theorem position_from_index_is_model : forall i data, 0 <= i -> Z.of_nat (length data) < 2 ^ 63 ->
  let p := Err.from_index (Z.to_nat i) (map Z.to_N data) in
  position_from_index i data = Some (Z.of_nat (fst p), Z.of_nat (snd p)).
Proof.
  intros i data Hi HL. cbv zeta. rewrite from_index_unfold. unfold slice.
  set (k := Z.min i (Z.of_nat (length data))).
  assert (Hk : 0 <= k <= Z.of_nat (length data)) by (unfold k; lia).
  destruct (Z.leb_spec 0 0); [|lia]. destruct (Z.leb_spec 0 k); [|lia]. destruct (Z.leb_spec k (Z.of_nat (length data))); [|lia].
  cbn [andb bind]. rewrite Z.sub_0_r. change (Z.to_nat 0) with 0%nat. cbn [skipn].
  assert (Lp : (length (firstn (Z.to_nat k) data) <= length data)%nat) by (rewrite firstn_length; lia).
  change (1, 0) with (Z.of_nat 1, Z.of_nat 0). rewrite loop_is_model by (change (2 ^ 64) with 18446744073709551616; change (2 ^ 63) with 9223372036854775808 in HL; lia).
  cbn [bind]. unfold Err.from_index. rewrite map_length.
  assert (Ek : Z.to_nat k = Nat.min (Z.to_nat i) (length data)) by (unfold k; lia).
  rewrite Ek, firstn_map. reflexivity.
Qed.

(* ---------- portable whitespace classifier ---------- *)
Definition step_ns : Z * Z -> Z -> option Z :=
  fun '(i, st_) p => let mask := st_ in
  if negb ((p =? 9) || (p =? 10) || (p =? 13) || (p =? 32)) then t1 <- chk_shl_u 64 1 i;; (let mask0 := Z.lor mask t1 in Some mask0) else Some mask.

Lemma nonspace_unfold : forall data, get_nonspace_bits_fallback data = (mask <- foldM_enum step_ns data 0;; Some mask).
Proof. intros. reflexivity. Qed.

Definition nsbit (c : Z) : bool := negb ((c =? 9) || (c =? 10) || (c =? 13) || (c =? 32)).
Fixpoint bitsval (l : list bool) : Z := match l with [] => 0 | b :: t => b2z b + 2 * bitsval t end.

Lemma bitsval_range : forall l, 0 <= bitsval l < 2 ^ Z.of_nat (length l).
Proof.
  induction l as [|b t IH]; cbn [bitsval length]; [cbn; lia|].
  rewrite Nat2Z.inj_succ, Z.pow_succ_r by lia. destruct b; cbn [b2z]; lia.
Qed.

Lemma ns_loop : forall (l : list Z) (i m : Z), 0 <= i -> i + Z.of_nat (length l) <= 64 -> 0 <= m < 2 ^ i ->
  foldM_enum_from step_ns i l m = Some (m + 2 ^ i * bitsval (map nsbit l)).
Proof.
  induction l as [|c r IH]; intros i m Hi HL Hm; cbn [foldM_enum_from map bitsval length] in *; [f_equal; lia|].
  unfold step_ns at 1. cbv beta iota. fold (nsbit c).
  assert (P : 0 < 2 ^ i) by (apply Z.pow_pos_nonneg; lia).
  assert (S2 : 2 ^ (i + 1) = 2 * 2 ^ i) by (rewrite Z.pow_add_r by lia; lia).
  destruct (nsbit c); cbn [b2z].
  - rewrite chk_shl_u_some by lia. cbn [bind]. unfold shl_u. rewrite Z.mul_1_l.
    rewrite (Z.mod_small (2 ^ i)) by (split; [lia|]; apply Z.pow_lt_mono_r; lia).
    replace (2 ^ i) with (1 * 2 ^ i) at 1 by lia. rewrite lor_disjoint by lia.
    rewrite IH by lia. f_equal. rewrite S2. lia.
  - rewrite IH by lia. f_equal. rewrite S2. lia.
Qed.

Lemma bitsval_is_bits_to_N : forall (l : list bool), bitsval l = Z.of_N (bits_to_N l).
Proof.
  induction l as [|b t IH]; cbn [bitsval bits_to_N]; [reflexivity|]. rewrite IH. destruct b; cbn [b2z]; lia.
Qed.

Theorem get_nonspace_bits_fallback_is_model : forall data, (length data <= 64)%nat ->
  get_nonspace_bits_fallback data = Some (Z.of_N (nonspace_bits (map Z.to_N data))).
Proof.
  intros data HL. rewrite nonspace_unfold. unfold foldM_enum. rewrite ns_loop by (cbn; lia). cbn [bind]. f_equal.
  change (2 ^ 0) with 1. rewrite Z.add_0_l, Z.mul_1_l, bitsval_is_bits_to_N. f_equal. unfold nonspace_bits. f_equal.
  rewrite map_map. apply map_ext. intros c. unfold nsbit, is_space. f_equal.
  assert (E : forall k, 0 < k -> (c =? k) = (Z.to_N c =? Z.to_N k)%N).
  { intros k Hk. destruct (Z.eqb_spec c k) as [->|N]; [symmetry; apply N.eqb_refl|]. symmetry. apply N.eqb_neq. intros X.
    destruct c; destruct k; cbn in X; try discriminate; try lia; try (injection X as X; lia). }
  rewrite (E 9), (E 10), (E 13), (E 32) by lia. cbn [Z.to_N].
  destruct (Z.to_N c =? 9)%N, (Z.to_N c =? 10)%N, (Z.to_N c =? 13)%N, (Z.to_N c =? 32)%N; reflexivity.
Qed.
