(* Model/Lossy.v -- the lossy decoding specification (Spec/Ref.v: utf8_lossy, str_body_lossy):
   its output is valid UTF-8 for EVERY input, it is the identity on valid UTF-8, and the lossy string
   decoder agrees with the strict one wherever the strict one accepts ("nothing else changes"). *)
From Coq Require Import List NArith ZArith Arith Lia Bool ZifyN ZifyBool ZifyNat.
From SonicV Require Import Spec.Ref Model.Utf8.
Import ListNotations.
Open Scope N_scope.
Ltac Zify.zify_post_hook ::= Z.div_mod_to_equations.
Local Arguments N.add : simpl never.
Local Arguments N.mul : simpl never.
Local Arguments N.sub : simpl never.

Lemma run_fffd : forall x, run S0 (fffd ++ x) = run S0 x.
Proof. intros x. reflexivity. Qed.

Ltac split1 := match goal with
  | |- context [?a <? ?b] => destruct (N.ltb_spec a b)
  | |- context [?a <=? ?b] => destruct (N.leb_spec a b)
  | |- context [?a =? ?b] => destruct (N.eqb_spec a b)
  | |- context [match ?x with [] => _ | _ :: _ => _ end] => is_var x; destruct x
  end; try (exfalso; lia).

(* whatever the input, the lossy conversion yields valid UTF-8 *)
Lemma lossy_runs : forall f l, run S0 (utf8_lossy_f f l) = Some S0.
Proof.
  induction f as [|f IH]; intros l; [reflexivity|]. destruct l as [|c r]; [reflexivity|].
  cbn [utf8_lossy_f].
  repeat (cbn [run step app andb orb negb]; unfold cont; rewrite ?run_fffd; split1);
  cbn [run step app andb orb negb]; rewrite ?run_fffd; try apply IH; try reflexivity.
Qed.

Theorem lossy_output_is_valid : forall l, utf8_valid (utf8_lossy l) = true.
Proof. intros l. rewrite utf8_valid_is_automaton. unfold utf8_lossy. rewrite lossy_runs. reflexivity. Qed.

(* on valid UTF-8 the lossy conversion changes nothing *)
Lemma lossy_id : forall f l, utf8_valid_f f l = true -> forall f', (length l < f')%nat -> utf8_lossy_f f' l = l.
Proof.
  induction f as [|f IH]; intros l V f' Hl; [discriminate|].
  destruct l as [|c r]; [destruct f'; reflexivity|].
  destruct f' as [|g]; [lia|]. cbn [length] in Hl. cbn [utf8_valid_f] in V. cbn [utf8_lossy_f].
  destruct (c <? 128). { f_equal. apply IH; [exact V|lia]. }
  destruct ((194 <=? c) && (c <=? 223)).
  { destruct r as [|c1 r1]; [discriminate|]. apply andb_true_iff in V. destruct V as [V1 V2]. rewrite V1. cbn [length] in Hl.
    f_equal. f_equal. apply IH; [exact V2|lia]. }
  destruct ((224 <=? c) && (c <=? 239)).
  { destruct r as [|c1 [|c2 r2]]; try discriminate. cbn [length] in Hl.
    apply andb_true_iff in V; destruct V as [V V5]. apply andb_true_iff in V; destruct V as [V V4].
    apply andb_true_iff in V; destruct V as [V V3]. apply andb_true_iff in V; destruct V as [V1 V2].
    rewrite V1, V2, V3, V4. cbn [andb]. f_equal. f_equal. f_equal. apply IH; [exact V5|lia]. }
  destruct ((240 <=? c) && (c <=? 244)); [|discriminate].
  destruct r as [|c1 [|c2 [|c3 r3]]]; try discriminate. cbn [length] in Hl.
  apply andb_true_iff in V; destruct V as [V V6]. apply andb_true_iff in V; destruct V as [V V5].
  apply andb_true_iff in V; destruct V as [V V4]. apply andb_true_iff in V; destruct V as [V V3]. apply andb_true_iff in V; destruct V as [V1 V2].
  rewrite V1, V2, V3, V4, V5. cbn [andb]. f_equal. f_equal. f_equal. f_equal. apply IH; [exact V6|lia].
Qed.

Theorem lossy_is_identity_on_valid : forall l, utf8_valid l = true -> utf8_lossy l = l.
Proof. intros l V. unfold utf8_lossy. apply (lossy_id _ _ V). lia. Qed.

(* wherever the strict string decoder accepts, the lossy one returns the same *)
Theorem lossy_agrees_with_strict : forall fuel l d h rest,
  Ref.str_body true fuel l = Some (d, h, rest) -> str_body_lossy fuel l = Some (d, h, rest).
Proof.
  induction fuel as [|f IH]; intros l d h rest H; [discriminate|].
  cbn [Ref.str_body] in H. cbn [str_body_lossy]. destruct l as [|c r]; [discriminate|].
  destruct (c =? 34); [exact H|].
  destruct (c =? 92).
  - destruct r as [|e r1]; [discriminate|].
    destruct (e =? 117).
    + destruct r1 as [|h1 [|h2 [|h3 [|h4 r2]]]]; try discriminate.
      destruct (hex4 h1 h2 h3 h4) as [cp|]; [|discriminate].
      destruct ((55296 <=? cp) && (cp <=? 56319)).
      * destruct r2 as [|q1 [|q2 [|g1 [|g2 [|g3 [|g4 r3]]]]]]; try discriminate.
        destruct (N.eqb_spec q1 92) as [-> | N1]; [|discriminate].
        destruct (N.eqb_spec q2 117) as [-> | N2]; [|discriminate]. cbn [andb] in H.
        destruct (hex4 g1 g2 g3 g4) as [lo|]; [|discriminate].
        destruct ((56320 <=? lo) && (lo <=? 57343)); [|discriminate].
        destruct (Ref.str_body true f r3) as [[[d' h'] rest']|] eqn:SB; [|discriminate].
        rewrite (IH _ _ _ _ SB). exact H.
      * destruct ((56320 <=? cp) && (cp <=? 57343)); [discriminate|].
        destruct (Ref.str_body true f r2) as [[[d' h'] rest']|] eqn:SB; [|discriminate].
        rewrite (IH _ _ _ _ SB). exact H.
    + destruct (Ref.simple_escape e) as [o|]; [|discriminate].
      destruct (Ref.str_body true f r1) as [[[d' h'] rest']|] eqn:SB; [|discriminate].
      rewrite (IH _ _ _ _ SB). exact H.
  - destruct (c <? 32); [discriminate|].
    destruct (Ref.str_body true f r) as [[[d' h'] rest']|] eqn:SB; [|discriminate].
    rewrite (IH _ _ _ _ SB). exact H.
Qed.

(* a whole literal: where the strict decoder gives a text, the lossy decoder gives the same text *)
Theorem lossy_literal_agrees_with_strict : forall lit d h,
  decode_literal false lit = Some (d, h) -> decode_literal true lit = Some (d, h).
Proof.
  intros lit d h H. unfold decode_literal in *. destruct lit as [|q body]; [discriminate|].
  destruct (N.eqb_spec q 34) as [-> | N1]; [|destruct q as [|p]; [discriminate|]; repeat (destruct p as [p|p|]; try discriminate); contradiction].
  destruct (utf8_valid (34 :: body)) eqn:V; [|discriminate].
  destruct (Ref.str_body true (S (length body)) body) as [[[d' h'] rest]|] eqn:SB; [|discriminate].
  destruct rest; [|discriminate]. injection H as <- <-.
  rewrite (lossy_agrees_with_strict _ _ _ _ _ SB).
  (* the decoded text is valid UTF-8, hence unchanged by the lossy conversion *)
  assert (Vb : utf8_valid body = true).
  { rewrite utf8_valid_is_automaton in V |- *. cbn [run] in V. rewrite (step_ascii_ok 34 ltac:(lia)) in V. exact V. }
  destruct (decoded_string_is_valid_utf8 _ _ _ _ _ Vb SB) as [Vd _].
  rewrite (lossy_is_identity_on_valid _ Vd). reflexivity.
Qed.
Print Assumptions lossy_literal_agrees_with_strict.
