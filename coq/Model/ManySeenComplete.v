(* Model/ManySeenComplete.v -- completeness of get_many as the code stands after the repair of F37, for EVERY document:
   for a pointer tree with distinct sibling keys whose every path resolves (single-path lookup, first occurrence),
   and a counter at least the number of slots, the search with the `seen` list succeeds, decreases the counter by
   exactly the number of slots, fills every slot and un-fills none - repeated member names included. With
   get_many_sound_every_document this is C11's first sentence without any restriction on the document. *)
From Coq Require Import List Arith Lia Bool Permutation.
From SonicV Require Import Model.Many Model.ManySeen.
From SonicV Require Model.ManyComplete Model.ManyBuild.
Import ListNotations.

Section CompleteSeen.
Variable key : Type.
Variable keq : forall a b : key, {a = b} + {a <> b}.
Notation trie := (Many.trie key).
Notation jv := (Many.jv key).
Notation Node := (Many.Node key).
Notation JObj := (Many.JObj key).
Notation slots := (Many.slots key).
Notation kslots := (Many.kslots key).
Notation rec2 := (ManySeen.rec2 key keq).
Notation loop2 := (ManySeen.loop2 key keq).
Notation mem := (ManySeen.mem key keq).
Notation assoc := (Many.assoc key keq).
Notation lookup := (Many.lookup key keq).
Notation outs := (Many.outs key).
Notation upd := (Many.upd key).
Notation need := (ManyComplete.need key).
Notation kneed := (ManyComplete.kneed key).
Notation keeps := (ManyComplete.keeps key).
Notation filled := (ManyComplete.filled key).
Notation resolves := (ManyComplete.resolves key keq).
Notation wf := (ManyComplete.wf key).

Lemma mem_cons : forall k k0 l, mem k (k0 :: l) = (if keq k0 k then true else false) || mem k l.
Proof. reflexivity. Qed.
Lemma mem_false_notin : forall k l, mem k l = false -> ~ In k l.
Proof. intros k l E Hin. apply (ManySeen.mem_in key keq) in Hin. congruence. Qed.
Lemma notin_mem_false : forall k l, ~ In k l -> mem k l = false.
Proof. intros k l N. destruct (mem k l) eqn:E; [|reflexivity]. apply (ManySeen.mem_in key keq) in E. contradiction. Qed.

(* ---------- more fuel never hurts ---------- *)
Lemma mono2 : forall fuel,
  (forall t v o r x, rec2 fuel t v o r = Some x -> rec2 (S fuel) t v o r = Some x) /\
  (forall kids ms seen o r x, loop2 fuel kids ms seen o r = Some x -> loop2 (S fuel) kids ms seen o r = Some x).
Proof.
  induction fuel as [|f [IHr IHl]]; [split; intros; discriminate|]. split.
  - intros t v o r x H. destruct t as [order kids]. rewrite (ManySeen.rec2_S key keq) in H. rewrite (ManySeen.rec2_S key keq).
    destruct (Nat.eqb r 0); [exact H|].
    destruct kids as [|kc kr]; [exact H|].
    destruct v as [id|ms]; [exact H|]. destruct ms as [|m mr]; [exact H|].
    destruct (loop2 f (kc :: kr) (m :: mr) [] o r) as [[o1 r1]|] eqn:E; [|discriminate]. rewrite (IHl _ _ _ _ _ _ E). exact H.
  - intros kids ms seen o r x H. rewrite (ManySeen.loop2_S key keq) in H. rewrite (ManySeen.loop2_S key keq).
    destruct ms as [|[k y] rest]; [exact H|].
    destruct (if mem k seen then None else assoc kids k) as [child|].
    + destruct (rec2 f child y o r) as [[o1 r1]|] eqn:E; [|discriminate]. rewrite (IHr _ _ _ _ _ E).
      destruct (Nat.eqb r1 0); [exact H|]. apply IHl. exact H.
    + apply IHl. exact H.
Qed.
Lemma rec2_mono : forall f g t v o r x, f <= g -> rec2 f t v o r = Some x -> rec2 g t v o r = Some x.
Proof. intros f g t v o r x Hle H. induction Hle as [|g Hle IH]; [exact H|]. apply (proj1 (mono2 g)). exact IH. Qed.
Lemma loop2_mono : forall f g kids ms seen o r x, f <= g -> loop2 f kids ms seen o r = Some x -> loop2 g kids ms seen o r = Some x.
Proof. intros f g kids ms seen o r x Hle H. induction Hle as [|g Hle IH]; [exact H|]. apply (proj2 (mono2 g)). exact IH. Qed.

(* ---------- what the members of an object still owe to the kids of a node: first occurrences only ---------- *)
Fixpoint owed2 (kids : list (key * trie)) (ms : list (key * jv)) (seen : list key) : nat :=
  match ms with
  | [] => 0
  | (k, _) :: r =>
      if mem k seen then owed2 kids r seen
      else match assoc kids k with
           | Some c => need c + owed2 kids r (k :: seen)
           | None => owed2 kids r seen
           end
  end.

Lemma owed2_nil : forall ms seen, owed2 [] ms seen = 0.
Proof. induction ms as [|[k x] r IH]; intros seen; [reflexivity|]. cbn [owed2 Many.assoc]. destruct (mem k seen); apply IH. Qed.

(* only the names of kids matter in `seen` *)
Lemma owed2_agree : forall kids ms s1 s2, (forall k, assoc kids k <> None -> mem k s1 = mem k s2) -> owed2 kids ms s1 = owed2 kids ms s2.
Proof.
  intros kids. induction ms as [|[k x] r IH]; intros s1 s2 A; [reflexivity|]. cbn [owed2].
  destruct (assoc kids k) as [c|] eqn:E.
  - rewrite <- (A k) by congruence. destruct (mem k s1); [apply IH; exact A|]. f_equal. apply IH.
    intros k' Hk'. rewrite !mem_cons. rewrite (A k' Hk'). reflexivity.
  - destruct (mem k s1), (mem k s2); apply IH; exact A.
Qed.

Lemma owed2_skip : forall kids k0 c0 ms seen, ~ In k0 (map fst ms) -> owed2 ((k0, c0) :: kids) ms seen = owed2 kids ms seen.
Proof.
  intros kids k0 c0. induction ms as [|[k x] r IH]; intros seen NI; [reflexivity|]. cbn [owed2 Many.assoc].
  assert (NI' : ~ In k0 (map fst r)) by (intros H; apply NI; right; exact H).
  destruct (keq k0 k) as [-> | NE]; [exfalso; apply NI; left; reflexivity|].
  destruct (mem k seen); [apply IH; exact NI'|]. destruct (assoc kids k); rewrite IH by exact NI'; reflexivity.
Qed.

(* a kid whose name is already in `seen` is never matched again *)
Lemma owed2_dead : forall kids k0 c0 ms seen, In k0 seen -> owed2 ((k0, c0) :: kids) ms seen = owed2 kids ms seen.
Proof.
  intros kids k0 c0. induction ms as [|[k x] r IH]; intros seen Hin; [reflexivity|]. cbn [owed2 Many.assoc].
  destruct (mem k seen) eqn:Em; [apply IH; exact Hin|].
  destruct (keq k0 k) as [-> | NE]; [exfalso; apply (mem_false_notin _ _ Em); exact Hin|].
  destruct (assoc kids k); [rewrite IH by (right; exact Hin); reflexivity|apply IH; exact Hin].
Qed.

Lemma owed2_kid : forall kids k0 c0 ms seen, In k0 (map fst ms) -> ~ In k0 seen -> assoc kids k0 = None ->
  owed2 ((k0, c0) :: kids) ms seen = need c0 + owed2 kids ms seen.
Proof.
  intros kids k0 c0. induction ms as [|[k x] r IH]; intros seen Hin Ns A; [destruct Hin|]. cbn [owed2 Many.assoc].
  destruct (mem k seen) eqn:Em.
  - (* k is not k0 *)
    destruct Hin as [E | Hin]; [cbn [fst] in E; subst k; exfalso; apply Ns; apply (ManySeen.mem_in key keq); exact Em|].
    apply IH; assumption.
  - destruct (keq k0 k) as [<- | NE].
    + rewrite A. f_equal. rewrite owed2_dead by (left; reflexivity).
      apply owed2_agree. intros k' Hk'. rewrite mem_cons. destruct (keq k0 k') as [<- | _]; [congruence|reflexivity].
    + destruct Hin as [E | Hin]; [cbn [fst] in E; congruence|].
      destruct (assoc kids k) as [c|].
      * rewrite IH; [lia|exact Hin| |exact A]. intros [E | H]; [congruence|contradiction].
      * apply IH; assumption.
Qed.

Lemma owed2_all : forall kids ms, NoDup (map fst kids) ->
  (forall k c, In (k, c) kids -> 0 < need c -> In k (map fst ms)) -> owed2 kids ms [] = kneed kids.
Proof.
  induction kids as [|[k0 c0] r IH]; intros ms NDk Hall.
  - rewrite owed2_nil. reflexivity.
  - inversion NDk as [|? ? Hk Hr]; subst. rewrite (ManyComplete.kneed_cons key).
    assert (A : assoc r k0 = None).
    { destruct (assoc r k0) as [c|] eqn:E; [|reflexivity]. exfalso. apply Hk. apply in_map_iff. exists (k0, c). split; [reflexivity|]. exact (Many.assoc_in key keq _ _ _ _ E). }
    assert (IHr : owed2 r ms [] = kneed r) by (apply IH; [exact Hr|intros k c Hin; apply Hall; right; exact Hin]).
    destruct (Nat.eq_dec (need c0) 0) as [Z | NZ].
    + destruct (in_dec keq k0 (map fst ms)) as [I | NI].
      * rewrite (owed2_kid r k0 c0 ms [] I (fun H => H) A). lia.
      * rewrite (owed2_skip _ _ _ _ _ NI). lia.
    + rewrite (owed2_kid r k0 c0 ms [] (Hall k0 c0 (or_introl eq_refl) ltac:(lia)) (fun H => H) A). lia.
Qed.

(* nothing owed: every member that would still be matched selects a node without slots *)
Lemma owed2_zero : forall kids ms seen, owed2 kids ms seen = 0 ->
  forall pre k x r c, ms = pre ++ (k, x) :: r -> ~ In k (map fst pre) -> mem k seen = false -> assoc kids k = Some c -> need c = 0.
Proof.
  intros kids. induction ms as [|[k1 x1] r1 IH]; intros seen Z pre k x r c E Np Em A; [destruct pre; discriminate|].
  cbn [owed2] in Z. destruct pre as [|[k2 x2] pre'].
  - cbn [app] in E. injection E as -> -> ->. rewrite Em, A in Z. lia.
  - cbn [app] in E. injection E as -> -> ->.
    assert (NE : k2 <> k) by (intros ->; apply Np; left; reflexivity).
    assert (Np' : ~ In k (map fst pre')) by (intros H; apply Np; right; exact H).
    destruct (mem k2 seen) eqn:E2; [exact (IH seen Z pre' k x r c eq_refl Np' Em A)|].
    destruct (assoc kids k2) as [c2|].
    + apply (IH (k2 :: seen) ltac:(lia) pre' k x r c eq_refl Np'); [|exact A].
      rewrite mem_cons, Em. destruct (keq k2 k); [contradiction|reflexivity].
    + exact (IH seen Z pre' k x r c eq_refl Np' Em A).
Qed.

(* a member is "live" in ms under seen: first occurrence of its name in ms, name not in seen, name of a kid *)
Definition live (kids : list (key * trie)) (ms : list (key * jv)) (seen : list key) (k : key) (x : jv) (c : trie) : Prop :=
  exists pre r, ms = pre ++ (k, x) :: r /\ ~ In k (map fst pre) /\ mem k seen = false /\ assoc kids k = Some c.

Lemma live_tail : forall kids k1 x1 r1 seen seen' k x c,
  live kids r1 seen' k x c ->
  ((if mem k1 seen then None else assoc kids k1) <> None -> seen' = k1 :: seen) ->
  ((if mem k1 seen then None else assoc kids k1) = None -> seen' = seen) ->
  live kids ((k1, x1) :: r1) seen k x c.
Proof.
  intros kids k1 x1 r1 seen seen' k x c (pre & r & E & Np & Em & A) Hm Hn.
  assert (NE : k1 <> k /\ mem k seen = false).
  { destruct (if mem k1 seen then None else assoc kids k1) as [c1|] eqn:E1.
    - rewrite (Hm ltac:(discriminate)) in Em. rewrite mem_cons in Em. apply orb_false_iff in Em. destruct Em as [E2 E3].
      split; [|exact E3]. destruct (keq k1 k); [discriminate|assumption].
    - rewrite (Hn eq_refl) in Em. split; [|exact Em]. intros ->. rewrite Em, A in E1. discriminate. }
  destruct NE as [NE Em'].
  exists ((k1, x1) :: pre), r. split; [cbn [app]; rewrite E; reflexivity|]. split; [|split; [exact Em'|exact A]].
  cbn [map fst]. intros [H | H]; [contradiction|apply Np; exact H].
Qed.

(* the loop over the members of an object, given completeness of the search below every kid *)
Lemma loop2_complete : forall kids,
  Forall (fun kc => forall v out remain, resolves (snd kc) v -> need (snd kc) <= remain ->
            exists fuel out', rec2 fuel (snd kc) v out remain = Some (out', remain - need (snd kc)) /\ keeps out out' /\ filled (slots (snd kc)) out') kids ->
  forall ms seen out remain,
  (forall k x c, live kids ms seen k x c -> resolves c x) ->
  owed2 kids ms seen <= remain ->
  exists fuel out', loop2 fuel kids ms seen out remain = Some (out', remain - owed2 kids ms seen) /\ keeps out out' /\
    (forall k x c, live kids ms seen k x c -> filled (slots c) out').
Proof.
  intros kids IHk. induction ms as [|[k x] r IH]; intros seen out remain Hres Hle.
  - exists 1, out. cbn [owed2]. rewrite Nat.sub_0_r. split; [reflexivity|]. split; [apply ManyComplete.keeps_refl|].
    intros k x c (pre & r & E & _). destruct pre; discriminate.
  - cbn [owed2] in Hle |- *.
    destruct (mem k seen) eqn:Em.
    + (* the name was matched before: stepped over *)
      assert (Hres' : forall k' x' c', live kids r seen k' x' c' -> resolves c' x').
      { intros k' x' c' L. apply (Hres k' x' c'). apply (live_tail kids k x r seen seen k' x' c' L); rewrite Em; [intros H; contradiction|reflexivity]. }
      destruct (IH seen out remain Hres' Hle) as (f2 & o2 & L2 & K2 & F2).
      exists (S f2), o2. rewrite (ManySeen.loop2_S key keq), Em. split; [exact L2|]. split; [exact K2|].
      intros k' x' c' (pre & r' & E & Np & Em' & A'). destruct pre as [|[k2 x2] pre'].
      * cbn [app] in E. injection E as <- <- <-. congruence.
      * cbn [app] in E. injection E as <- <- ->. apply (F2 k' x' c'). exists pre', r'. split; [reflexivity|]. split; [intros H; apply Np; right; exact H|]. split; assumption.
    + destruct (assoc kids k) as [c|] eqn:A.
      * (* a wanted name, first occurrence *)
        assert (Hin : In (k, c) kids) by exact (Many.assoc_in key keq _ _ _ _ A).
        pose proof (proj1 (Forall_forall _ _) IHk (k, c) Hin) as IHc. cbn [snd] in IHc.
        assert (Lk : live kids ((k, x) :: r) seen k x c) by (exists [], r; split; [reflexivity|]; split; [intros []|]; split; assumption).
        destruct (IHc x out remain (Hres k x c Lk) ltac:(lia)) as (f1 & o1 & R1 & K1 & F1).
        assert (Hres' : forall k' x' c', live kids r (k :: seen) k' x' c' -> resolves c' x').
        { intros k' x' c' L. apply (Hres k' x' c'). apply (live_tail kids k x r seen (k :: seen) k' x' c' L); rewrite Em, A; [reflexivity|discriminate]. }
        destruct (Nat.eq_dec (remain - need c) 0) as [Z | NZ].
        -- exists (S f1), o1. rewrite (ManySeen.loop2_S key keq), Em, A, R1. rewrite Z. cbn [Nat.eqb].
           assert (O0 : owed2 kids r (k :: seen) = 0) by lia.
           split; [f_equal; f_equal; lia|]. split; [exact K1|].
           intros k' x' c' (pre & r' & E & Np & Em' & A'). destruct pre as [|[k2 x2] pre'].
           ++ cbn [app] in E. injection E as <- <- <-. rewrite A in A'. injection A' as <-. exact F1.
           ++ cbn [app] in E. injection E as <- <- ->.
              assert (NE : k <> k') by (intros ->; apply Np; left; reflexivity).
              assert (N0 : need c' = 0).
              { apply (owed2_zero kids _ (k :: seen) O0 pre' k' x' r' c' eq_refl); [intros H; apply Np; right; exact H| |exact A'].
                rewrite mem_cons, Em'. destruct (keq k k'); [contradiction|reflexivity]. }
              intros q path Hq. unfold ManyComplete.need in N0. destruct (slots c'); [destruct Hq|discriminate].
        -- destruct (IH (k :: seen) o1 (remain - need c) Hres' ltac:(lia)) as (f2 & o2 & L2 & K2 & F2).
           exists (S (Nat.max f1 f2)), o2. rewrite (ManySeen.loop2_S key keq), Em, A.
           rewrite (rec2_mono f1 (Nat.max f1 f2) _ _ _ _ _ (Nat.le_max_l _ _) R1).
           destruct (Nat.eqb_spec (remain - need c) 0) as [E | _]; [contradiction|].
           rewrite (loop2_mono f2 (Nat.max f1 f2) _ _ _ _ _ _ (Nat.le_max_r _ _) L2).
           split; [f_equal; f_equal; lia|]. split; [exact (ManyComplete.keeps_trans key _ _ _ K1 K2)|].
           intros k' x' c' (pre & r' & E & Np & Em' & A'). destruct pre as [|[k2 x2] pre'].
           ++ cbn [app] in E. injection E as <- <- <-. rewrite A in A'. injection A' as <-. intros q path Hq. apply K2. exact (F1 q path Hq).
           ++ cbn [app] in E. injection E as <- <- ->.
              assert (NE : k <> k') by (intros ->; apply Np; left; reflexivity).
              apply (F2 k' x' c'). exists pre', r'. split; [reflexivity|]. split; [intros H; apply Np; right; exact H|]. split; [|exact A'].
              rewrite mem_cons, Em'. destruct (keq k k'); [contradiction|reflexivity].
      * (* not a name of this node *)
        assert (Hres' : forall k' x' c', live kids r seen k' x' c' -> resolves c' x').
        { intros k' x' c' L. apply (Hres k' x' c'). apply (live_tail kids k x r seen seen k' x' c' L); rewrite Em, A; [intros H; contradiction|reflexivity]. }
        destruct (IH seen out remain Hres' Hle) as (f2 & o2 & L2 & K2 & F2).
        exists (S f2), o2. rewrite (ManySeen.loop2_S key keq), Em, A. split; [exact L2|]. split; [exact K2|].
        intros k' x' c' (pre & r' & E & Np & Em' & A'). destruct pre as [|[k2 x2] pre'].
        -- cbn [app] in E. injection E as <- <- <-. congruence.
        -- cbn [app] in E. injection E as <- <- ->. apply (F2 k' x' c'). exists pre', r'. split; [reflexivity|]. split; [intros H; apply Np; right; exact H|]. split; assumption.
Qed.

Lemma assoc_split : forall (ms : list (key * jv)) k x, assoc ms k = Some x -> exists pre r, ms = pre ++ (k, x) :: r /\ ~ In k (map fst pre).
Proof.
  induction ms as [|[k1 x1] r1 IH]; intros k x H; [discriminate|]. cbn [Many.assoc] in H.
  destruct (keq k1 k) as [-> | NE].
  - injection H as ->. exists [], r1. split; [reflexivity|intros []].
  - destruct (IH k x H) as (pre & r & E & Np). exists ((k1, x1) :: pre), r. split; [cbn [app]; rewrite E; reflexivity|].
    cbn [map fst]. intros [E1 | H1]; [contradiction|apply Np; exact H1].
Qed.

Theorem rec2_complete : forall t, wf t -> forall v out remain, resolves t v -> need t <= remain ->
  exists fuel out', rec2 fuel t v out remain = Some (out', remain - need t) /\ keeps out out' /\ filled (slots t) out'.
Proof.
  induction t as [o ks IHk] using (ManyComplete.trie_ind' key). intros W v out remain Rv Hle.
  inversion W as [o' ks' NDk FAk]; subst. rewrite (ManyComplete.need_node key) in Hle |- *.
  destruct (Nat.eq_dec remain 0) as [-> | NZ].
  { exists 1, out. rewrite (ManySeen.rec2_S key keq). cbn [Nat.eqb]. assert (length o = 0 /\ kneed ks = 0) as [Z1 Z2] by lia.
    split; [reflexivity|]. split; [apply ManyComplete.keeps_refl|]. intros q path Hq. exfalso.
    assert (E : slots (Node o ks) = []). { apply length_zero_iff_nil. change (need (Node o ks) = 0). rewrite (ManyComplete.need_node key). lia. }
    rewrite E in Hq. destruct Hq. }
  destruct ks as [|[k0 c0] kr].
  - exists 1, (fold_left (fun o1 p => upd o1 p (Some v)) o out). rewrite (ManySeen.rec2_S key keq). destruct (Nat.eqb_spec remain 0) as [E | _]; [contradiction|].
    destruct (ManyComplete.fold_keeps_fills key o out v) as [K F]. change (kneed []) with 0. rewrite Nat.add_0_r.
    split; [reflexivity|]. split; [exact K|]. intros q path Hq. cbn [Many.slots] in Hq. rewrite app_nil_r in Hq.
    apply in_map_iff in Hq. destruct Hq as (p & E & Hp). injection E as -> _. exact (F q Hp).
  - inversion FAk as [|? ? [W0 P0] FAr]; subst. cbn [snd] in W0, P0.
    assert (Hs : exists q p, In (q, p) (slots c0)).
    { unfold ManyComplete.need in P0. destruct (slots c0) as [|[q p] rest]; [cbn in P0; lia|]. exists q, p. left. reflexivity. }
    destruct Hs as (q0 & p0 & Hq0).
    assert (R0 : lookup v (k0 :: p0) <> None).
    { apply (Rv q0). cbn [Many.slots]. apply in_or_app. right. apply in_or_app. left. apply in_map_iff. exists (q0, p0). split; [reflexivity|exact Hq0]. }
    cbn [Many.lookup] in R0. destruct v as [id|ms]; [congruence|].
    destruct (assoc ms k0) as [x0|] eqn:A0; [|congruence].
    assert (IHk' : Forall (fun kc => forall v out remain, resolves (snd kc) v -> need (snd kc) <= remain ->
              exists fuel out', rec2 fuel (snd kc) v out remain = Some (out', remain - need (snd kc)) /\ keeps out out' /\ filled (slots (snd kc)) out') ((k0, c0) :: kr)).
    { apply Forall_forall. intros [k c] Hin.
      pose proof (proj1 (Forall_forall _ _) IHk (k, c) Hin) as IHc. pose proof (proj1 (Forall_forall _ _) FAk (k, c) Hin) as [Wc _].
      cbn [snd] in *. intros v' out' remain' R L. exact (IHc Wc v' out' remain' R L). }
    (* a live member is the first occurrence of its name: what lookup finds *)
    assert (Hres : forall k x c, live ((k0, c0) :: kr) ms [] k x c -> resolves c x).
    { intros k x c (pre & r & E & Np & _ & A). intros q p Hq.
      assert (Hs : In (q, k :: p) (slots (Node o ((k0, c0) :: kr)))).
      { cbn [Many.slots]. apply in_or_app. right. exact (Many.kslots_in key _ k c (q, p) (Many.assoc_in key keq _ _ _ _ A) Hq). }
      pose proof (Rv q (k :: p) Hs) as R. cbn [Many.lookup] in R. rewrite E, (ManySeen.assoc_first_occurrence key keq pre r k x Np) in R. exact R. }
    assert (Ow : owed2 ((k0, c0) :: kr) ms [] = kneed ((k0, c0) :: kr)).
    { apply owed2_all; [exact NDk|]. intros k c Hin Pc.
      unfold ManyComplete.need in Pc. destruct (slots c) as [|[q p] rest] eqn:Es; [cbn in Pc; lia|].
      assert (Hs : In (q, k :: p) (slots (Node o ((k0, c0) :: kr)))).
      { cbn [Many.slots]. apply in_or_app. right. apply (Many.kslots_in key _ k c (q, p) Hin). rewrite Es. left. reflexivity. }
      pose proof (Rv q (k :: p) Hs) as R. cbn [Many.lookup] in R. destruct (assoc ms k) as [x|] eqn:A; [|congruence].
      apply in_map_iff. exists (k, x). split; [reflexivity|exact (Many.assoc_in key keq _ _ _ _ A)]. }
    destruct (loop2_complete _ IHk' ms [] out remain Hres ltac:(lia)) as (f1 & o1 & L1 & K1 & F1).
    destruct (ManyComplete.fold_keeps_fills key o o1 (JObj ms)) as [K2 F2].
    exists (S f1), (fold_left (fun o2 p => upd o2 p (Some (JObj ms))) o o1).
    rewrite (ManySeen.rec2_S key keq). destruct (Nat.eqb_spec remain 0) as [E | _]; [contradiction|].
    destruct ms as [|m mr]; [discriminate|]. rewrite L1. rewrite Ow.
    split; [f_equal; f_equal; lia|]. split; [exact (ManyComplete.keeps_trans key _ _ _ K1 K2)|].
    intros q path Hq. cbn [Many.slots] in Hq. apply in_app_or in Hq. destruct Hq as [Hq | Hq].
    + apply in_map_iff in Hq. destruct Hq as (p & E & Hp). injection E as -> _. exact (F2 q Hp).
    + fold (Many.kslots key ((k0, c0) :: kr)) in Hq.
      assert (G : exists k c p, path = k :: p /\ In (k, c) ((k0, c0) :: kr) /\ In (q, p) (slots c)).
      { clear -Hq. induction ((k0, c0) :: kr) as [|[k c] r IHr]; [destruct Hq|]. cbn [Many.kslots] in Hq. apply in_app_or in Hq. destruct Hq as [Hq | Hq].
        - apply in_map_iff in Hq. destruct Hq as ([q' p] & E & Hp). injection E as <- <-. exists k, c, p. split; [reflexivity|]. split; [left; reflexivity|exact Hp].
        - destruct (IHr Hq) as (k' & c' & p & E & Hin & Hp). exists k', c', p. split; [exact E|]. split; [right; exact Hin|exact Hp]. }
      destruct G as (k & c & p & -> & Hin & Hp).
      pose proof (Rv q (k :: p) ltac:(cbn [Many.slots]; apply in_or_app; right; exact Hq)) as R. cbn [Many.lookup] in R.
      destruct (assoc (m :: mr) k) as [x|] eqn:A; [|congruence].
      destruct (assoc_split _ _ _ A) as (pre & r & E & Np).
      assert (Lv : live ((k0, c0) :: kr) (m :: mr) [] k x c).
      { exists pre, r. split; [exact E|]. split; [exact Np|]. split; [reflexivity|]. exact (Many.assoc_nodup key keq _ _ k c NDk Hin). }
      apply K2. exact (F1 k x c Lv q p Hp).
Qed.
End CompleteSeen.
Print Assumptions rec2_complete.

(* ---------- C11's first sentence, for every document: all paths resolve individually => get_many over the tree
   built by add_path succeeds, uses up the counter exactly, and slot i holds what get finds for path i ---------- *)
Theorem get_many_correct_on_every_document : forall (key : Type) (keq : forall a b : key, {a = b} + {a <> b}) (paths : list (list key)) (v : Many.jv key),
  (forall p, In p paths -> Many.lookup key keq v p <> None) ->
  exists fuel out', ManySeen.rec2 key keq fuel (ManyBuild.build key keq paths) v (fun _ => None) (length paths) = Some (out', 0) /\
    forall i p, nth_error paths i = Some p -> out' i = Many.lookup key keq v p.
Proof.
  intros key keq paths v Res. destruct (ManyBuild.build_slots key keq paths) as [P _].
  assert (Nd : ManyComplete.need key (ManyBuild.build key keq paths) = length paths).
  { unfold ManyComplete.need. rewrite (Permutation_length P). rewrite combine_length, seq_length. lia. }
  assert (Rs : ManyComplete.resolves key keq (ManyBuild.build key keq paths) v).
  { intros q path Hq. apply (Permutation_in _ P) in Hq. apply (ManyBuild.in_combine_seq key) in Hq. destruct Hq as [_ H]. apply Res. exact (nth_error_In _ _ H). }
  destruct (rec2_complete key keq (ManyBuild.build key keq paths) (ManyBuild.build_from_cwf key keq paths (ManyBuild.empty key) 0 (ManyBuild.cwf_empty key)) v (fun _ => None) (length paths) Rs ltac:(lia))
    as (fuel & out' & R & _ & F).
  rewrite Nd, Nat.sub_diag in R. exists fuel, out'. split; [exact R|].
  intros i p Hi.
  assert (Hs : In (i, p) (Many.slots key (ManyBuild.build key keq paths))).
  { apply (Permutation_in _ (Permutation_sym P)). apply (ManyBuild.in_combine_seq key). split; [lia|]. rewrite Nat.sub_0_r. exact Hi. }
  pose proof (F i p Hs) as Fi.
  destruct (proj1 (ManySeen.get_many_sound_every_document key keq fuel) _ _ _ _ _ _ R i) as [E | (path & Hp & Ev & _)]; [congruence|].
  apply (Permutation_in _ P) in Hp. apply (ManyBuild.in_combine_seq key) in Hp. destruct Hp as [_ Hp]. rewrite Nat.sub_0_r in Hp.
  rewrite Hi in Hp. injection Hp as <-. exact Ev.
Qed.
Print Assumptions get_many_correct_on_every_document.
