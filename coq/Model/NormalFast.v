(* Model/NormalFast.v -- parse_floating_normal_fast of sonic-number/src/lib.rs AS TRANSLATED from the
   source (T2, Gen/Funcs.v), for every decimal exponent of the table and every non-zero 64-bit significand:
   (1) what it computes, with every overflow / shift / index check discharged: it panics in a checked
       build exactly when the middle word of the 192-bit product is all ones in the second stage;
   (2) whenever it returns Some bits, bits is the binary64 nearest to man * 10^exp10 (ties cannot occur
       on this path), by the product arithmetic of Model/NormalFastMath.v and the table (every entry is
       within one unit of the exact power, checked entry by entry). *)
From Coq Require Import ZArith List Bool Lia.
From SonicV Require Import Base.RustInt Gen.Tables Gen.Funcs Model.FuncsEsc Model.FuncsMisc Model.FuncsNum Model.NormalFastMath Spec.Num Model.NumSpec.
Import ListNotations.
Open Scope Z_scope.

Definition F10 (e : Z) : Z := (217706 * e - 4128768) / 65536.          (* floor(log2 10^e) - 63 *)

(* first / second stage: None = overflow panic of `add + 1`, Some None = undecided, Some (Some H) = decided *)
Definition nf_stage (s1 s2 s2x : Z) : option (option Z) :=
  let hi := (s1 * s2) / W64 in
  let lo := (s1 * s2) mod W64 in
  if (Z.land hi 511 - 1) mod W64 <? 510 then Some (Some hi)
  else
    let hi2 := (s1 * s2x) / W64 in
    let add_ := (lo + hi2) mod W64 in
    if add_ =? W64 - 1 then None
    else if 1 <? add_ + 1 then Some (Some (hi + b2z ((add_ <? lo) || (add_ <? hi2)))) else Some None.

(* the rounding and assembly tail *)
Definition nf_tail (H exp2 : Z) : Z :=
  let lz' := if H <? 9223372036854775808 then 1 else 0 in
  let h1 := (H * 2 ^ lz') mod W64 in
  let e1 := exp2 - lz' + 64 in
  let h2 := (h1 + (if 0 <? Z.land h1 1024 then 1024 else 0)) mod W64 in
  let e2 := if h2 <? 1024 then e1 + 1 else e1 in
  let h3 := if h2 <? 1024 then 9223372036854775808 else h2 in
  Z.lor ((((e2 + 63 + 1023) mod W64) * 4503599627370496) mod W64) (Z.land (h3 / 2048) 4503599627370495).

Definition nf_model (e m : Z) : option (option Z) :=
  let lz := leading_zeros 64 m in
  let s1 := m * 2 ^ lz in
  match idx POWER_OF_FIVE_128_Z (e + 342) with
  | None => None
  | Some (s2, s2x) =>
    match nf_stage s1 s2 s2x with
    | None => None
    | Some None => Some None
    | Some (Some H) => Some (Some (nf_tail H (F10 e - lz)))
    end
  end.

Ltac s32 := rewrite chk_s_some by (change (2 ^ (32 - 1)) with 2147483648; lia); cbn [bind].

Theorem normal_fast_is_model : forall e m, -342 <= e <= 308 -> 1 <= m < W64 ->
  parse_floating_normal_fast e m = nf_model e m.
Proof.
  intros e m He Hm. unfold parse_floating_normal_fast, nf_model.
  s32. rewrite (Z.mod_small (e + 342)) by lia.
  destruct (table_entry (e + 342) ltac:(lia)) as [s2 [s2x [E [R2 R2x]]]]. rewrite E. cbn [bind fst snd].
  destruct (leading_zeros_range m ltac:(unfold W64 in *; lia)) as [Rlz Rn].
  set (lz := leading_zeros 64 m) in *.
  rewrite chk_shl_u_some by lia. cbn [bind]. unfold shl_u. change (2 ^ 64) with W64. rewrite (Z.mod_small (m * 2 ^ lz)) by lia.
  set (s1 := m * 2 ^ lz) in *.
  s32. s32.
  assert (Elz : wrap_s 32 lz = lz).
  { unfold wrap_s. change (2 ^ (32 - 1)) with 2147483648. change (2 ^ 32) with 4294967296. rewrite Z.mod_small by lia. lia. }
  rewrite Elz.
  assert (RF : -20000 <= (217706 * e - 4128768) / 65536 <= 20000).
  { split; [apply Z.div_le_lower_bound; lia | apply Z.div_le_upper_bound; lia]. }
  s32. fold (F10 e).
  assert (Rs1 : 0 <= s1 < W64) by (unfold W64 in *; lia).
  destruct (full_multiplication_ok s1 s2 Rs1 R2) as [M1 B1]. rewrite M1. cbn [bind].
  unfold nf_stage. change 18446744073709551616 with W64.
  set (hi := s1 * s2 / W64) in *. set (lo := (s1 * s2) mod W64).
  assert (Rlo : 0 <= lo < W64) by (apply Z.mod_pos_bound; reflexivity).
  (* the tail, once hi is decided *)
  assert (Tail : forall H, 0 <= H <= W64 - 1 ->
    (let v12 := if H <? 9223372036854775808 then 1 else 0 in
     t13 <- chk_shl_u 64 H v12;;
     t14 <- chk_s 32 (F10 e - lz - wrap_s 32 v12);;
     t15 <- chk_s 32 (t14 + 64);;
     let round_up := 0 <? Z.land t13 1024 in
     let v16 := if round_up then 1024 else 0 in
     let hi0 := (t13 + v16) mod W64 in
     x <- (if hi0 <? 1024 then t17 <- chk_s 32 (t15 + 1);; Some (t17, 9223372036854775808) else Some (t15, hi0));;
     (let '(exp2, hi1) := x in
      let hi2 := hi1 / 2048 in
      t18 <- chk_s 32 (exp2 + 63);;
      t19 <- chk_s 32 (t18 + 1023);;
      Some (Some (Z.lor ((t19 mod W64 * 4503599627370496) mod W64) (Z.land hi2 4503599627370495))))) = Some (Some (nf_tail H (F10 e - lz)))).
  { intros H RH. cbv zeta. unfold nf_tail.
    assert (V : (if H <? 9223372036854775808 then 1 else 0) = 0 \/ (if H <? 9223372036854775808 then 1 else 0) = 1)
      by (destruct (H <? 9223372036854775808); auto).
    set (v := if H <? 9223372036854775808 then 1 else 0) in *.
    rewrite chk_shl_u_some by lia. cbn [bind]. unfold shl_u. change (2 ^ 64) with W64.
    assert (Ev : wrap_s 32 v = v) by (destruct V as [-> | ->]; reflexivity). rewrite Ev.
    unfold F10 in *. s32. s32.
    destruct ((H * 2 ^ v mod W64 + (if 0 <? Z.land (H * 2 ^ v mod W64) 1024 then 1024 else 0)) mod W64 <? 1024).
    - s32. s32. s32. reflexivity.
    - cbn [bind]. s32. s32. reflexivity. }
  destruct ((Z.land hi 511 - 1) mod W64 <? 510) eqn:C1.
  - cbn [bind]. apply (Tail hi). unfold W64 in *. lia.
  - destruct (full_multiplication_ok s1 s2x Rs1 R2x) as [M2 B2]. rewrite M2. cbn [bind].
    set (hi2 := s1 * s2x / W64) in *.
    set (add_ := (lo + hi2) mod W64).
    assert (Radd : 0 <= add_ < W64) by (apply Z.mod_pos_bound; reflexivity).
    destruct (Z.eqb_spec add_ (W64 - 1)) as [Ea|Na].
    + unfold chk_u, in_u. rewrite Ea. reflexivity.
    + rewrite chk_u_some by (change (2 ^ 64) with W64; unfold W64 in *; lia). cbn [bind].
      destruct (1 <? add_ + 1).
      * rewrite chk_u_some by (change (2 ^ 64) with W64; unfold W64 in *; destruct ((add_ <? lo) || (add_ <? hi2)); cbn [b2z]; lia). cbn [bind].
        apply Tail. unfold W64 in *. destruct ((add_ <? lo) || (add_ <? hi2)); cbn [b2z]; lia.
      * cbn [bind]. reflexivity.
Qed.

(* ---------- the table: every entry is within one unit of the exact power, and normalised ---------- *)
Definition tab_k (e : Z) : Z := e + 127 - (217706 * e) / 65536.
Definition tab_N (e : Z) : Z := if 0 <=? e then (if 0 <=? tab_k e then 5 ^ e * 2 ^ tab_k e else 5 ^ e) else 2 ^ tab_k e.
Definition tab_D (e : Z) : Z := if 0 <=? e then (if 0 <=? tab_k e then 1 else 2 ^ (- tab_k e)) else 5 ^ (- e).
Definition tab_ok (e : Z) : bool :=
  match idx POWER_OF_FIVE_128_Z (e + 342) with
  | Some (s2, s2x) =>
      (9223372036854775808 <=? s2) && (s2 <? W64) && (0 <=? s2x) && (s2x <? W64) && (0 <? tab_D e) &&
      ((s2 * W64 + s2x - 1) * tab_D e <? tab_N e) && (tab_N e <? (s2 * W64 + s2x + 1) * tab_D e)
  | None => false
  end.
Definition exps : list Z := map (fun i => Z.of_nat i - 342) (seq 0 651).
Lemma tab_sweep : forallb tab_ok exps = true.
Proof. vm_compute. reflexivity. Qed.
(* tab_N e / tab_D e is exactly 10^e * 2^(127 - floor(log2 10^e)): checked as a closed identity per exponent *)
Definition tab_exact (e : Z) : bool :=
  let f := (217706 * e) / 65536 in       (* floor(log2 10^e) *)
  (* N/D * 2^f = 10^e * 2^127, cross-multiplied with non-negative exponents *)
  let lhsN := tab_N e * (if 0 <=? f then 2 ^ f else 1) * (if 0 <=? e then 1 else 10 ^ (- e)) in
  let rhsN := tab_D e * (if 0 <=? f then 1 else 2 ^ (- f)) * (if 0 <=? e then 10 ^ e else 1) * 2 ^ 127 in
  lhsN =? rhsN.
Lemma tab_exact_sweep : forallb tab_exact exps = true.
Proof. vm_compute. reflexivity. Qed.

Lemma in_exps : forall e, -342 <= e <= 308 -> In e exps.
Proof.
  intros e H. unfold exps. apply in_map_iff. exists (Z.to_nat (e + 342)). split; [lia|]. apply in_seq. lia.
Qed.

Lemma tab_fact : forall e, -342 <= e <= 308 ->
  exists s2 s2x, idx POWER_OF_FIVE_128_Z (e + 342) = Some (s2, s2x) /\
    9223372036854775808 <= s2 < W64 /\ 0 <= s2x < W64 /\ 0 < tab_D e /\
    (s2 * W64 + s2x - 1) * tab_D e < tab_N e < (s2 * W64 + s2x + 1) * tab_D e.
Proof.
  intros e H. pose proof (proj1 (forallb_forall _ _) tab_sweep e (in_exps e H)) as T. unfold tab_ok in T.
  destruct (idx POWER_OF_FIVE_128_Z (e + 342)) as [[s2 s2x]|]; [|discriminate].
  exists s2, s2x. split; [reflexivity|].
  repeat (apply andb_true_iff in T; destruct T as [T ?]).
  repeat match goal with
         | X : (_ <=? _) = true |- _ => apply Z.leb_le in X
         | X : (_ <? _) = true |- _ => apply Z.ltb_lt in X
         end. lia.
Qed.

(* ---------- the tail: half-up rounding of the decided word, assembly of the bit pattern ---------- *)
Lemma bit10 : forall x, 0 <= x -> (0 <? Z.land x 1024) = ((x / 1024) mod 2 =? 1).
Proof.
  intros x Hx.
  assert (E : Z.land x 1024 = 1024 * ((x / 1024) mod 2)).
  { destruct (Z.testbit x 10) eqn:T.
    - assert (M : (x / 2 ^ 10) mod 2 = 1) by (apply Z.testbit_true; [lia|exact T]). change (2 ^ 10) with 1024 in M. rewrite M.
      apply Z.bits_inj'. intros i Hi. rewrite Z.land_spec. change 1024 with (2 ^ 10) at 1. rewrite Z.pow2_bits_eqb by lia.
      change (1024 * 1) with (2 ^ 10). rewrite Z.pow2_bits_eqb by lia.
      destruct (Z.eqb_spec 10 i) as [<-|]; [rewrite T; reflexivity | apply andb_false_r].
    - assert (M : (x / 2 ^ 10) mod 2 = 0) by (apply Z.testbit_false; [lia|exact T]). change (2 ^ 10) with 1024 in M. rewrite M.
      apply Z.bits_inj'. intros i Hi. rewrite Z.land_spec, Z.bits_0. change 1024 with (2 ^ 10). rewrite Z.pow2_bits_eqb by lia.
      destruct (Z.eqb_spec 10 i) as [<-|]; [rewrite T; reflexivity | apply andb_false_r]. }
  rewrite E. pose proof (Z.mod_pos_bound (x / 1024) 2 ltac:(lia)).
  destruct (Z.eqb_spec ((x / 1024) mod 2) 1) as [->|N]; [reflexivity|]. replace ((x / 1024) mod 2) with 0 by lia. reflexivity.
Qed.

Lemma div_eq : forall a b q, 0 < b -> b * q <= a < b * (q + 1) -> a / b = q.
Proof. intros a b q Hb H. symmetry. apply Z.div_unique with (a - b * q); lia. Qed.

(* rounded significand (53 bits, possibly 2^53 after a carry) and biased exponent before the carry *)
Definition rhu (H : Z) : Z :=
  if H <? 9223372036854775808 then H / 1024 + (H / 512) mod 2 else H / 2048 + (H / 1024) mod 2.
Definition assemble (q E : Z) : Z :=
  if q =? 9007199254740992 then (E + 1) * 4503599627370496 else E * 4503599627370496 + (q - 4503599627370496).

Lemma nf_tail_is_assemble : forall H x, 4611686018427387904 <= H < W64 -> -1148 <= x <= 1100 ->
  let lz' := if H <? 9223372036854775808 then 1 else 0 in
  4503599627370496 <= rhu H <= 9007199254740992 /\
  nf_tail H x = assemble (rhu H) (x - lz' + 1150).
Proof.
  intros H x RH Rx. cbv zeta. unfold nf_tail, rhu, assemble, W64 in *.
  destruct (Z.ltb_spec H 9223372036854775808) as [L|L].
  - (* one bit of normalisation: h1 = 2 H *)
    change (2 ^ 1) with 2. rewrite (Z.mod_small (H * 2)) by lia.
    rewrite bit10 by lia.
    assert (D1 : H * 2 / 1024 = H / 512) by (rewrite Z.mul_comm; replace 1024 with (2 * 512) by lia; rewrite Z.div_mul_cancel_l by lia; reflexivity).
    assert (D2 : H * 2 / 2048 = H / 1024) by (rewrite Z.mul_comm; replace 2048 with (2 * 1024) by lia; rewrite Z.div_mul_cancel_l by lia; reflexivity).
    rewrite D1. pose proof (Z.mod_pos_bound (H / 512) 2 ltac:(lia)) as MB.
    pose proof (Z.div_mod (H / 512) 2 ltac:(lia)) as DM. assert (Q : H / 512 / 2 = H / 1024) by (rewrite Z.div_div by lia; reflexivity). rewrite Q in DM.
    assert (R10 : 4503599627370496 <= H / 1024 < 9007199254740992) by (split; [apply Z.div_le_lower_bound; lia | apply Z.div_lt_upper_bound; lia]).
    split; [lia|].
    destruct (Z.eqb_spec ((H / 512) mod 2) 1) as [B1|B0].
    + (* round up: 2H + 1024 *)
      rewrite B1.
      assert (S : (H * 2 + 1024) / 2048 = H / 1024 + 1).
      { pose proof (Z.div_mod H 512 ltac:(lia)). pose proof (Z.mod_pos_bound H 512 ltac:(lia)).
        pose proof (Z.div_mod H 1024 ltac:(lia)). pose proof (Z.mod_pos_bound H 1024 ltac:(lia)).
        apply div_eq; lia. }
      destruct (Z.ltb_spec ((H * 2 + 1024) mod 18446744073709551616) 1024) as [O|O].
      * (* carry out of 64 bits: H/1024 + 1 = 2^53 *)
        assert (H * 2 + 1024 >= 18446744073709551616).
        { destruct (Z_lt_ge_dec (H * 2 + 1024) 18446744073709551616) as [X|X]; [|exact X]. rewrite Z.mod_small in O by lia. lia. }
        assert (Eq : H / 1024 + 1 = 9007199254740992) by lia. rewrite Eq. cbn [Z.eqb Pos.eqb].
        change (9223372036854775808 / 2048) with 4503599627370496. change (Z.land 4503599627370496 4503599627370495) with 0. rewrite Z.lor_0_r.
        rewrite (Z.mod_small (x - 1 + 64 + 1 + 63 + 1023)) by lia. rewrite Z.mod_small by lia. lia.
      * assert (NO : H * 2 + 1024 < 18446744073709551616).
        { destruct (Z_lt_ge_dec (H * 2 + 1024) 18446744073709551616) as [X|X]; [exact X|].
          assert ((H * 2 + 1024) mod 18446744073709551616 = H * 2 + 1024 - 18446744073709551616).
          { symmetry. apply Z.mod_unique with 1; lia. } lia. }
        rewrite (Z.mod_small (H * 2 + 1024)) by lia. rewrite S.
        destruct (Z.eqb_spec (H / 1024 + 1) 9007199254740992) as [Eq|Ne].
        { exfalso. pose proof (Z.div_mod H 512 ltac:(lia)). pose proof (Z.mod_pos_bound H 512 ltac:(lia)). lia. }
        change 4503599627370495 with (Z.ones 52). rewrite Z.land_ones by lia. change (2 ^ 52) with 4503599627370496.
        rewrite (Z.mod_small (x - 1 + 64 + 63 + 1023)) by lia. rewrite (Z.mod_small ((x - 1 + 64 + 63 + 1023) * 4503599627370496)) by lia.
        assert (Md : (H / 1024 + 1) mod 4503599627370496 = H / 1024 + 1 - 4503599627370496) by (symmetry; apply Z.mod_unique with 1; lia).
        rewrite Md, Z.lor_comm. change 4503599627370496 with (2 ^ 52) at 2. rewrite lor_disjoint by (change (2 ^ 52) with 4503599627370496; lia).
        change (2 ^ 52) with 4503599627370496. lia.
    + assert (B : (H / 512) mod 2 = 0) by lia. rewrite B, !Z.add_0_r.
      rewrite (Z.mod_small (H * 2)) by lia.
      destruct (Z.ltb_spec (H * 2) 1024); [lia|]. rewrite D2.
      destruct (Z.eqb_spec (H / 1024) 9007199254740992); [lia|].
      change 4503599627370495 with (Z.ones 52). rewrite Z.land_ones by lia. change (2 ^ 52) with 4503599627370496.
      rewrite (Z.mod_small (x - 1 + 64 + 63 + 1023)) by lia. rewrite (Z.mod_small ((x - 1 + 64 + 63 + 1023) * 4503599627370496)) by lia.
      assert (Md : (H / 1024) mod 4503599627370496 = H / 1024 - 4503599627370496) by (symmetry; apply Z.mod_unique with 1; lia).
      rewrite Md, Z.lor_comm. change 4503599627370496 with (2 ^ 52) at 2. rewrite lor_disjoint by (change (2 ^ 52) with 4503599627370496; lia).
      change (2 ^ 52) with 4503599627370496. lia.
  - (* already normalised: h1 = H *)
    change (2 ^ 0) with 1. rewrite Z.mul_1_r. rewrite (Z.mod_small H) by lia.
    rewrite bit10 by lia.
    pose proof (Z.mod_pos_bound (H / 1024) 2 ltac:(lia)) as MB.
    pose proof (Z.div_mod (H / 1024) 2 ltac:(lia)) as DM. assert (Q : H / 1024 / 2 = H / 2048) by (rewrite Z.div_div by lia; reflexivity). rewrite Q in DM.
    assert (R11 : 4503599627370496 <= H / 2048 < 9007199254740992) by (split; [apply Z.div_le_lower_bound; lia | apply Z.div_lt_upper_bound; lia]).
    split; [lia|].
    destruct (Z.eqb_spec ((H / 1024) mod 2) 1) as [B1|B0].
    + rewrite B1.
      assert (S : (H + 1024) / 2048 = H / 2048 + 1).
      { pose proof (Z.div_mod H 1024 ltac:(lia)). pose proof (Z.mod_pos_bound H 1024 ltac:(lia)).
        pose proof (Z.div_mod H 2048 ltac:(lia)). pose proof (Z.mod_pos_bound H 2048 ltac:(lia)).
        apply div_eq; lia. }
      destruct (Z.ltb_spec ((H + 1024) mod 18446744073709551616) 1024) as [O|O].
      * assert (H + 1024 >= 18446744073709551616).
        { destruct (Z_lt_ge_dec (H + 1024) 18446744073709551616) as [X|X]; [|exact X]. rewrite Z.mod_small in O by lia. lia. }
        assert (Eq : H / 2048 + 1 = 9007199254740992) by lia. rewrite Eq. cbn [Z.eqb Pos.eqb].
        change (9223372036854775808 / 2048) with 4503599627370496. change (Z.land 4503599627370496 4503599627370495) with 0. rewrite Z.lor_0_r.
        rewrite (Z.mod_small (x - 0 + 64 + 1 + 63 + 1023)) by lia. rewrite Z.mod_small by lia. lia.
      * assert (NO : H + 1024 < 18446744073709551616).
        { destruct (Z_lt_ge_dec (H + 1024) 18446744073709551616) as [X|X]; [exact X|].
          assert ((H + 1024) mod 18446744073709551616 = H + 1024 - 18446744073709551616).
          { symmetry. apply Z.mod_unique with 1; lia. } lia. }
        rewrite (Z.mod_small (H + 1024)) by lia. rewrite S.
        destruct (Z.eqb_spec (H / 2048 + 1) 9007199254740992) as [Eq|Ne].
        { exfalso. pose proof (Z.div_mod H 1024 ltac:(lia)). pose proof (Z.mod_pos_bound H 1024 ltac:(lia)). lia. }
        change 4503599627370495 with (Z.ones 52). rewrite Z.land_ones by lia. change (2 ^ 52) with 4503599627370496.
        rewrite (Z.mod_small (x - 0 + 64 + 63 + 1023)) by lia. rewrite (Z.mod_small ((x - 0 + 64 + 63 + 1023) * 4503599627370496)) by lia.
        assert (Md : (H / 2048 + 1) mod 4503599627370496 = H / 2048 + 1 - 4503599627370496) by (symmetry; apply Z.mod_unique with 1; lia).
        rewrite Md, Z.lor_comm. change 4503599627370496 with (2 ^ 52) at 2. rewrite lor_disjoint by (change (2 ^ 52) with 4503599627370496; lia).
        change (2 ^ 52) with 4503599627370496. lia.
    + assert (B : (H / 1024) mod 2 = 0) by lia. rewrite B, !Z.add_0_r.
      rewrite (Z.mod_small H) by lia.
      destruct (Z.ltb_spec H 1024); [lia|].
      destruct (Z.eqb_spec (H / 2048) 9007199254740992); [lia|].
      change 4503599627370495 with (Z.ones 52). rewrite Z.land_ones by lia. change (2 ^ 52) with 4503599627370496.
      rewrite (Z.mod_small (x - 0 + 64 + 63 + 1023)) by lia. rewrite (Z.mod_small ((x - 0 + 64 + 63 + 1023) * 4503599627370496)) by lia.
      assert (Md : (H / 2048) mod 4503599627370496 = H / 2048 - 4503599627370496) by (symmetry; apply Z.mod_unique with 1; lia).
      rewrite Md, Z.lor_comm. change 4503599627370496 with (2 ^ 52) at 2. rewrite lor_disjoint by (change (2 ^ 52) with 4503599627370496; lia).
      change (2 ^ 52) with 4503599627370496. lia.
Qed.

(* ---------- the exact rational behind the table, in one uniform scaling ---------- *)
Definition tab_exact_u (e : Z) : bool :=
  let f := (217706 * e) / 65536 in
  tab_N e * 10 ^ 400 * 2 ^ (f + 1200) =? tab_D e * 10 ^ (e + 400) * 2 ^ 1327.
Lemma tab_exact_u_sweep : forallb tab_exact_u exps = true.
Proof. vm_compute. reflexivity. Qed.
Lemma tab_exact_fact : forall e, -342 <= e <= 308 ->
  tab_N e * 10 ^ 400 * 2 ^ ((217706 * e) / 65536 + 1200) = tab_D e * 10 ^ (e + 400) * 2 ^ 1327.
Proof.
  intros e H. pose proof (proj1 (forallb_forall _ _) tab_exact_u_sweep e (in_exps e H)) as T.
  unfold tab_exact_u in T. apply Z.eqb_eq in T. exact T.
Qed.

(* rne_div only depends on the ratio *)
Lemma rne_div_ratio : forall a b c d, 0 <= a -> 0 < b -> 0 <= c -> 0 < d -> a * d = c * b -> rne_div a b = rne_div c d.
Proof.
  intros a b c d Ha Hb Hc Hd E.
  destruct (rne_div_nearest c d Hc Hd) as (Q0 & N & T). set (q := rne_div c d) in *.
  symmetry. apply rne_div_unique; [exact Ha|exact Hb| |].
  - (* 2 |a - q b| <= b, from 2 |c - q d| <= d and a d = c b *)
    assert (K : (a - q * b) * d = (c - q * d) * b) by nia.
    assert (K2 : Z.abs (a - q * b) * d = Z.abs (c - q * d) * b).
    { rewrite <- (Z.abs_eq d) at 1 by lia. rewrite <- (Z.abs_eq b) at 2 by lia. rewrite <- !Z.abs_mul. f_equal. exact K. }
    assert (2 * Z.abs (a - q * b) * d <= b * d) by nia.
    apply Z.mul_le_mono_pos_r with d; lia.
  - intros Tie. apply T.
    assert (K : (a - q * b) * d = (c - q * d) * b) by nia.
    assert (K2 : Z.abs (a - q * b) * d = Z.abs (c - q * d) * b).
    { rewrite <- (Z.abs_eq d) at 1 by lia. rewrite <- (Z.abs_eq b) at 2 by lia. rewrite <- !Z.abs_mul. f_equal. exact K. }
    assert (2 * Z.abs (c - q * d) * b = d * b) by nia.
    apply Z.mul_reg_r with b; lia.
Qed.

(* ---------- correct rounding ---------- *)
(* the integer nearest (ties to even) to m * 10^e / 2^t, written with non-negative exponents
   (-400 <= e, -1200 <= t) *)
Definition nearest_scaled (m e t : Z) : Z := rne_div (m * 10 ^ (e + 400) * 2 ^ 1200) (10 ^ 400 * 2 ^ (t + 1200)).

Lemma F10_split : forall e, F10 e = (217706 * e) / 65536 - 63.
Proof. intros e. unfold F10. replace (217706 * e - 4128768) with (217706 * e + (-63) * 65536) by lia. rewrite Z.div_add by lia. lia. Qed.

Lemma scaled_identity : forall m lz e f t r N D, 0 <= lz -> 0 <= r -> 0 <= f + 1200 -> 0 <= t + 1200 ->
  t = f + r + 1 - lz ->
  N * 10 ^ 400 * 2 ^ (f + 1200) = D * 10 ^ (e + 400) * 2 ^ 1327 ->
  (m * 2 ^ lz * N) * (10 ^ 400 * 2 ^ (t + 1200)) = (m * 10 ^ (e + 400) * 2 ^ 1200) * (D * (W64 * W64) * 2 ^ r).
Proof.
  intros m lz e f t r N D Hlz Hr Hf Ht Et Tab.
  assert (PF : 0 < 2 ^ (f + 1200)) by (apply Z.pow_pos_nonneg; lia).
  apply Z.mul_reg_r with (2 ^ (f + 1200)); [lia|].
  change (W64 * W64) with (2 ^ 128).
  set (P := 10 ^ 400) in *. set (Pe := 10 ^ (e + 400)) in *. clearbody P Pe.
  assert (X : 2 ^ lz * 2 ^ (t + 1200) * 2 ^ 1327 = 2 ^ 1200 * 2 ^ 128 * 2 ^ r * 2 ^ (f + 1200)).
  { rewrite <- !Z.pow_add_r by lia. f_equal. lia. }
  set (A := 2 ^ lz) in *. set (B := 2 ^ (t + 1200)) in *. set (C := 2 ^ 1327) in *. set (E1 := 2 ^ 1200) in *.
  set (E2 := 2 ^ 128) in *. set (E3 := 2 ^ r) in *. set (Fp := 2 ^ (f + 1200)) in *. clearbody A B C E1 E2 E3 Fp.
  transitivity (m * A * B * (N * P * Fp)); [ring|]. rewrite Tab.
  transitivity (m * Pe * D * (A * B * C)); [ring|]. rewrite X. ring.
Qed.

Lemma normal_fast_core : forall e m raw, -307 < e < 288 -> 1 <= m < W64 ->
  parse_floating_normal_fast e m = Some (Some raw) ->
  exists H, 4611686018427387904 <= H < W64 /\
    (H / 512) * 512 * (tab_D e * (W64 * W64)) < m * 2 ^ leading_zeros 64 m * tab_N e < (H / 512 + 1) * 512 * (tab_D e * (W64 * W64)) /\
    raw = nf_tail H (F10 e - leading_zeros 64 m).
Proof.
  intros e m raw He Hm Run. rewrite normal_fast_is_model in Run by lia. unfold nf_model in Run.
  destruct (tab_fact e ltac:(lia)) as [s2 [s2x [Ei [R2 [R2x [HD Terr]]]]]]. rewrite Ei in Run.
  destruct (leading_zeros_range m ltac:(unfold W64 in *; lia)) as [Rlz Rn].
  set (lz := leading_zeros 64 m) in *. set (s1 := m * 2 ^ lz) in *.
  assert (Rs1 : 9223372036854775808 <= s1 < W64) by (change 9223372036854775808 with (2 ^ 63); lia).
  destruct (nf_stage s1 s2 s2x) as [[H|]|] eqn:St; try discriminate. injection Run as Eraw.
  set (N := tab_N e) in *. set (D := tab_D e) in *.
  (* the decided word lies in [2^62, 2^64) and its 512-block contains the exact product *)
  assert (K : 4611686018427387904 <= H < W64 /\
              (H / 512) * 512 * (D * (W64 * W64)) < s1 * N < (H / 512 + 1) * 512 * (D * (W64 * W64))).
  { unfold nf_stage in St.
    assert (Rhi : 4611686018427387904 <= s1 * s2 / W64 <= W64 - 2).
    { split.
      - apply Z.div_le_lower_bound; [reflexivity|]. unfold W64 in *. nia.
      - destruct (full_multiplication_ok s1 s2 ltac:(unfold W64 in *; lia) ltac:(unfold W64 in *; lia)) as [_ B]. exact (proj2 B). }
    set (hi := s1 * s2 / W64) in *.
    assert (L9 : Z.land hi 511 = hi mod 512) by (change 511 with (Z.ones 9); rewrite Z.land_ones by lia; reflexivity).
    pose proof (Z.mod_pos_bound hi 512 ltac:(lia)) as MB.
    destruct (Z.ltb_spec ((Z.land hi 511 - 1) mod W64) 510) as [C1|C1].
    - injection St as <-. split; [unfold W64 in *; lia|].
      assert (Bits : 1 <= hi mod 512 <= 510).
      { rewrite L9 in C1. destruct (Z.eq_dec (hi mod 512) 0) as [Z0|NZ].
        - rewrite Z0 in C1. change ((0 - 1) mod W64) with (W64 - 1) in C1. unfold W64 in C1. lia.
        - rewrite Z.mod_small in C1 by (unfold W64; lia). lia. }
      pose proof (first_stage_decides s1 s2 s2x N D ltac:(unfold W, W64 in *; lia) ltac:(unfold W, W64 in *; lia)
                    ltac:(unfold W, W64 in *; lia) HD) as FS.
      change W with W64 in FS. specialize (FS Terr ltac:(lia) Bits). fold hi in FS.
      destruct FS as [F1 F2]. split.
      + replace (hi / 512 * 512 * (D * (W64 * W64))) with (hi / 512 * (512 * (W64 * W64)) * D) by ring. exact F1.
      + replace ((hi / 512 + 1) * 512 * (D * (W64 * W64))) with ((hi / 512 + 1) * (512 * (W64 * W64)) * D) by ring. exact F2.
    - set (lo := (s1 * s2) mod W64) in *. set (hi2 := s1 * s2x / W64) in *. set (ad := (lo + hi2) mod W64) in *.
      assert (Rad : 0 <= ad < W64) by (apply Z.mod_pos_bound; reflexivity).
      destruct (Z.eqb_spec ad (W64 - 1)) as [|Nmax]; [discriminate|].
      destruct (Z.ltb_spec 1 (ad + 1)) as [Pos|]; [|discriminate]. injection St as <-.
      pose proof (second_stage_decides s1 s2 s2x N D ltac:(unfold W, W64 in *; lia) ltac:(unfold W, W64 in *; lia)
                    ltac:(unfold W, W64 in *; lia) HD) as SS.
      change W with W64 in SS. specialize (SS Terr ltac:(lia)).
      unfold add in SS. change W with W64 in SS. fold lo hi2 ad in SS. specialize (SS ltac:(lia)).
      fold hi in SS.
      (* the carry of the code is the carry of the sum *)
      assert (Rlo : 0 <= lo < W64) by (apply Z.mod_pos_bound; reflexivity).
      assert (Rh2 : 0 <= hi2 < W64).
      { destruct (full_multiplication_ok s1 s2x ltac:(unfold W64 in *; lia) ltac:(unfold W64 in *; lia)) as [_ B]. unfold hi2, W64 in *. lia. }
      assert (Cy : b2z ((ad <? lo) || (ad <? hi2)) = carry s1 s2 s2x).
      { unfold carry. change W with W64. fold lo hi2.
        pose proof (Z.div_mod (lo + hi2) W64 ltac:(unfold W64; lia)) as DM. fold ad in DM.
        destruct (Z.leb_spec W64 (lo + hi2)) as [Ov|Nov].
        - assert ((lo + hi2) / W64 = 1) by (apply div_eq; unfold W64 in *; lia).
          assert (ad = lo + hi2 - W64) by lia.
          destruct (Z.ltb_spec ad lo); [reflexivity|]. destruct (Z.ltb_spec ad hi2); [reflexivity|]. unfold W64 in *. lia.
        - assert (ad = lo + hi2) by (unfold ad; apply Z.mod_small; lia).
          destruct (Z.ltb_spec ad lo); [lia|]. destruct (Z.ltb_spec ad hi2); [lia|]. reflexivity. }
      rewrite Cy.
      assert (Cr : 0 <= carry s1 s2 s2x <= 1) by (unfold carry; destruct (W <=? _); lia).
      split; [unfold W64 in *; lia|].
      destruct SS as [F1 F2]. split.
      + replace ((hi + carry s1 s2 s2x) / 512 * 512 * (D * (W64 * W64))) with ((hi + carry s1 s2 s2x) / 512 * (512 * (W64 * W64)) * D) by ring. exact F1.
      + replace (((hi + carry s1 s2 s2x) / 512 + 1) * 512 * (D * (W64 * W64))) with (((hi + carry s1 s2 s2x) / 512 + 1) * (512 * (W64 * W64)) * D) by ring. exact F2. }
  destruct K as [RH Blk]. exists H. split; [exact RH|]. split; [exact Blk|]. symmetry. exact Eraw.
Qed.

Theorem normal_fast_correctly_rounded : forall e m raw, -307 < e < 288 -> 1 <= m < W64 ->
  parse_floating_normal_fast e m = Some (Some raw) ->
  exists E, 1 <= E <= 2045 /\
    let q := nearest_scaled m e (E - 1075) in
    4503599627370496 <= q <= 9007199254740992 /\ raw = assemble q E.
Proof.
  intros e m raw He Hm Run.
  destruct (normal_fast_core e m raw He Hm Run) as [H [RH [Blk ->]]].
  destruct (tab_fact e ltac:(lia)) as [s2 [s2x [Ei [R2 [R2x [HD Terr]]]]]].
  destruct (leading_zeros_range m ltac:(unfold W64 in *; lia)) as [Rlz Rn].
  set (lz := leading_zeros 64 m) in *. set (s1 := m * 2 ^ lz) in *.
  set (N := tab_N e) in *. set (D := tab_D e) in *.
  assert (Fr : -1020 <= (217706 * e) / 65536 <= 954) by (clear - He; Z.div_mod_to_equations; lia).
  assert (Rx : -1148 <= F10 e - lz <= 1100) by (rewrite F10_split; lia).
  destruct (nf_tail_is_assemble H (F10 e - lz) RH Rx) as [Rq Asm]. cbv zeta in Asm.
  set (lz' := if H <? 9223372036854775808 then 1 else 0) in *.
  assert (Vz : lz' = 0 \/ lz' = 1) by (unfold lz'; destruct (H <? 9223372036854775808); auto).
  exists (F10 e - lz - lz' + 1150).
  split; [rewrite F10_split; lia|].
  cbv zeta.
  assert (Q : rhu H = nearest_scaled m e (F10 e - lz - lz' + 1150 - 1075)).
  { unfold rhu, nearest_scaled.
    assert (DnP : 0 < D * (W64 * W64)) by (unfold W64; lia).
    assert (X0 : 0 <= s1 * N) by (destruct Blk as [B1 _]; assert (0 <= H / 512 * 512 * (D * (W64 * W64))) by (apply Z.mul_nonneg_nonneg; [apply Z.mul_nonneg_nonneg; [apply Z.div_pos; lia|lia]|lia]); lia).
    assert (P400 : 0 < 10 ^ 400) by (apply Z.pow_pos_nonneg; lia).
    assert (Pe : 0 < 10 ^ (e + 400)) by (apply Z.pow_pos_nonneg; lia).
    assert (P12 : 0 < 2 ^ 1200) by (apply Z.pow_pos_nonneg; lia).
    pose proof (tab_exact_fact e ltac:(lia)) as Tab. fold N D in Tab.
    unfold lz'. destruct (Z.ltb_spec H 9223372036854775808) as [L|L].
    - rewrite <- (round_at_10 (s1 * N) (D * (W64 * W64)) H DnP ltac:(lia) Blk).
      assert (PD : 0 < 10 ^ 400 * 2 ^ (F10 e - lz - 1 + 1150 - 1075 + 1200)).
      { apply Z.mul_pos_pos; [lia|]. apply Z.pow_pos_nonneg; [lia|]. rewrite F10_split. lia. }
      assert (PN : 0 <= m * 10 ^ (e + 400) * 2 ^ 1200) by (apply Z.mul_nonneg_nonneg; [apply Z.mul_nonneg_nonneg|]; lia).
      apply rne_div_ratio; [exact X0 | lia | exact PN | exact PD |].
      change 1024 with (2 ^ 10). unfold s1.
      apply (scaled_identity m lz e ((217706 * e) / 65536) (F10 e - lz - 1 + 1150 - 1075) 10 N D); try lia; rewrite F10_split; lia.
    - rewrite <- (round_at_11 (s1 * N) (D * (W64 * W64)) H DnP ltac:(lia) Blk).
      assert (PD : 0 < 10 ^ 400 * 2 ^ (F10 e - lz - 0 + 1150 - 1075 + 1200)).
      { apply Z.mul_pos_pos; [lia|]. apply Z.pow_pos_nonneg; [lia|]. rewrite F10_split. lia. }
      assert (PN : 0 <= m * 10 ^ (e + 400) * 2 ^ 1200) by (apply Z.mul_nonneg_nonneg; [apply Z.mul_nonneg_nonneg|]; lia).
      apply rne_div_ratio; [exact X0 | lia | exact PN | exact PD |].
      change 2048 with (2 ^ 11). unfold s1.
      apply (scaled_identity m lz e ((217706 * e) / 65536) (F10 e - lz - 0 + 1150 - 1075) 11 N D); try lia; rewrite F10_split; lia. }
  rewrite <- Q. split; [exact Rq|]. rewrite Asm. f_equal; lia.
Qed.

(* the only way the function can panic (build with overflow checks): `add + 1` in the second stage when the
   middle word of the 192-bit product is all ones. A lattice search over all 64-bit significands and all
   table entries of the guarded range (lib/lattice_search.py) finds no such input for the shipped table;
   that search is evidence, not part of this theorem. *)
Theorem normal_fast_panics_only_on_all_ones : forall e m, -342 <= e <= 308 -> 1 <= m < W64 ->
  parse_floating_normal_fast e m = None ->
  exists s2 s2x, idx POWER_OF_FIVE_128_Z (e + 342) = Some (s2, s2x) /\
    let s1 := m * 2 ^ leading_zeros 64 m in
    ((s1 * s2) mod W64 + (s1 * s2x) / W64) mod W64 = W64 - 1 /\
    (Z.land ((s1 * s2) / W64) 511 = 0 \/ Z.land ((s1 * s2) / W64) 511 = 511).
Proof.
  intros e m He Hm Run. rewrite normal_fast_is_model in Run by lia. unfold nf_model in Run.
  destruct (table_entry (e + 342) ltac:(lia)) as [s2 [s2x [E [R2 R2x]]]]. rewrite E in Run.
  exists s2, s2x. split; [exact E|]. cbv zeta.
  set (s1 := m * 2 ^ leading_zeros 64 m) in *.
  unfold nf_stage in Run.
  set (hi := s1 * s2 / W64) in *.
  assert (L9 : Z.land hi 511 = hi mod 512) by (change 511 with (Z.ones 9); rewrite Z.land_ones by lia; reflexivity).
  pose proof (Z.mod_pos_bound hi 512 ltac:(lia)) as MB.
  destruct (Z.ltb_spec ((Z.land hi 511 - 1) mod W64) 510) as [C1|C1]; [discriminate|].
  destruct (Z.eqb_spec (((s1 * s2) mod W64 + s1 * s2x / W64) mod W64) (W64 - 1)) as [Ea|Na].
  - split; [exact Ea|]. rewrite L9 in *.
    destruct (Z.eq_dec (hi mod 512) 0) as [Z0|NZ]; [left; exact Z0|right].
    rewrite Z.mod_small in C1 by (unfold W64; lia). lia.
  - destruct (1 <? ((s1 * s2) mod W64 + s1 * s2x / W64) mod W64 + 1); discriminate.
Qed.

(* non-vacuity: the path is taken and decides *)
Example normal_fast_runs : parse_floating_normal_fast (-5) 12345678901234567 = Some (Some 4772899269882697854).
Proof. vm_compute. reflexivity. Qed.

(* ---------- the same statement against the oracle of the correspondence run (Spec.Num.round_pos) ---------- *)
Lemma ndigits_f_bound : forall fuel m, 0 <= ndigits_f fuel m <= Z.of_nat fuel.
Proof.
  induction fuel as [|f IH]; intros m; cbn [ndigits_f]; [lia|].
  destruct (m <=? 0); [lia|]. specialize (IH (m / 10)). lia.
Qed.
Lemma ndigits_bound : forall m, 1 <= m < W64 -> 0 <= ndigits m <= 65.
Proof.
  intros m Hm. unfold ndigits. pose proof (ndigits_f_bound (S (Z.to_nat (Z.log2 m))) m) as B.
  assert (Z.log2 m < 64) by (apply Z.log2_lt_pow2; [lia|exact (proj2 Hm)]). pose proof (Z.log2_nonneg m). lia.
Qed.

(* the binade of a positive rational, characterised with non-negative exponents (-1200 <= E) *)
Lemma binade_unique : forall num den E, 0 < num -> 0 < den -> -1200 <= E ->
  den * 2 ^ (E + 1200) <= num * 2 ^ 1200 < den * 2 ^ (E + 1201) -> binade num den = E.
Proof.
  intros num den E Hn Hd HE [L U].
  destruct (binade_correct num den Hn Hd) as [Bp Bn]. cbv zeta in Bp, Bn. set (B := binade num den) in *.
  assert (P12 : 0 < 2 ^ 1200) by (apply Z.pow_pos_nonneg; lia).
  (* scaled form of what binade_correct says *)
  assert (S : -1200 <= B -> den * 2 ^ (B + 1200) <= num * 2 ^ 1200 < den * 2 ^ (B + 1201)).
  { intros HB. destruct (Z_lt_le_dec B 0) as [Neg|Pos].
    - specialize (Bn Neg). assert (E1 : 2 ^ 1200 = 2 ^ (B + 1200) * 2 ^ (- B)) by (rewrite <- Z.pow_add_r by lia; f_equal; lia).
      assert (E2 : 2 ^ (B + 1201) = 2 * 2 ^ (B + 1200)) by (rewrite <- Z.pow_succ_r by lia; f_equal; lia).
      assert (Pb : 0 < 2 ^ (B + 1200)) by (apply Z.pow_pos_nonneg; lia).
      rewrite E1, E2. split; nia.
    - specialize (Bp Pos). assert (E1 : 2 ^ (B + 1200) = 2 ^ B * 2 ^ 1200) by (rewrite <- Z.pow_add_r by lia; f_equal; lia).
      assert (E2 : 2 ^ (B + 1201) = 2 ^ (B + 1) * 2 ^ 1200) by (rewrite <- Z.pow_add_r by lia; f_equal; lia).
      rewrite E1, E2. split; nia. }
  destruct (Z_lt_le_dec B (-1200)) as [Low|Ok].
  - (* B < -1200 <= E: num/den < 2^(B+1) <= 2^-1200 *)
    exfalso. specialize (Bn ltac:(lia)).
    assert (M : 2 ^ 1201 <= 2 ^ (- B)) by (apply Z.pow_le_mono_r; lia).
    assert (M2 : 2 ^ 1201 = 2 * 2 ^ 1200) by (rewrite <- Z.pow_succ_r by lia; reflexivity).
    assert (Q : 1 <= 2 ^ (E + 1200)) by (apply Z.lt_pred_le; apply Z.pow_pos_nonneg; lia).
    assert (K1 : num * (2 * 2 ^ 1200) <= num * 2 ^ (- B)) by (apply Z.mul_le_mono_nonneg_l; lia).
    assert (K2 : den * 1 <= den * 2 ^ (E + 1200)) by (apply Z.mul_le_mono_nonneg_l; lia).
    lia.
  - specialize (S Ok). destruct S as [SL SU].
    destruct (Z.lt_trichotomy B E) as [Lt|[Eq|Gt]]; [exfalso|exact Eq|exfalso].
    + assert (M : 2 ^ (B + 1201) <= 2 ^ (E + 1200)) by (apply Z.pow_le_mono_r; lia). nia.
    + assert (M : 2 ^ (E + 1201) <= 2 ^ (B + 1200)) by (apply Z.pow_le_mono_r; lia). nia.
Qed.

(* num / den of Spec.Num.round_pos *)
Definition rp_num (m e : Z) : Z := if 0 <=? e then m * 10 ^ e else m.
Definition rp_den (e : Z) : Z := if 0 <=? e then 1 else 10 ^ (- e).
Lemma rp_scaled : forall m e, -400 <= e -> rp_num m e * 10 ^ 400 = m * 10 ^ (e + 400) * rp_den e.
Proof.
  intros m e He. unfold rp_num, rp_den. destruct (Z.leb_spec 0 e).
  - rewrite Z.pow_add_r by lia. ring.
  - replace (10 ^ 400) with (10 ^ (e + 400) * 10 ^ (- e)) by (rewrite <- Z.pow_add_r by lia; f_equal; lia). ring.
Qed.

Theorem normal_fast_agrees_with_oracle : forall e m raw, -307 < e < 288 -> 1 <= m < W64 ->
  parse_floating_normal_fast e m = Some (Some raw) -> round_pos m e = Bits raw.
Proof.
  intros e m raw He Hm Run.
  destruct (normal_fast_core e m raw He Hm Run) as [H [RH [Blk Eraw]]].
  destruct (normal_fast_correctly_rounded e m raw He Hm Run) as [E [RE Main]]. cbv zeta in Main. destruct Main as [Rq Asm].
  (* E is determined by H: recompute it as in the main theorem *)
  destruct (tab_fact e ltac:(lia)) as [s2 [s2x [Ei [R2 [R2x [HD Terr]]]]]].
  destruct (leading_zeros_range m ltac:(unfold W64 in *; lia)) as [Rlz Rn].
  set (lz := leading_zeros 64 m) in *. set (N := tab_N e) in *. set (D := tab_D e) in *.
  assert (Fr : -1020 <= (217706 * e) / 65536 <= 954) by (clear - He; Z.div_mod_to_equations; lia).
  assert (Rx : -1148 <= F10 e - lz <= 1100) by (rewrite F10_split; lia).
  destruct (nf_tail_is_assemble H (F10 e - lz) RH Rx) as [Rq' Asm']. cbv zeta in Asm'.
  set (lz' := if H <? 9223372036854775808 then 1 else 0) in *.
  assert (Vz : lz' = 0 \/ lz' = 1) by (unfold lz'; destruct (H <? 9223372036854775808); auto).
  set (E0 := F10 e - lz - lz' + 1150) in *.
  assert (RE0 : 1 <= E0 <= 2045) by (unfold E0; rewrite F10_split; lia).
  set (t := E0 - 1075).
  set (r := 11 - lz').
  (* the exact value lies in the binade [2^(t+52), 2^(t+53)) *)
  set (VN := m * 10 ^ (e + 400) * 2 ^ 1200). set (VD := 10 ^ 400 * 2 ^ (t + 1200)).
  assert (P400 : 0 < 10 ^ 400) by (apply Z.pow_pos_nonneg; lia).
  assert (Pe : 0 < 10 ^ (e + 400)) by (apply Z.pow_pos_nonneg; lia).
  assert (P12 : 0 < 2 ^ 1200) by (apply Z.pow_pos_nonneg; lia).
  assert (Pt : 0 < 2 ^ (t + 1200)) by (apply Z.pow_pos_nonneg; unfold t; lia).
  assert (Pr : 0 < 2 ^ r) by (apply Z.pow_pos_nonneg; unfold r; lia).
  assert (DnP : 0 < D * (W64 * W64)) by (unfold W64; lia).
  pose proof (tab_exact_fact e ltac:(lia)) as Tab. fold N D in Tab.
  assert (Id : (m * 2 ^ lz * N) * VD = VN * (D * (W64 * W64) * 2 ^ r)).
  { unfold VD, VN. apply (scaled_identity m lz e ((217706 * e) / 65536) t r N D); unfold t, r, E0; try lia; rewrite ?F10_split; lia. }
  set (X := m * 2 ^ lz * N) in *. set (Dn := D * (W64 * W64)) in *.
  assert (Hn : 2 ^ (63 - lz') <= H < 2 ^ (64 - lz')).
  { unfold lz'. destruct (Z.ltb_spec H 9223372036854775808); cbn; unfold W64 in *; lia. }
  assert (BlkP : 2 ^ (63 - lz') * Dn < X < 2 ^ (64 - lz') * Dn).
  { destruct Blk as [B1 B2]. fold X Dn in B1, B2.
    assert (Q12 : 2 ^ (63 - lz') <= H / 512 * 512 /\ (H / 512 + 1) * 512 <= 2 ^ (64 - lz')).
    { clear - Vz Hn. destruct Vz as [V|V]; rewrite V in *.
      - change (2 ^ (63 - 0)) with 9223372036854775808 in *. change (2 ^ (64 - 0)) with 18446744073709551616 in *. Z.div_mod_to_equations. lia.
      - change (2 ^ (63 - 1)) with 4611686018427387904 in *. change (2 ^ (64 - 1)) with 9223372036854775808 in *. Z.div_mod_to_equations. lia. }
    destruct Q12 as [Q1 Q2].
    split; [apply Z.le_lt_trans with (H / 512 * 512 * Dn); [apply Z.mul_le_mono_nonneg_r; lia|exact B1]
           |apply Z.lt_le_trans with ((H / 512 + 1) * 512 * Dn); [exact B2|apply Z.mul_le_mono_nonneg_r; lia]]. }
  assert (Bin : VD * 2 ^ 52 < VN /\ VN < VD * 2 ^ 53).
  { destruct BlkP as [B1 B2].
    assert (E1 : 2 ^ (63 - lz') = 2 ^ 52 * 2 ^ r) by (unfold r; rewrite <- Z.pow_add_r by lia; f_equal; lia).
    assert (E2 : 2 ^ (64 - lz') = 2 ^ 53 * 2 ^ r) by (unfold r; rewrite <- Z.pow_add_r by lia; f_equal; lia).
    rewrite E1 in B1. rewrite E2 in B2.
    assert (VDp : 0 < VD) by (unfold VD; lia).
    assert (PDr : 0 < Dn * 2 ^ r) by (apply Z.mul_pos_pos; lia).
    set (R := 2 ^ r) in *. set (c52 := 2 ^ 52) in *. set (c53 := 2 ^ 53) in *.
    clearbody R c52 c53 VN VD X Dn. clear - B1 B2 Id VDp PDr.
    split.
    - apply Z.mul_lt_mono_pos_r with (Dn * R); [exact PDr|].
      rewrite <- Id. replace (VD * c52 * (Dn * R)) with (c52 * R * Dn * VD) by ring.
      apply Z.mul_lt_mono_pos_r; [exact VDp|exact B1].
    - apply Z.mul_lt_mono_pos_r with (Dn * R); [exact PDr|].
      rewrite <- Id. replace (VD * c53 * (Dn * R)) with (c53 * R * Dn * VD) by ring.
      apply Z.mul_lt_mono_pos_r; [exact VDp|exact B2]. }
  (* E of the main theorem is E0: both assemble to raw; we only need E0 below *)
  clear E RE Rq Asm.
  assert (Q : rhu H = nearest_scaled m e t).
  { unfold nearest_scaled. fold VN VD. unfold rhu.
    assert (X0 : 0 <= X) by (destruct BlkP as [B1 _]; assert (0 <= 2 ^ (63 - lz') * Dn) by (apply Z.mul_nonneg_nonneg; [apply Z.pow_nonneg|]; lia); lia).
    assert (VN0 : 0 <= VN) by (unfold VN; apply Z.mul_nonneg_nonneg; [apply Z.mul_nonneg_nonneg|]; lia).
    assert (VDp : 0 < VD) by (unfold VD; lia).
    destruct (Z.ltb_spec H 9223372036854775808) as [L|L].
    - assert (Ez : lz' = 1) by (unfold lz'; destruct (Z.ltb_spec H 9223372036854775808); lia).
      assert (Er : r = 10) by (unfold r; lia). rewrite Er in Id.
      rewrite <- (round_at_10 X Dn H DnP ltac:(lia) Blk). apply rne_div_ratio; [exact X0|lia|exact VN0|exact VDp|].
      change 1024 with (2 ^ 10). exact Id.
    - assert (Ez : lz' = 0) by (unfold lz'; destruct (Z.ltb_spec H 9223372036854775808); lia).
      assert (Er : r = 11) by (unfold r; lia). rewrite Er in Id.
      rewrite <- (round_at_11 X Dn H DnP ltac:(lia) Blk). apply rne_div_ratio; [exact X0|lia|exact VN0|exact VDp|].
      change 2048 with (2 ^ 11). exact Id. }
  (* the oracle *)
  unfold round_pos. pose proof (ndigits_bound m Hm) as Nd.
  destruct (Z.ltb_spec 400 (e + ndigits m)); [lia|]. destruct (Z.ltb_spec (e + ndigits m) (-400)); [lia|].
  fold (rp_num m e) (rp_den e). set (num := rp_num m e). set (den := rp_den e).
  assert (Hnum : 0 < num).
  { unfold num, rp_num. clear - Hm He. destruct (Z.leb_spec 0 e); [apply Z.mul_pos_pos; [lia|apply Z.pow_pos_nonneg; lia]|lia]. }
  assert (Hden : 0 < den).
  { unfold den, rp_den. clear - He. destruct (Z.leb_spec 0 e); [lia|apply Z.pow_pos_nonneg; lia]. }
  pose proof (rp_scaled m e ltac:(lia)) as RS. fold num den in RS.
  (* binade of num/den is t + 52 *)
  assert (Bd : binade num den = t + 52).
  { apply binade_unique; [exact Hnum|exact Hden|unfold t; lia|].
    destruct Bin as [B1 B2]. unfold VN, VD in B1, B2.
    assert (E1 : 2 ^ (t + 52 + 1200) = 2 ^ (t + 1200) * 2 ^ 52) by (rewrite <- Z.pow_add_r by (unfold t; lia); f_equal; lia).
    assert (E2 : 2 ^ (t + 52 + 1201) = 2 ^ (t + 1200) * 2 ^ 53) by (rewrite <- Z.pow_add_r by (unfold t; lia); f_equal; lia).
    rewrite E1, E2.
    (* multiply the claim by 10^400 and use num * 10^400 = m 10^(e+400) den *)
    set (P4 := 10 ^ 400) in *. set (Pe4 := 10 ^ (e + 400)) in *. set (T12 := 2 ^ (t + 1200)) in *. set (C12 := 2 ^ 1200) in *.
    set (c52 := 2 ^ 52) in *. set (c53 := 2 ^ 53) in *.
    clearbody P4 Pe4 T12 C12 c52 c53. clear - B1 B2 RS P400 Hden.
    split.
    - apply Z.mul_le_mono_pos_r with P4; [exact P400|].
      replace (num * C12 * P4) with (num * P4 * C12) by ring. rewrite RS.
      replace (den * (T12 * c52) * P4) with (den * (P4 * T12 * c52)) by ring.
      replace (m * Pe4 * den * C12) with (den * (m * Pe4 * C12)) by ring.
      apply Z.mul_le_mono_nonneg_l; [lia|]. apply Z.lt_le_incl. exact B1.
    - apply Z.mul_lt_mono_pos_r with P4; [exact P400|].
      replace (num * C12 * P4) with (num * P4 * C12) by ring. rewrite RS.
      replace (den * (T12 * c53) * P4) with (den * (P4 * T12 * c53)) by ring.
      replace (m * Pe4 * den * C12) with (den * (m * Pe4 * C12)) by ring.
      apply Z.mul_lt_mono_pos_l; [exact Hden|]. exact B2. }
  rewrite round_rat_uses_binade. cbv zeta. rewrite Bd.
  change (1 - 1023) with (-1022). destruct (Z.ltb_spec (t + 52) (-1022)); [unfold t in *; lia|].
  change (53 - 1) with 52. replace (t + 52 - 52) with t by lia.
  (* the quotient of the oracle is nearest_scaled *)
  assert (Qs : (if 0 <=? t then rne_div num (den * 2 ^ t) else rne_div (num * 2 ^ (- t)) den) = nearest_scaled m e t).
  { unfold nearest_scaled. fold VN VD.
    assert (VN0 : 0 <= VN) by (unfold VN; apply Z.mul_nonneg_nonneg; [apply Z.mul_nonneg_nonneg|]; lia).
    assert (VDp : 0 < VD) by (unfold VD; lia).
    destruct (Z.leb_spec 0 t) as [Tp|Tn].
    - apply rne_div_ratio; [lia|apply Z.mul_pos_pos; [lia|apply Z.pow_pos_nonneg; lia]|exact VN0|exact VDp|].
      unfold VN, VD. replace (2 ^ (t + 1200)) with (2 ^ t * 2 ^ 1200) by (rewrite <- Z.pow_add_r by lia; reflexivity).
      transitivity (num * 10 ^ 400 * (2 ^ t * 2 ^ 1200)); [ring|]. rewrite RS. ring.
    - apply rne_div_ratio; [apply Z.mul_nonneg_nonneg; [lia|apply Z.pow_nonneg; lia]|exact Hden|exact VN0|exact VDp|].
      unfold VN, VD. replace (2 ^ 1200) with (2 ^ (t + 1200) * 2 ^ (- t)) by (rewrite <- Z.pow_add_r by (unfold t in *; lia); f_equal; lia).
      transitivity (num * 10 ^ 400 * (2 ^ (t + 1200) * 2 ^ (- t))); [ring|]. rewrite RS. ring. }
  rewrite Qs, <- Q.
  rewrite Eraw, Asm'. fold E0. unfold assemble. change (2 ^ 53) with 9007199254740992. change (2 ^ 52) with 4503599627370496.
  destruct (Z.eqb_spec (rhu H) 9007199254740992) as [Ov|Nov].
  - destruct (Z.ltb_spec 1023 (t + 52 + 1)); [unfold t in *; lia|]. f_equal. unfold t. lia.
  - destruct (Z.ltb_spec 1023 (t + 52)); [unfold t in *; lia|]. f_equal. unfold t. lia.
Qed.
