From Coq Require Import List Arith Lia Bool.
Import ListNotations.

Section ObjEq.
Variable key val : Type.
Variable keq : forall a b : key, {a = b} + {a <> b}.
Variable veq : val -> val -> bool.                     (* equality of member values (recursively Value::eq) *)
Hypothesis veq_sym : forall a b, veq a b = veq b a.

Fixpoint get (ps : list (key * val)) (k : key) : option val :=
  match ps with [] => None | (k', v) :: r => if keq k' k then Some v else get r k end.
Definition oeq (a b : option val) : bool := match a, b with Some x, Some y => veq x y | None, None => true | _, _ => false end.

(* value/object.rs: impl PartialEq for Object *)
Definition obj_eq (a b : list (key * val)) : bool :=
  Nat.eqb (length a) (length b) && forallb (fun p => oeq (get b (fst p)) (get a (fst p))) a.

Lemma get_in : forall ps k, In k (map fst ps) <-> get ps k <> None.
Proof.
  induction ps as [|[k' v] r IH]; intros k; cbn [map fst In get]; [tauto|].
  destruct (keq k' k) as [->|Hne]; [split; [discriminate|auto]|]. rewrite <- IH. tauto.
Qed.

Lemma oeq_sym : forall x y, oeq x y = oeq y x.
Proof. intros [x|] [y|]; cbn; auto. Qed.

(* every key of a is a key of b (with an equal value), the lengths agree and there are no duplicates:
   then the key sets coincide (pigeonhole), so the same holds from b's side *)
Theorem obj_eq_sym : forall a b, NoDup (map fst a) -> NoDup (map fst b) -> obj_eq a b = true -> obj_eq b a = true.
Proof.
  intros a b Na Nb H. unfold obj_eq in *. apply andb_true_iff in H. destruct H as [Hl Hall].
  apply Nat.eqb_eq in Hl. apply andb_true_iff. split; [apply Nat.eqb_eq; lia|].
  rewrite forallb_forall in Hall.
  assert (Hincl : incl (map fst a) (map fst b)).
  { intros k Hk. apply in_map_iff in Hk. destruct Hk as ([k' v] & <- & Hin). specialize (Hall _ Hin). cbn [fst] in *.
    apply get_in. intros E. rewrite E in Hall. assert (get a k' <> None) by (apply get_in, in_map_iff; exists (k', v); auto).
    destruct (get a k'); [discriminate|congruence]. }
  assert (Hincl' : incl (map fst b) (map fst a)).
  { apply NoDup_length_incl; [exact Na| rewrite !map_length; lia | exact Hincl]. }
  apply forallb_forall. intros [k v] Hin. cbn [fst].
  assert (Hk : In k (map fst a)) by (apply Hincl', in_map_iff; exists (k, v); auto).
  apply in_map_iff in Hk. destruct Hk as ([k2 v2] & E & Hin2). cbn [fst] in E. subst k2.
  specialize (Hall _ Hin2). cbn [fst] in Hall. now rewrite oeq_sym.
Qed.
End ObjEq.

(* with a duplicate name it is not symmetric: {"a":1,"a":2} vs {"a":1,"b":2}  (F7) *)
Example obj_eq_asym :
  let a := [(0, 1); (0, 2)] in let b := [(0, 1); (1, 2)] in
  obj_eq nat nat Nat.eq_dec Nat.eqb a b = true /\ obj_eq nat nat Nat.eq_dec Nat.eqb b a = false.
Proof. split; reflexivity. Qed.
Print Assumptions obj_eq_sym.
