(* Model/ManyBuild.v -- PointerTree::add_path (src/pointer/tree.rs): paths are added one by one, each with
   the next result index; common prefixes are shared; repeated paths are allowed.  The slots of the tree
   built from a list of paths are exactly (index i, i-th path), one per added path, and sibling keys
   stay distinct (which is what the slot-soundness theorem of Model/Many.v needs from the tree).
   C11: "one slot per added path in insertion order", "repeated paths receive identical results". *)
From Coq Require Import List Arith Lia Bool Permutation.
From SonicV Require Import Model.Many Model.ManyComplete.
Import ListNotations.

Section Build.
Variable key : Type.
Variable keq : forall a b : key, {a = b} + {a <> b}.
Notation trie := (Many.trie key).
Notation Node := (Many.Node key).
Notation slots := (Many.slots key).
Notation kslots := (Many.kslots key).

Definition empty : trie := Node [] [].

Fixpoint set_kid (ks : list (key * trie)) (k : key) (f : trie -> trie) : list (key * trie) :=
  match ks with
  | [] => [(k, f empty)]                                   (* entry(k).or_insert(default) *)
  | (k', c) :: r => if keq k' k then (k', f c) :: r else (k', c) :: set_kid r k f
  end.

Fixpoint add (p : list key) (id : nat) (t : trie) : trie :=
  match p, t with
  | [], Many.Node _ o ks => Node (o ++ [id]) ks            (* cur.order.push(order) *)
  | k :: p', Many.Node _ o ks => Node o (set_kid ks k (add p' id))
  end.

Definition build_from (paths : list (list key)) (st : trie * nat) : trie * nat :=
  fold_left (fun s p => (add p (snd s) (fst s), S (snd s))) paths st.
Definition build (paths : list (list key)) : trie := fst (build_from paths (empty, 0)).

Lemma slots_node : forall o ks, slots (Node o ks) = map (fun q => (q, [])) o ++ kslots ks.
Proof. reflexivity. Qed.
Lemma kslots_cons : forall k c r, kslots ((k, c) :: r) = map (fun s => (fst s, k :: snd s)) (slots c) ++ kslots r.
Proof. reflexivity. Qed.

Theorem slots_add : forall p id t, Permutation (slots (add p id t)) ((id, p) :: slots t).
Proof.
  induction p as [|k p IH]; intros id [o ks]; cbn [add]; rewrite !slots_node.
  - rewrite map_app. cbn [map]. rewrite <- app_assoc. cbn [app].
    apply Permutation_sym. apply Permutation_middle.
  - (* the slot goes below kid k *)
    assert (G : forall ks, Permutation (kslots (set_kid ks k (add p id))) ((id, k :: p) :: kslots ks)).
    { induction ks0 as [|[k' c] r IHr]; cbn [set_kid].
      - rewrite kslots_cons. change (kslots []) with (@nil (nat * list key)). rewrite app_nil_r.
        assert (E : slots empty = []) by reflexivity.
        pose proof (Permutation_map (fun s : nat * list key => (fst s, k :: snd s)) (IH id empty)) as P. rewrite E in P. exact P.
      - destruct (keq k' k) as [-> | NE].
        + rewrite !kslots_cons.
          pose proof (Permutation_map (fun s : nat * list key => (fst s, k :: snd s)) (IH id c)) as P. cbn [map fst snd] in P.
          apply (Permutation_app_tail (kslots r)) in P. exact P.
        + rewrite !kslots_cons. apply Permutation_trans with (map (fun s : nat * list key => (fst s, k' :: snd s)) (slots c) ++ (id, k :: p) :: kslots r).
          * apply Permutation_app_head. exact IHr.
          * apply Permutation_sym. apply Permutation_middle. }
    apply Permutation_trans with (map (fun q => (q, [])) o ++ (id, k :: p) :: kslots ks).
    + apply Permutation_app_head. apply G.
    + apply Permutation_sym. apply Permutation_middle.
Qed.

(* sibling keys are distinct, at every level *)
Inductive wf_trie : trie -> Prop :=
| wf_node o ks : NoDup (map fst ks) -> Forall (fun kc => wf_trie (snd kc)) ks -> wf_trie (Node o ks).

Lemma set_kid_keys : forall ks k f, map fst (set_kid ks k f) = if in_dec keq k (map fst ks) then map fst ks else map fst ks ++ [k].
Proof.
  induction ks as [|[k' c] r IH]; intros k f; cbn [set_kid map fst].
  - destruct (in_dec keq k []) as [[]|_]. reflexivity.
  - destruct (keq k' k) as [-> | NE]; cbn [map fst].
    + destruct (in_dec keq k (k :: map fst r)) as [_|N]; [reflexivity|exfalso; apply N; left; reflexivity].
    + rewrite IH. destruct (in_dec keq k (map fst r)) as [I|N]; destruct (in_dec keq k (k' :: map fst r)) as [I'|N']; try reflexivity.
      * exfalso. apply N'. right. exact I.
      * exfalso. destruct I' as [E|I']; [congruence|contradiction].
Qed.

Lemma nodup_snoc : forall (l : list key) k, NoDup l -> ~ In k l -> NoDup (l ++ [k]).
Proof.
  induction l as [|x r IH]; intros k ND NI; cbn [app]; [constructor; [intros []|constructor]|].
  inversion ND as [|? ? Hx Hr]; subst. constructor.
  - intros Hin. apply in_app_or in Hin. destruct Hin as [Hin|[E|[]]]; [contradiction|]. apply NI. left. symmetry. exact E.
  - apply IH; [exact Hr|]. intros Hin. apply NI. right. exact Hin.
Qed.

Lemma wf_empty : wf_trie empty. Proof. constructor; constructor. Qed.

Lemma set_kid_wf : forall ks k f, (forall c, wf_trie c -> wf_trie (f c)) ->
  Forall (fun kc : key * trie => wf_trie (snd kc)) ks -> Forall (fun kc : key * trie => wf_trie (snd kc)) (set_kid ks k f).
Proof.
  induction ks as [|[k' c] r IH]; intros k f Hf FA; cbn [set_kid].
  - constructor; [cbn [snd]; apply Hf; exact wf_empty|constructor].
  - inversion FA as [|? ? Hc Hr]; subst. destruct (keq k' k) as [-> | NE]; constructor; cbn [snd] in *; auto.
Qed.

Theorem add_wf : forall p id t, wf_trie t -> wf_trie (add p id t).
Proof.
  induction p as [|k p IH]; intros id t W; inversion W as [o ks ND FA]; subst; cbn [add]; constructor; try assumption.
  - rewrite set_kid_keys. destruct (in_dec keq k (map fst ks)) as [I|N]; [exact ND|].
    apply nodup_snoc; assumption.
  - apply set_kid_wf; [intros c Hc; apply IH; exact Hc|exact FA].
Qed.

Lemma build_from_spec : forall paths t n,
  Permutation (slots (fst (build_from paths (t, n)))) (combine (seq n (length paths)) paths ++ slots t) /\
  snd (build_from paths (t, n)) = n + length paths /\ (wf_trie t -> wf_trie (fst (build_from paths (t, n)))).
Proof.
  induction paths as [|p r IH]; intros t n; cbn [build_from fold_left length seq combine fst snd app].
  - repeat split; [apply Permutation_refl|lia|auto].
  - fold (build_from r (add p n t, S n)). destruct (IH (add p n t) (S n)) as (P & L & W). repeat split.
    + eapply Permutation_trans; [exact P|]. apply Permutation_trans with (combine (seq (S n) (length r)) r ++ (n, p) :: slots t).
      * apply Permutation_app_head. apply slots_add.
      * apply Permutation_sym. apply (Permutation_middle ((n, p) :: nil ++ combine (seq (S n) (length r)) r)%list) || (cbn [app]; apply Permutation_middle).
    + rewrite L. lia.
    + intros Wt. apply W. apply add_wf. exact Wt.
Qed.

(* the tree built from a list of paths: one slot per path, slot i for the i-th path; distinct sibling keys *)
Theorem build_slots : forall paths, Permutation (slots (build paths)) (combine (seq 0 (length paths)) paths) /\ wf_trie (build paths).
Proof.
  intros paths. destruct (build_from_spec paths empty 0) as (P & _ & W). split; [|apply W; exact wf_empty].
  unfold build. change (slots empty) with (@nil (nat * list key)) in P. rewrite app_nil_r in P. exact P.
Qed.

(* ---------- the built tree meets the premises of the completeness theorem ---------- *)
Notation cwf := (ManyComplete.wf key).
Notation need := (ManyComplete.need key).

Lemma add_need : forall p id t, need (add p id t) = S (need t).
Proof. intros p id t. unfold ManyComplete.need. rewrite (Permutation_length (slots_add p id t)). reflexivity. Qed.

Lemma cwf_empty : cwf empty. Proof. constructor; constructor. Qed.

Theorem add_cwf : forall p id t, cwf t -> cwf (add p id t).
Proof.
  induction p as [|k p IH]; intros id t W; inversion W as [o ks ND FA]; subst; cbn [add]; constructor; try assumption.
  - rewrite set_kid_keys. destruct (in_dec keq k (map fst ks)) as [I|N]; [exact ND|]. apply nodup_snoc; assumption.
  - clear ND W. induction FA as [|[k' c] r [Wc Pc] Hr IHr]; cbn [set_kid].
    + constructor; [cbn [snd]; split; [apply IH; exact cwf_empty|rewrite add_need; lia]|constructor].
    + destruct (keq k' k) as [-> | NE]; constructor; cbn [snd] in *; try assumption; [split; [apply IH; exact Wc|rewrite add_need; lia]|split; assumption].
Qed.

Lemma build_from_cwf : forall paths t n, cwf t -> cwf (fst (build_from paths (t, n))).
Proof.
  induction paths as [|p r IH]; intros t n W; cbn [build_from fold_left fst snd]; [exact W|].
  fold (build_from r (add p n t, S n)). apply IH. apply add_cwf. exact W.
Qed.

Lemma in_combine_seq : forall (paths : list (list key)) n i p, In (i, p) (combine (seq n (length paths)) paths) <-> (n <= i /\ nth_error paths (i - n) = Some p).
Proof.
  induction paths as [|q r IH]; intros n i p; cbn [length seq combine].
  - split; [intros []|intros [_ H]; destruct (i - n); discriminate].
  - split.
    + intros [E | Hin]; [injection E as <- <-; split; [lia|rewrite Nat.sub_diag; reflexivity]|].
      apply IH in Hin. destruct Hin as [L H]. split; [lia|]. replace (i - n) with (S (i - S n)) by lia. exact H.
    + intros [L H]. destruct (Nat.eq_dec i n) as [-> | NE].
      * rewrite Nat.sub_diag in H. injection H as <-. left. reflexivity.
      * right. apply IH. split; [lia|]. replace (i - n) with (S (i - S n)) in H by lia. exact H.
Qed.

(* C11 on the model: for a document without duplicate names and a list of paths that all resolve, the
   search over the tree built from the paths succeeds, uses up the counter exactly, and slot i holds
   exactly what single-path lookup finds for the i-th path (repeated paths included) *)
Theorem get_many_model_correct : forall (paths : list (list key)) (v : Many.jv key),
  Many.dupfree key v -> (forall p, In p paths -> Many.lookup key keq v p <> None) ->
  exists fuel out', Many.rec key keq fuel (build paths) v (fun _ => None) (length paths) = Some (out', 0) /\
    forall i p, nth_error paths i = Some p -> out' i = Many.lookup key keq v p.
Proof.
  intros paths v Dv Res. destruct (build_slots paths) as [P _].
  assert (Nd : need (build paths) = length paths).
  { unfold ManyComplete.need. rewrite (Permutation_length P). rewrite combine_length, seq_length. lia. }
  assert (Rs : ManyComplete.resolves key keq (build paths) v).
  { intros q path Hq. apply (Permutation_in _ P) in Hq. apply in_combine_seq in Hq. destruct Hq as [_ H]. apply Res. exact (nth_error_In _ _ H). }
  destruct (ManyComplete.rec_complete key keq (build paths) (build_from_cwf paths empty 0 cwf_empty) v (fun _ => None) (length paths) Dv Rs ltac:(lia))
    as (fuel & out' & R & _ & F).
  rewrite Nd, Nat.sub_diag in R. exists fuel, out'. split; [exact R|].
  intros i p Hi.
  assert (Hs : In (i, p) (slots (build paths))).
  { apply (Permutation_in _ (Permutation_sym P)). apply in_combine_seq. split; [lia|]. rewrite Nat.sub_0_r. exact Hi. }
  pose proof (F i p Hs) as Fi.
  destruct (proj1 (Many.get_many_sound key keq fuel) _ _ _ _ _ _ Dv R i) as [E | (path & Hp & Ev & _)]; [congruence|].
  apply (Permutation_in _ P) in Hp. apply in_combine_seq in Hp. destruct Hp as [_ Hp]. rewrite Nat.sub_0_r in Hp.
  rewrite Hi in Hp. injection Hp as <-. exact Ev.
Qed.
End Build.
Print Assumptions get_many_model_correct.
