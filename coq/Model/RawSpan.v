(* Model/RawSpan.v -- the span the reference reports for an accepted text cuts out exactly the value:
   the bytes [a, b) of the input are a well-formed value with no whitespace at either edge, everything
   before and after them is whitespace (C10: "the returned raw text is precisely the source span of that
   value"; C13: "serializes back to that raw text verbatim ... reproduces the trimmed input"). *)
From Coq Require Import List NArith Arith Lia Bool.
From SonicV Require Import Spec.Ref Model.Skip Model.SkipAll Model.RefSound Model.ValueEdges.
Import ListNotations.
Open Scope N_scope.

Definition sub (l : list N) (a b : nat) : list N := firstn (b - a) (skipn a l).

Lemma sub_app : forall (w tok rest : list N), sub (w ++ tok ++ rest) (length w) (length w + length tok) = tok.
Proof.
  intros w tok rest. unfold sub. rewrite skipn_app, skipn_all, Nat.sub_diag. cbn [skipn app].
  replace (length w + length tok - length w)%nat with (length tok) by lia.
  rewrite firstn_app, firstn_all, Nat.sub_diag. cbn [firstn]. apply app_nil_r.
Qed.

Theorem reference_span_cuts_the_value : forall strict l v a b, ref_text strict l = Some (v, a, b) ->
  Value (sub l a b) /\ edge_ok (sub l a b) /\ all_ws (firstn a l) /\ all_ws (skipn b l) /\ l = firstn a l ++ sub l a b ++ skipn b l.
Proof.
  intros strict l v a b H. destruct (ref_text_sound _ _ _ _ _ H) as (w1 & tok & w2 & -> & H1 & Hv & H2 & -> & ->).
  assert (F : firstn (length w1) (w1 ++ tok ++ w2) = w1).
  { rewrite firstn_app, firstn_all, Nat.sub_diag. cbn [firstn]. apply app_nil_r. }
  assert (S : skipn (length w1 + length tok) (w1 ++ tok ++ w2) = w2).
  { rewrite app_assoc. rewrite <- app_length. rewrite skipn_app, skipn_all, Nat.sub_diag. reflexivity. }
  rewrite sub_app, F, S. repeat split; try assumption. apply value_edges; exact Hv.
Qed.

(* the same for a value found inside a document by the reference get *)
Theorem reference_get_span_cuts_a_value : forall l p a b, ref_get l p = Some (a, b) -> Value (sub l a b) /\ edge_ok (sub l a b).
Proof.
  intros l p a b H. destruct (ref_get_sound _ _ _ _ H) as (pre & tok & post & -> & -> & -> & Hv).
  rewrite sub_app. split; [exact Hv|apply value_edges; exact Hv].
Qed.
Print Assumptions reference_span_cuts_the_value.
