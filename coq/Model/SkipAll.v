(* Model/SkipAll.v -- the validating skipper (Parser::skip_one) closed over the string and number
   skippers of Model/SkipStr.v and Model/SkipNum.v (as repaired: hex digits checked), and its
   soundness against the RFC 8259 grammar for arbitrary input bytes. *)
From Coq Require Import List NArith Arith Lia Bool.
From SonicV Require Import Model.SkipStr Model.SkipNum Model.Skip.
Import ListNotations.
Open Scope N_scope.

(* a JSON string token: quote, RFC body, quote *)
Definition is_str (s : list N) : Prop := exists body, s = 34 :: body ++ [34] /\ str_body body.
Definition is_num (s : list N) : Prop := is_number s.

Definition skip_str_c (r : list N) : option (list N) := SkipStr.skip_str true (S (S (length r))) r.
Definition skip_num_c (c : N) (r : list N) : option (list N) :=
  if (c =? 45) || SkipNum.digit c then SkipNum.skip_num c r else None.

Lemma skip_str_c_sound : forall r rest, skip_str_c r = Some rest -> exists s, 34 :: r = s ++ rest /\ is_str s.
Proof.
  intros r rest H. unfold skip_str_c in H.
  destruct (skip_sound_strict _ _ _ H) as [body [E B]].
  exists (34 :: body ++ [34]). split.
  - rewrite E. cbn [app]. f_equal. rewrite <- app_assoc. reflexivity.
  - exists body. split; [reflexivity | exact B].
Qed.

Lemma skip_num_c_sound : forall c r rest, skip_num_c c r = Some rest -> exists n, c :: r = n ++ rest /\ is_num n.
Proof.
  intros c r rest H. unfold skip_num_c in H.
  destruct ((c =? 45) || SkipNum.digit c) eqn:E; [|discriminate].
  apply skip_num_sound in H; [exact H|].
  apply orb_true_iff in E. destruct E as [E|E]; [left; apply N.eqb_eq; exact E | right; exact E].
Qed.

(* the closed skipper and the grammar it is measured against *)
Definition skip_value (fuel : nat) (l : list N) : option (list N) := Skip.skip_one skip_str_c skip_num_c fuel l.
Definition Value := Skip.value is_str is_num.

Theorem skip_value_sound : forall fuel l rest, skip_value fuel l = Some rest ->
  exists w v, l = w ++ v ++ rest /\ all_ws w /\ Value v.
Proof.
  intros fuel l rest H.
  exact (proj1 (skip_sound is_str is_num skip_str_c skip_num_c skip_str_c_sound skip_num_c_sound fuel) l rest H).
Qed.

(* whole text: ws value ws *)
Definition skip_text (l : list N) : bool :=
  match skip_value (S (S (length l))) l with
  | Some rest => match Skip.ws rest with [] => true | _ => false end
  | None => false
  end.

Lemma ws_nil_all_ws : forall l, Skip.ws l = [] -> all_ws l.
Proof.
  induction l as [|c r IH]; intros H; [constructor|].
  cbn [Skip.ws] in H. destruct (is_ws c) eqn:E; [|discriminate].
  constructor; [exact E | apply IH; exact H].
Qed.

Theorem skip_text_sound : forall l, skip_text l = true -> exists w1 v w2, l = w1 ++ v ++ w2 /\ all_ws w1 /\ Value v /\ all_ws w2.
Proof.
  intros l H. unfold skip_text in H.
  destruct (skip_value (S (S (length l))) l) as [rest|] eqn:E; [|discriminate].
  destruct (Skip.ws rest) eqn:W; [|discriminate].
  destruct (skip_value_sound _ _ _ E) as [w [v [E1 [W1 V]]]].
  exists w, v, rest. repeat split; try assumption. apply ws_nil_all_ws. exact W.
Qed.
