(* Model/Meta.v -- the 64-bit packing of DOM node metadata (value/node.rs: Meta::pack_dom_node /
   unpack_dom_node) with the constants regenerated from the source. The or of disjoint fields is
   written as a sum and "mask then shift" as "mod then div" (kind below bit 3, idx in bits 3..31,
   len from bit 32); the hook meta_pack_unpack is compared with these definitions on every C03 run. *)
From Coq Require Import NArith ZArith Lia ZifyN.
From SonicV Require Import Gen.Tables.
Open Scope N_scope.

(* the layout the arithmetic reading relies on; a changed constant breaks this (T1) *)
Lemma layout : META_KIND_BITS = 3 /\ META_LEN_OFFSET = 32 /\ META_IDX_MASK = 2 ^ 32 - 8.
Proof. vm_compute. repeat split; reflexivity. Qed.

(* idx is a u32 and is shifted inside a u64: nothing is lost by the shift itself, but idx bits
   29..31 land on bits 32..34, i.e. inside the len field *)
Definition pack (kind idx len : N) : N := (kind + idx * 2 ^ META_KIND_BITS + len * 2 ^ META_LEN_OFFSET) mod 2 ^ 64.
Definition unpack_idx (w : N) : N := (w mod 2 ^ META_LEN_OFFSET) / 2 ^ META_KIND_BITS.
Definition unpack_len (w : N) : N := w / 2 ^ META_LEN_OFFSET.

Ltac Zify.zify_post_hook ::= Z.div_mod_to_equations.

(* round trip: exactly when the child index fits 29 bits and the length 32 bits *)
Theorem meta_roundtrip : forall kind idx len, kind < 8 -> idx < 2 ^ 29 -> len < 2 ^ 32 ->
  unpack_idx (pack kind idx len) = idx /\ unpack_len (pack kind idx len) = len.
Proof.
  intros kind idx len Hk Hi Hl. unfold unpack_idx, unpack_len, pack.
  destruct layout as [K [L _]]. rewrite K, L.
  change (2 ^ 3) with 8. change (2 ^ 32) with 4294967296. change (2 ^ 64) with 18446744073709551616.
  change (2 ^ 29) with 536870912 in Hi. change (2 ^ 32) with 4294967296 in Hl.
  split; lia.
Qed.

(* the guard on the input size (4 GB) admits child indices that do not fit: F14 *)
Theorem meta_roundtrip_refuted : exists kind idx len, kind < 8 /\ idx < 2 ^ 32 /\ len < 2 ^ 32 /\ unpack_idx (pack kind idx len) <> idx.
Proof. exists 4, (2 ^ 29), 0. vm_compute. repeat split; try reflexivity. discriminate. Qed.
