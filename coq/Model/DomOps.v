(* Model/DomOps.v -- the reference model of the mutable DOM: plain vectors and string-keyed maps
   (association lists without duplicate names; member order is not observable), live values as a
   list of handles, and the public Array / Object / Entry / Index / pointer / take / clone operations.
   Scalars are opaque leaves (their canonical dump). *)
From Coq Require Import List NArith Arith Bool Lia.
Import ListNotations.

Inductive tree := Leaf (d : list N) | Arr (l : list tree) | Obj (l : list (list N * tree)).
Inductive pe := Key (k : list N) | Idx (i : nat).
Definition tnull : tree := Leaf [110%N].

Fixpoint keq (a b : list N) : bool :=
  match a, b with [], [] => true | x :: a', y :: b' => N.eqb x y && keq a' b' | _, _ => false end.
Fixpoint assoc (l : list (list N * tree)) (k : list N) : option tree :=
  match l with [] => None | (k', v) :: r => if keq k' k then Some v else assoc r k end.
Fixpoint assoc_set (l : list (list N * tree)) (k : list N) (v : tree) : list (list N * tree) :=
  match l with
  | [] => [(k, v)]
  | (k', v') :: r => if keq k' k then (k', v) :: r else (k', v') :: assoc_set r k v
  end.
Fixpoint assoc_del (l : list (list N * tree)) (k : list N) : list (list N * tree) :=
  match l with [] => [] | (k', v') :: r => if keq k' k then r else (k', v') :: assoc_del r k end.

Fixpoint set_nth {A} (l : list A) (i : nat) (x : A) : list A :=
  match l, i with [], _ => [] | _ :: r, O => x :: r | y :: r, S j => y :: set_nth r j x end.
Fixpoint remove_nth {A} (l : list A) (i : nat) : list A :=
  match l, i with [], _ => [] | _ :: r, O => r | y :: r, S j => y :: remove_nth r j end.
Fixpoint insert_nth {A} (l : list A) (i : nat) (x : A) : list A :=
  match i, l with O, _ => x :: l | S j, y :: r => y :: insert_nth r j x | S _, [] => [x] end.

(* read the subtree at a path *)
Fixpoint get_at (t : tree) (p : list pe) : option tree :=
  match p with
  | [] => Some t
  | Key k :: p' => match t with Obj l => match assoc l k with Some v => get_at v p' | None => None end | _ => None end
  | Idx i :: p' => match t with Arr l => match nth_error l i with Some v => get_at v p' | None => None end | _ => None end
  end.
(* apply [f] to the subtree at a path; None when the path does not resolve or f refuses *)
Fixpoint upd_at (t : tree) (p : list pe) (f : tree -> option tree) : option tree :=
  match p with
  | [] => f t
  | Key k :: p' =>
      match t with
      | Obj l => match assoc l k with
                 | Some v => match upd_at v p' f with Some v' => Some (Obj (assoc_set l k v')) | None => None end
                 | None => None end
      | _ => None end
  | Idx i :: p' =>
      match t with
      | Arr l => match nth_error l i with
                 | Some v => match upd_at v p' f with Some v' => Some (Arr (set_nth l i v')) | None => None end
                 | None => None end
      | _ => None end
  end.

Inductive res := RUnit | RNone | RTree (t : tree) | RNat (n : nat) | RBool (b : bool) | RReject.

(* operations on the container found at (handle, path); [src] values are clones of other handles *)
Inductive cop :=
| CPush (x : tree) | CPop | CInsertAt (i : nat) (x : tree) | CRemoveAt (i : nat) | CSwapRemove (i : nat)
| CTruncate (n : nat) | CClear | CLen
| CObjInsert (k : list N) (x : tree) | CObjRemove (k : list N) | CObjGet (k : list N) | CContains (k : list N)
| CEntryOrInsert (k : list N) (x : tree) | CIndexOrInsert (k : list N) (x : tree)
| CSet (x : tree) | CTake
(* second round: the rest of the public mutation API *)
| CArrAppend (xs : list tree) | CObjAppend (ms : list (list N * tree)) | CRetainNonNull
| CSplitOff (n : nat) | CResize (n : nat) (x : tree) | CExtendWithin (a b : nat) | CDrain (a b : nat) | CSwap (i j : nat)
| CRemoveEntry (k : list N) | CEntryAndModify (k : list N) (x y : tree) | CEntryOrDefault (k : list N)
| CEntryRemove (k : list N) | CEntryInsert (k : list N) (x : tree) | CFillNulls (x : tree).

Definition non_null (t : tree) : bool := match t with Leaf d => negb (keq d [110%N]) | _ => true end.
Definition fill (x : tree) (t : tree) : tree := if non_null t then t else x.

Definition last_opt {A} (l : list A) : option A := nth_error l (length l - 1).

(* (new subtree, result); None = the implementation refuses (wrong kind, out of range): state unchanged *)
Definition apply_cop (c : cop) (t : tree) : option (tree * res) :=
  match c, t with
  | CPush x, Arr l => Some (Arr (l ++ [x]), RUnit)
  | CPop, Arr l => match last_opt l with Some x => Some (Arr (firstn (length l - 1) l), RTree x) | None => Some (Arr l, RNone) end
  | CInsertAt i x, Arr l => if i <=? length l then Some (Arr (insert_nth l i x), RUnit) else None
  | CRemoveAt i, Arr l => if i <? length l then Some (Arr (remove_nth l i), RUnit) else None
  | CSwapRemove i, Arr l =>
      match nth_error l i, last_opt l with
      | Some x, Some lastx => Some (Arr (firstn (length l - 1) (set_nth l i lastx)), RTree x)
      | _, _ => None end
  | CTruncate n, Arr l => Some (Arr (firstn n l), RUnit)
  | CClear, Arr _ => Some (Arr [], RUnit)
  | CClear, Obj _ => Some (Obj [], RUnit)
  | CLen, Arr l => Some (t, RNat (length l))
  | CLen, Obj l => Some (t, RNat (length l))
  | CObjInsert k x, Obj l => Some (Obj (assoc_set l k x), match assoc l k with Some old => RTree old | None => RNone end)
  | CObjRemove k, Obj l => Some (Obj (assoc_del l k), match assoc l k with Some old => RTree old | None => RNone end)
  | CObjGet k, Obj l => Some (t, match assoc l k with Some v => RTree v | None => RNone end)
  | CContains k, Obj l => Some (t, RBool (match assoc l k with Some _ => true | None => false end))
  | CEntryOrInsert k x, Obj l =>
      match assoc l k with Some v => Some (t, RTree v) | None => Some (Obj (assoc_set l k x), RTree x) end
  | CIndexOrInsert k x, Obj l => Some (Obj (assoc_set l k x), RUnit)
  | CIndexOrInsert k x, Leaf d => if keq d [110%N] then Some (Obj [(k, x)], RUnit) else None
  | CSet x, _ => Some (x, RUnit)
  | CTake, _ => Some (tnull, RTree t)
  | CArrAppend xs, Arr l => Some (Arr (l ++ xs), RUnit)
  | CObjAppend ms, Obj l => Some (Obj (fold_left (fun acc kv => assoc_set acc (fst kv) (snd kv)) ms l), RUnit)
  | CRetainNonNull, Arr l => Some (Arr (filter non_null l), RUnit)
  | CRetainNonNull, Obj l => Some (Obj (filter (fun kv => non_null (snd kv)) l), RUnit)
  | CSplitOff n, Arr l => if n <=? length l then Some (Arr (firstn n l), RTree (Arr (skipn n l))) else None
  | CResize n x, Arr l => Some (Arr (firstn n l ++ repeat x (n - length l)), RUnit)
  | CExtendWithin a b, Arr l => if (a <=? b) && (b <=? length l) then Some (Arr (l ++ firstn (b - a) (skipn a l)), RUnit) else None
  | CDrain a b, Arr l => if (a <=? b) && (b <=? length l) then Some (Arr (firstn a l ++ skipn b l), RTree (Arr (firstn (b - a) (skipn a l)))) else None
  | CSwap i j, Arr l => match nth_error l i, nth_error l j with
                        | Some xi, Some xj => Some (Arr (set_nth (set_nth l i xj) j xi), RUnit)
                        | _, _ => None end
  | CRemoveEntry k, Obj l => Some (Obj (assoc_del l k), match assoc l k with Some old => RTree old | None => RNone end)
  | CEntryAndModify k x y, Obj l =>
      match assoc l k with Some _ => Some (Obj (assoc_set l k x), RTree x) | None => Some (Obj (assoc_set l k y), RTree y) end
  | CEntryOrDefault k, Obj l =>
      match assoc l k with Some v => Some (t, RTree v) | None => Some (Obj (assoc_set l k tnull), RTree tnull) end
  | CEntryRemove k, Obj l =>
      match assoc l k with Some old => Some (Obj (assoc_del l k), RTree old) | None => Some (t, RNone) end
  | CEntryInsert k x, Obj l => Some (Obj (assoc_set l k x), match assoc l k with Some old => RTree old | None => RNone end)
  | CFillNulls x, Arr l => Some (Arr (map (fill x) l), RUnit)
  | CFillNulls x, Obj l => Some (Obj (map (fun kv => (fst kv, fill x (snd kv))) l), RUnit)
  | _, _ => None
  end.

Inductive op :=
| ONew (t : tree)                              (* parse / build a value *)
| OClone (h : nat) (p : list pe)               (* clone of the subtree at p *)
| ODrop (h : nat)
| OOn (h : nat) (p : list pe) (c : cop)        (* container operation at (h, p) *)
| OGet (h : nat) (p : list pe).                (* pointer read *)

Definition state := list (option tree).

Definition step (s : state) (o : op) : state * res :=
  match o with
  | ONew t => (s ++ [Some t], RUnit)
  | OClone h p =>
      match nth_error s h with
      | Some (Some t) => match get_at t p with Some v => (s ++ [Some v], RTree v) | None => (s, RNone) end
      | _ => (s, RReject) end
  | ODrop h => match nth_error s h with Some (Some _) => (set_nth s h None, RUnit) | _ => (s, RReject) end
  | OGet h p =>
      match nth_error s h with
      | Some (Some t) => (s, match get_at t p with Some v => RTree v | None => RNone end)
      | _ => (s, RReject) end
  | OOn h p c =>
      match nth_error s h with
      | Some (Some t) =>
          (* the result of the container operation, and the new tree *)
          match get_at t p with
          | None => (s, RReject)
          | Some sub =>
            match apply_cop c sub with
            | None => (s, RReject)
            | Some (sub', r) =>
              match upd_at t p (fun _ => Some sub') with
              | Some t' =>
                  (* a taken value becomes a new live value *)
                  (match c, r with
                   | CTake, RTree v => (set_nth s h (Some t') ++ [Some v], r)
                   | _, _ => (set_nth s h (Some t'), r) end)
              | None => (s, RReject) end
            end
          end
      | _ => (s, RReject) end
  end.

Fixpoint run (s : state) (os : list op) : state * list res :=
  match os with
  | [] => (s, [])
  | o :: r => let (s1, x) := step s o in let (s2, xs) := run s1 r in (s2, x :: xs)
  end.

(* ---------- properties of the reference ---------- *)
Lemma nth_error_set_nth_neq : forall A (l : list A) i j x, i <> j -> nth_error (set_nth l i x) j = nth_error l j.
Proof.
  induction l as [|y r IH]; intros i j x NE; [destruct i; reflexivity|].
  destruct i as [|i], j as [|j]; cbn [set_nth nth_error]; try reflexivity; [congruence|]. apply IH. congruence.
Qed.
Lemma set_nth_length : forall A (l : list A) i x, length (set_nth l i x) = length l.
Proof. induction l as [|y r IH]; intros [|i] x; cbn [set_nth length]; try reflexivity. f_equal. apply IH. Qed.

Definition target (o : op) : option nat :=
  match o with ONew _ => None | OClone _ _ => None | ODrop h => Some h | OOn h _ _ => Some h | OGet _ _ => None end.

(* isolation: an operation changes no live value other than the one it addresses (new values are appended) *)
Theorem step_frame : forall s o j, j < length s -> target o <> Some j -> nth_error (fst (step s o)) j = nth_error s j.
Proof.
  intros s o j Hj NT. destruct o as [t|h p|h|h p c|h p]; cbn [step target] in *.
  - cbn [fst]. apply nth_error_app1. exact Hj.
  - destruct (nth_error s h) as [[t|]|]; try reflexivity. destruct (get_at t p); cbn [fst]; [apply nth_error_app1; exact Hj | reflexivity].
  - destruct (nth_error s h) as [[t|]|]; try reflexivity. cbn [fst]. apply nth_error_set_nth_neq. congruence.
  - destruct (nth_error s h) as [[t|]|]; try reflexivity.
    destruct (get_at t p) as [sub|]; [|reflexivity].
    destruct (apply_cop c sub) as [[sub' r]|]; [|reflexivity].
    destruct (upd_at t p (fun _ => Some sub')) as [t'|]; [|reflexivity].
    assert (E : nth_error (set_nth s h (Some t')) j = nth_error s j) by (apply nth_error_set_nth_neq; congruence).
    destruct c; try exact E. destruct r; try exact E.
    cbn [fst]. rewrite nth_error_app1 by (rewrite set_nth_length; exact Hj). exact E.
  - destruct (nth_error s h) as [[t|]|]; reflexivity.
Qed.

(* operations the reference rejects leave every value as it was *)
Theorem rejected_keeps_state : forall s o, snd (step s o) = RReject -> fst (step s o) = s.
Proof.
  intros s o H. destruct o as [t|h p|h|h p c|h p]; cbn [step] in *.
  - discriminate.
  - destruct (nth_error s h) as [[t|]|]; try reflexivity. destruct (get_at t p); cbn [snd] in H; [discriminate|reflexivity].
  - destruct (nth_error s h) as [[t|]|]; try reflexivity. discriminate.
  - destruct (nth_error s h) as [[t|]|]; try reflexivity.
    destruct (get_at t p) as [sub|]; [|reflexivity].
    destruct (apply_cop c sub) as [[sub' r]|] eqn:A; [|reflexivity].
    destruct (upd_at t p (fun _ => Some sub')) as [t'|]; [|reflexivity].
    (* apply_cop never answers RReject *)
    assert (R : r <> RReject).
    { destruct c, sub; cbn [apply_cop] in A; try discriminate;
      repeat match type of A with
             | context [match ?x with _ => _ end] => destruct x
             | context [if ?x then _ else _] => destruct x
             end; try discriminate; injection A as _ <-; discriminate. }
    destruct c; try (cbn [snd] in H; congruence); try (destruct r; cbn [snd] in H; congruence).
  - destruct (nth_error s h) as [[t|]|]; reflexivity.
Qed.
