(* Model/ManySeen.v -- get_many as the code stands after the repair of F37: get_many_keys keeps the nodes of the
   pointer tree it has already walked in this object (`seen`) and steps over a member whose name selects one of
   them again. With that, every slot holds what single-path lookup finds for EVERY document - the hypothesis
   "no repeated member names" of Model/Many.v (get_many_sound) is gone. The search of Many.v (without `seen`,
   the code before the repair) is refuted on a document with a repeated name, and equals this one on documents
   without, so the completeness theorems of ManyComplete / ManyBuild carry over. *)
From Coq Require Import List Arith Lia Bool.
From SonicV Require Import Model.Many.
From SonicV Require Model.ManyBuild.
Import ListNotations.

Section GetManySeen.
Variable key : Type.
Variable keq : forall a b : key, {a = b} + {a <> b}.
Notation jv := (jv key). Notation trie := (trie key). Notation outs := (outs key).
Notation assoc := (assoc key keq). Notation lookup := (lookup key keq).
Notation slots := (slots key). Notation kslots := (kslots key). Notation upd := (upd key).

Definition mem (k : key) (l : list key) : bool := existsb (fun k' => if keq k' k then true else false) l.
Lemma mem_in : forall k l, mem k l = true <-> In k l.
Proof.
  intros k l. unfold mem. rewrite existsb_exists. split.
  - intros (k' & Hin & E). destruct (keq k' k); [subst; exact Hin|discriminate].
  - intros Hin. exists k. split; [exact Hin|]. destruct (keq k k); [reflexivity|contradiction].
Qed.

(* sibling names of a pointer-tree node are distinct (a HashMap in the code), so "the same node again" is
   "the same name again": `seen` holds names *)
Fixpoint rec2 (fuel : nat) (t : trie) (v : jv) (out : outs) (remain : nat) : option (outs * nat) :=
  match fuel with O => None | S f =>
  if Nat.eqb remain 0 then Some (out, 0) else
  match t with Node _ order kids =>
    let r1 := match kids with
              | [] => Some (out, remain)
              | _ => match v with
                     | JObj _ [] => None
                     | JObj _ ms => loop2 f kids ms [] out remain
                     | JS _ _ => None
                     end
              end in
    match r1 with
    | None => None
    | Some (out1, rem1) => Some (fold_left (fun o p => upd o p (Some v)) order out1, rem1 - length order)
    end end end
with loop2 (fuel : nat) (kids : list (key * trie)) (ms : list (key * jv)) (seen : list key) (out : outs) (remain : nat) : option (outs * nat) :=
  match fuel with O => None | S f =>
  match ms with
  | [] => Some (out, remain)
  | (k, x) :: r =>
      match (if mem k seen then None else assoc kids k) with
      | Some child => match rec2 f child x out remain with
                      | None => None
                      | Some (o', r') => if Nat.eqb r' 0 then Some (o', 0) else loop2 f kids r (k :: seen) o' r' end
      | None => loop2 f kids r seen out remain
      end
  end end.

Lemma assoc_first_occurrence : forall (pre r : list (key * jv)) k x, ~ In k (map fst pre) -> assoc (pre ++ (k, x) :: r) k = Some x.
Proof.
  induction pre as [|[k' y] pre IH]; intros r k x Hn; cbn [app Many.assoc].
  - destruct (keq k k); [reflexivity|contradiction].
  - destruct (keq k' k) as [->|]; [exfalso; apply Hn; now left|]. apply IH. intros Hin. apply Hn. now right.
Qed.

(* the members already passed whose name selects a node are all in `seen` *)
Definition seen_covers (kids : list (key * trie)) (pre : list (key * jv)) (seen : list key) : Prop :=
  forall k, In k (map fst pre) -> assoc kids k <> None -> In k seen.

Theorem get_many_sound_every_document : forall fuel,
  (forall t v out remain out' rem', rec2 fuel t v out remain = Some (out', rem') -> sound key keq (slots t) v out out') /\
  (forall kids pre ms seen out remain out' rem', seen_covers kids pre seen ->
      loop2 fuel kids ms seen out remain = Some (out', rem') -> sound key keq (kslots kids) (JObj _ (pre ++ ms)) out out').
Proof.
  induction fuel as [|f [IHr IHl]]; [split; intros; discriminate|]. split.
  - intros t v out remain out' rem' H. cbn [rec2] in H.
    destruct (Nat.eqb remain 0); [inversion H; subst; intros q; now left|].
    destruct t as [order kids].
    assert (Hr1 : forall out1 rem1, (match kids with [] => Some (out, remain) | _ => match v with JObj _ [] => None | JObj _ ms => loop2 f kids ms [] out remain | JS _ _ => None end end) = Some (out1, rem1) ->
                  sound key keq (kslots kids) v out out1).
    { intros out1 rem1 E. destruct kids as [|kc kr]; [inversion E; subst; intros q; now left|].
      destruct v as [id|ms]; [discriminate|]. destruct ms as [|m mr]; [discriminate|].
      apply (IHl (kc :: kr) [] (m :: mr) [] out remain out1 rem1); [|exact E]. intros k Hin. contradiction. }
    destruct (match kids with [] => Some (out, remain) | _ => _ end) as [[out1 rem1]|] eqn:E; [|discriminate].
    inversion H; subst. specialize (Hr1 _ _ eq_refl). intros q. rewrite fold_upd.
    destruct (existsb (Nat.eqb q) order) eqn:Ex.
    + right. exists []. split; [|split; [reflexivity|discriminate]].
      cbn [Many.slots]. apply in_or_app. left. apply existsb_exists in Ex. destruct Ex as (p & Hp & Eq). apply Nat.eqb_eq in Eq. subst. apply in_map_iff. exists p. auto.
    + destruct (Hr1 q) as [Hq|(path & Hin & Hv & Hn)]; [now left|]. right. exists path. split; [|split; assumption].
      cbn [Many.slots]. apply in_or_app. now right.
  - intros kids pre ms seen out remain out' rem' Hc H. cbn [loop2] in H.
    destruct ms as [|[k x] r]; [inversion H; subst; intros q; now left|].
    assert (Eapp : pre ++ (k, x) :: r = (pre ++ [(k, x)]) ++ r) by now rewrite <- app_assoc.
    destruct (mem k seen) eqn:Em.
    + (* the name was matched before: stepped over *)
      rewrite Eapp. eapply IHl; [|exact H].
      intros k' Hin Hk. rewrite map_app in Hin. cbn [map fst] in Hin. apply in_app_or in Hin. destruct Hin as [Hin|[<-|[]]]; [now apply Hc|]. now apply mem_in.
    + destruct (assoc kids k) as [child|] eqn:Ea.
      * assert (Hfresh : ~ In k (map fst pre)).
        { intros Hin. assert (In k seen) by (apply Hc; [exact Hin|rewrite Ea; discriminate]). apply mem_in in H0. congruence. }
        destruct (rec2 f child x out remain) as [[o1 r1]|] eqn:Er; [|discriminate].
        pose proof (IHr child x out remain o1 r1 Er) as S1.
        assert (Lift : sound key keq (kslots kids) (JObj _ (pre ++ (k, x) :: r)) out o1).
        { intros q. destruct (S1 q) as [Hq|(path & Hp & Hv & Hn)]; [now left|]. right. exists (k :: path). split; [|split; [|exact Hn]].
          - apply (kslots_in key kids k child (q, path)); [now apply (assoc_in key keq)|exact Hp].
          - cbn [Many.lookup]. rewrite (assoc_first_occurrence pre r k x Hfresh). exact Hv. }
        destruct (Nat.eqb r1 0); [inversion H; subst; exact Lift|].
        assert (Hc' : seen_covers kids (pre ++ [(k, x)]) (k :: seen)).
        { intros k' Hin Hk. rewrite map_app in Hin. cbn [map fst] in Hin. apply in_app_or in Hin. destruct Hin as [Hin|[<-|[]]]; [right; now apply Hc|now left]. }
        pose proof (IHl kids (pre ++ [(k, x)]) r (k :: seen) o1 r1 out' rem' Hc' H) as S2. rewrite <- Eapp in S2.
        intros q. destruct (S2 q) as [Hq|Hq]; [|now right]. rewrite Hq. apply Lift.
      * rewrite Eapp. eapply IHl; [|exact H].
        intros k' Hin Hk. rewrite map_app in Hin. cbn [map fst] in Hin. apply in_app_or in Hin. destruct Hin as [Hin|[<-|[]]]; [now apply Hc|]. congruence.
Qed.

Lemma loop2_S : forall f kids ms seen out remain, loop2 (S f) kids ms seen out remain =
  match ms with
  | [] => Some (out, remain)
  | (k, x) :: r =>
      match (if mem k seen then None else assoc kids k) with
      | Some child => match rec2 f child x out remain with
                      | None => None
                      | Some (o', r') => if Nat.eqb r' 0 then Some (o', 0) else loop2 f kids r (k :: seen) o' r' end
      | None => loop2 f kids r seen out remain
      end
  end.
Proof. reflexivity. Qed.
Lemma loop_S : forall f kids ms out remain, loop key keq (S f) kids ms out remain =
  match ms with
  | [] => Some (out, remain)
  | (k, x) :: r =>
      match assoc kids k with
      | Some child => match rec key keq f child x out remain with
                      | None => None
                      | Some (o', r') => if Nat.eqb r' 0 then Some (o', 0) else loop key keq f kids r o' r' end
      | None => loop key keq f kids r out remain
      end
  end.
Proof. reflexivity. Qed.
Lemma rec2_S : forall f order kids v out remain, rec2 (S f) (Node _ order kids) v out remain =
  if Nat.eqb remain 0 then Some (out, 0) else
    match (match kids with
           | [] => Some (out, remain)
           | _ => match v with JObj _ [] => None | JObj _ ms => loop2 f kids ms [] out remain | JS _ _ => None end
           end) with
    | None => None
    | Some (out1, rem1) => Some (fold_left (fun o p => upd o p (Some v)) order out1, rem1 - length order)
    end.
Proof. reflexivity. Qed.
Lemma rec_S : forall f order kids v out remain, rec key keq (S f) (Node _ order kids) v out remain =
  if Nat.eqb remain 0 then Some (out, 0) else
    match (match kids with
           | [] => Some (out, remain)
           | _ => match v with JObj _ [] => None | JObj _ ms => loop key keq f kids ms out remain | JS _ _ => None end
           end) with
    | None => None
    | Some (out1, rem1) => Some (fold_left (fun o p => upd o p (Some v)) order out1, rem1 - length order)
    end.
Proof. reflexivity. Qed.

(* on documents without repeated names `seen` never matters: the two searches coincide *)
Theorem rec2_is_rec_without_repeats : forall fuel,
  (forall t v out remain, dupfree key v -> rec2 fuel t v out remain = rec key keq fuel t v out remain) /\
  (forall kids ms seen out remain, NoDup (map fst ms) -> (forall k x, In (k, x) ms -> dupfree key x) -> (forall k, In k seen -> ~ In k (map fst ms)) ->
      loop2 fuel kids ms seen out remain = loop key keq fuel kids ms out remain).
Proof.
  induction fuel as [|f [IHr IHl]]; [split; intros; reflexivity|]. split.
  - intros t v out remain Hd. destruct t as [order kids]. rewrite rec2_S, rec_S. destruct (Nat.eqb remain 0); [reflexivity|].
    destruct kids as [|kc kr]; [reflexivity|]. destruct v as [id|ms]; [reflexivity|]. destruct ms as [|m mr]; [reflexivity|].
    inversion Hd as [|ms' Hnd Hk E]; subst. rewrite (IHl (kc :: kr) (m :: mr) [] out remain Hnd Hk); [reflexivity|]. intros k [].
  - intros kids ms seen out remain Hnd Hk Hs. rewrite loop2_S, loop_S. destruct ms as [|[k x] r]; [reflexivity|].
    assert (Em : mem k seen = false).
    { destruct (mem k seen) eqn:E; [|reflexivity]. apply mem_in in E. exfalso. apply (Hs k E). now left. }
    rewrite Em. cbn [map fst] in Hnd. inversion Hnd as [|? ? Hn Hr]; subst.
    assert (Hk' : forall k0 x0, In (k0, x0) r -> dupfree key x0) by (intros; eapply Hk; right; eassumption).
    destruct (Many.assoc key keq kids k) as [child|].
    + rewrite (IHr child x out remain (Hk k x (or_introl eq_refl))). destruct (rec key keq f child x out remain) as [[o1 r1]|]; [|reflexivity].
      destruct (Nat.eqb r1 0); [reflexivity|]. apply IHl; [exact Hr|exact Hk'|].
      intros k0 [<-|Hin]; [exact Hn|]. intros Hin2. apply (Hs k0 Hin). now right.
    + apply IHl; [exact Hr|exact Hk'|]. intros k0 Hin Hin2. apply (Hs k0 Hin). now right.
Qed.

End GetManySeen.

(* so the end-to-end statement of Model/ManyBuild.v holds for the search as the code has it now *)
Theorem get_many_seen_agrees_with_get : forall (key : Type) (keq : forall a b : key, {a = b} + {a <> b}) (paths : list (list key)) v,
  dupfree key v -> (forall p, In p paths -> lookup key keq v p <> None) ->
  exists fuel out', rec2 key keq fuel (ManyBuild.build key keq paths) v (fun _ => None) (length paths) = Some (out', 0) /\
    forall i p, nth_error paths i = Some p -> out' i = lookup key keq v p.
Proof.
  intros key keq paths v Hd Hr. destruct (ManyBuild.get_many_model_correct key keq paths v Hd Hr) as (fuel & out' & H & Hs).
  exists fuel, out'. split; [|exact Hs]. rewrite (proj1 (rec2_is_rec_without_repeats key keq fuel)); assumption.
Qed.

(* ---------- the search without `seen` (the code before the repair, Model/Many.v) is wrong on repeated names ---------- *)
Definition f37_doc : Many.jv nat := JObj _ [(0, JObj _ [(1, JS _ 1); (1, JS _ 2)]); (2, JS _ 4)].
Definition f37_tree : Many.trie nat := Node _ [] [(0, Node _ [] [(1, Node _ [0] [])]); (2, Node _ [1] [])].   (* slot 0: path 0.1, slot 1: path 2 *)

Theorem get_many_without_seen_refuted :
  exists out', rec nat Nat.eq_dec 10 f37_tree f37_doc (fun _ => None) 2 = Some (out', 0) /\
    out' 0 = Some (JS _ 2) /\ lookup nat Nat.eq_dec f37_doc [0; 1] = Some (JS _ 1) /\
    out' 1 = None /\ lookup nat Nat.eq_dec f37_doc [2] = Some (JS _ 4).
Proof. eexists. split; [vm_compute; reflexivity|]. vm_compute. repeat split. Qed.

Example get_many_with_seen_on_the_same_input :
  exists out', rec2 nat Nat.eq_dec 10 f37_tree f37_doc (fun _ => None) 2 = Some (out', 0) /\
    out' 0 = lookup nat Nat.eq_dec f37_doc [0; 1] /\ out' 1 = lookup nat Nat.eq_dec f37_doc [2].
Proof. eexists. split; [vm_compute; reflexivity|]. vm_compute. split; reflexivity. Qed.
