From Coq Require Import List NArith Arith Lia Bool.
Import ListNotations.
Open Scope N_scope.

Section RoundTrip.
(* scalars (numbers, strings, literals) and keys are tokens with their own printer/parser pair *)
Variable scalar key : Type.
Variable print_scalar : scalar -> list N.
Variable parse_scalar : list N -> option (scalar * list N).
Variable print_key : key -> list N.
Variable parse_key : list N -> option (key * list N).

Definition follow_ok (rest : list N) : Prop :=                (* what may follow a value in compact output *)
  match rest with [] => True | c :: _ => c = 44 \/ c = 93 \/ c = 125 end.
Definition structural (c : N) : bool := (c =? 91) || (c =? 93) || (c =? 123) || (c =? 125) || (c =? 44) || (c =? 58).

Hypothesis scalar_rt : forall s rest, follow_ok rest -> parse_scalar (print_scalar s ++ rest) = Some (s, rest).
Hypothesis scalar_head : forall s, exists c r, print_scalar s = c :: r /\ structural c = false.
Hypothesis key_head : forall k, exists c r, print_key k = c :: r /\ structural c = false.
Hypothesis key_rt : forall k rest, parse_key (print_key k ++ 58 :: rest) = Some (k, 58 :: rest).

Inductive jv := JS (s : scalar) | JArr (xs : list jv) | JObj (ms : list (key * jv)).

(* ---------- the compact serializer (Serializer + CompactFormatter): commas between, none after ---------- *)
Fixpoint print (v : jv) : list N :=
  match v with
  | JS s => print_scalar s
  | JArr xs => 91 :: (fix go (first : bool) (l : list jv) := match l with [] => [] | x :: r => (if first then [] else [44]) ++ print x ++ go false r end) true xs ++ [93]
  | JObj ms => 123 :: (fix go (first : bool) (l : list (key * jv)) := match l with [] => [] | (k, x) :: r => (if first then [] else [44]) ++ print_key k ++ 58 :: print x ++ go false r end) true ms ++ [125]
  end.
Definition pelems := (fix go (first : bool) (l : list jv) := match l with [] => [] | x :: r => (if first then [] else [44]) ++ print x ++ go false r end).
Definition pmembers := (fix go (first : bool) (l : list (key * jv)) := match l with [] => [] | (k, x) :: r => (if first then [] else [44]) ++ print_key k ++ 58 :: print x ++ go false r end).

(* ---------- the reference parser (Spec/RefParse.v, whitespace-free core), fuelled ---------- *)
Fixpoint parse (fuel : nat) (l : list N) : option (jv * list N) :=
  match fuel with O => None | S f =>
  match l with
  | 91 :: 93 :: r => Some (JArr [], r)
  | 91 :: r => match elems f r with Some (xs, r') => Some (JArr xs, r') | None => None end
  | 123 :: 125 :: r => Some (JObj [], r)
  | 123 :: r => match members f r with Some (ms, r') => Some (JObj ms, r') | None => None end
  | _ => match parse_scalar l with Some (s, r) => Some (JS s, r) | None => None end
  end end
with elems (fuel : nat) (l : list N) : option (list jv * list N) :=       (* at the start of an element; consumes the closing bracket *)
  match fuel with O => None | S f =>
  match parse f l with
  | Some (x, 93 :: r) => Some ([x], r)
  | Some (x, 44 :: r) => match elems f r with Some (xs, r') => Some (x :: xs, r') | None => None end
  | _ => None end end
with members (fuel : nat) (l : list N) : option (list (key * jv) * list N) :=
  match fuel with O => None | S f =>
  match parse_key l with
  | Some (k, 58 :: r) =>
      match parse f r with
      | Some (x, 125 :: r') => Some ([(k, x)], r')
      | Some (x, 44 :: r') => match members f r' with Some (ms, r'') => Some ((k, x) :: ms, r'') | None => None end
      | _ => None end
  | _ => None end end.

Fixpoint size (v : jv) : nat :=
  match v with
  | JS _ => 1%nat
  | JArr xs => (2 + (fix go (l : list jv) : nat := match l with [] => 0 | x :: r => 1 + size x + go r end) xs)%nat
  | JObj ms => (2 + (fix go (l : list (key * jv)) : nat := match l with [] => 0 | (_, x) :: r => 1 + size x + go r end) ms)%nat
  end.
Definition asize := (fix go (l : list jv) := match l with [] => 0 | x :: r => 1 + size x + go r end)%nat.
Definition osize := (fix go (l : list (key * jv)) := match l with [] => 0 | (_, x) :: r => 1 + size x + go r end)%nat.

Section Ind.
Variable P : jv -> Prop.
Hypothesis HS : forall s, P (JS s).
Hypothesis HA : forall xs, Forall P xs -> P (JArr xs).
Hypothesis HO : forall ms, Forall (fun m => P (snd m)) ms -> P (JObj ms).
Fixpoint jv_ind' (v : jv) : P v :=
  match v with
  | JS s => HS s
  | JArr xs => HA xs ((fix go l : Forall P l := match l with [] => Forall_nil _ | x :: r => Forall_cons _ (jv_ind' x) (go r) end) xs)
  | JObj ms => HO ms ((fix go l : Forall (fun m => P (snd m)) l := match l with [] => Forall_nil _ | (k, x) :: r => Forall_cons (k, x) (jv_ind' x) (go r) end) ms)
  end.
End Ind.

Definition rt (v : jv) : Prop := forall fuel rest, (size v < fuel)%nat -> follow_ok rest -> parse fuel (print v ++ rest) = Some (v, rest).

Lemma print_head : forall v, exists c r, print v = c :: r /\ c <> 93 /\ c <> 125.
Proof.
  destruct v as [s|xs|ms].
  - destruct (scalar_head s) as (c & r & E & Hc). exists c, r. split; [exact E|].
    unfold structural in Hc. repeat rewrite orb_false_iff in Hc. repeat rewrite N.eqb_neq in Hc. tauto.
  - cbn [print]. eexists _, _. split; [reflexivity|split; discriminate].
  - cbn [print]. eexists _, _. split; [reflexivity|split; discriminate].
Qed.

Lemma elems_rt : forall xs, xs <> [] -> Forall rt xs -> forall fuel rest, (asize xs < fuel)%nat ->
  elems fuel (pelems true xs ++ 93 :: rest) = Some (xs, rest).
Proof.
  induction xs as [|x r IH]; intros Hne H fuel rest Hf; [congruence|].
  inversion H as [|? ? Hx Hr]; subst. destruct fuel as [|f]; [lia|]. cbn [elems pelems app].
  destruct r as [|y r'].
  - cbn [pelems]. rewrite app_nil_r. rewrite (Hx f (93 :: rest)); [reflexivity|cbn in Hf; lia|cbn; auto].
  - assert (E : pelems false (y :: r') = 44 :: pelems true (y :: r')) by reflexivity. rewrite E.
    rewrite <- app_assoc. cbn [app]. rewrite (Hx f (44 :: pelems true (y :: r') ++ 93 :: rest)); [|cbn in Hf; lia|cbn; auto].
    rewrite IH; [reflexivity|discriminate|exact Hr|cbn in Hf |- *; lia].
Qed.

Lemma members_rt : forall ms, ms <> [] -> Forall (fun m => rt (snd m)) ms -> forall fuel rest, (osize ms < fuel)%nat ->
  members fuel (pmembers true ms ++ 125 :: rest) = Some (ms, rest).
Proof.
  induction ms as [|[k x] r IH]; intros Hne H fuel rest Hf; [congruence|].
  inversion H as [|? ? Hx Hr]; subst. cbn [snd] in Hx. destruct fuel as [|f]; [lia|]. cbn [members pmembers app].
  rewrite <- app_assoc. cbn [app]. rewrite key_rt. rewrite <- app_assoc.
  destruct r as [|[k2 y] r'].
  - cbn [pmembers app]. rewrite (Hx f (125 :: rest)); [reflexivity|cbn in Hf; lia|cbn; auto].
  - assert (E : pmembers false ((k2, y) :: r') = 44 :: pmembers true ((k2, y) :: r')) by reflexivity. rewrite E.
    cbn [app].
    rewrite (Hx f (44 :: pmembers true ((k2, y) :: r') ++ 125 :: rest)); [|cbn in Hf; lia|cbn; auto].
    rewrite IH; [reflexivity|discriminate|exact Hr|cbn in Hf |- *; lia].
Qed.

Theorem parse_print : forall v, rt v.
Proof.
  induction v using jv_ind'; intros fuel rest Hf Hfo; (destruct fuel as [|f]; [lia|]).
  - cbn [print parse]. destruct (scalar_head s) as (c & r & E & Hc). rewrite E. cbn [app].
    assert (Hs : parse_scalar (c :: r ++ rest) = Some (s, rest)) by (change (c :: r ++ rest) with ((c :: r) ++ rest); rewrite <- E; now apply scalar_rt).
    unfold structural in Hc. repeat rewrite orb_false_iff in Hc. repeat rewrite N.eqb_neq in Hc.
    destruct Hc as (((((N1 & N2) & N3) & N4) & N5) & N6).
    destruct c as [|p]; [now rewrite Hs|]. repeat (destruct p as [p|p|]; try (now rewrite Hs)); contradiction.
  - change (print (JArr xs)) with (91 :: pelems true xs ++ [93]). cbn [app parse]. rewrite <- app_assoc. cbn [app].
    destruct xs as [|x r]; [reflexivity|].
    destruct (print_head x) as (c & t & E & N1 & _).
    assert (Hp : pelems true (x :: r) ++ 93 :: rest = c :: (t ++ pelems false r) ++ 93 :: rest).
    { cbn [pelems app]. rewrite E. cbn [app]. now rewrite <- !app_assoc. }
    rewrite Hp. destruct (N.eqb_spec c 93); [contradiction|].
    assert (Hgo : elems f (c :: (t ++ pelems false r) ++ 93 :: rest) = Some (x :: r, rest)).
    { rewrite <- Hp. apply elems_rt; [discriminate|exact H|]. change (size (JArr (x :: r))) with (2 + asize (x :: r))%nat in Hf. lia. }
    destruct c as [|p]; [now rewrite Hgo|]. repeat (destruct p as [p|p|]; try (now rewrite Hgo)); contradiction.
  - change (print (JObj ms)) with (123 :: pmembers true ms ++ [125]). cbn [app parse]. rewrite <- app_assoc. cbn [app].
    destruct ms as [|[k x] r]; [reflexivity|].
    destruct (key_head k) as (c & t & E & Hc).
    assert (N1 : c <> 125) by (unfold structural in Hc; repeat rewrite orb_false_iff in Hc; repeat rewrite N.eqb_neq in Hc; tauto).
    assert (Hp : pmembers true ((k, x) :: r) ++ 125 :: rest = c :: (t ++ 58 :: print x ++ pmembers false r) ++ 125 :: rest).
    { cbn [pmembers app]. rewrite E. cbn [app]. now rewrite <- !app_assoc. }
    rewrite Hp.
    assert (Hgo : members f (c :: (t ++ 58 :: print x ++ pmembers false r) ++ 125 :: rest) = Some ((k, x) :: r, rest)).
    { rewrite <- Hp. apply members_rt; [discriminate|exact H|]. change (size (JObj ((k, x) :: r))) with (2 + osize ((k, x) :: r))%nat in Hf. lia. }
    destruct c as [|p]; [now rewrite Hgo|]. repeat (destruct p as [p|p|]; try (now rewrite Hgo)); contradiction.
Qed.
End RoundTrip.
Print Assumptions parse_print.
