(* Model/NumFlocq.v -- the exact-decimal specification (Spec/Num.v) against Flocq: the round-half-even quotient
   rne_div is Flocq's ZnearestE of the ratio, and for a positive rational in the normal range the significand
   round_rat computes, scaled by its binade, is Flocq's round-to-nearest-even in binary64
   (round radix2 (FLT_exp (-1074) 53) ZnearestE). *)
From Coq Require Import ZArith Reals Lia Lra.
From Flocq Require Import Core.Core.
From SonicV Require Import Spec.Num Model.NumSpec.
Open Scope Z_scope.

Notation fexp64 := (FLT_exp (-1074) 53).

Lemma Rcompare_ratio_half : forall r b, 0 < b -> Rcompare (IZR r / IZR b) (/ 2) = Z.compare (2 * r) b.
Proof.
  intros r b Hb.
  assert (Pb : (0 < IZR b)%R) by (apply IZR_lt; exact Hb).
  rewrite <- (Rcompare_mult_r (2 * IZR b)) by lra.
  replace (IZR r / IZR b * (2 * IZR b))%R with (IZR (2 * r)) by (rewrite mult_IZR; field; lra).
  replace (/ 2 * (2 * IZR b))%R with (IZR b) by (field; lra).
  apply Rcompare_IZR.
Qed.

Theorem ZnearestE_ratio : forall a b, 0 <= a -> 0 < b -> ZnearestE (IZR a / IZR b) = rne_div a b.
Proof.
  intros a b Ha Hb. unfold ZnearestE, Znearest, rne_div.
  assert (Pb : (0 < IZR b)%R) by (apply IZR_lt; exact Hb).
  rewrite Zfloor_div by lia.
  pose proof (Z.div_mod a b ltac:(lia)) as DM. pose proof (Z.mod_pos_bound a b Hb) as MB.
  set (q := a / b) in *. set (r := a mod b) in *.
  assert (Fr : (IZR a / IZR b - IZR q = IZR r / IZR b)%R).
  { rewrite DM at 1. rewrite plus_IZR, mult_IZR. field. lra. }
  rewrite Fr, Rcompare_ratio_half by exact Hb.
  destruct (Z.compare_spec (2 * r) b) as [E|L|G].
  - (* tie *)
    destruct (Z.ltb_spec (2 * r) b); [lia|]. destruct (Z.ltb_spec b (2 * r)); [lia|].
    assert (Nz : r <> 0) by lia.
    assert (Cl : Zceil (IZR a / IZR b) = q + 1).
    { replace (q + 1) with (Zfloor (IZR a / IZR b) + 1) by (rewrite Zfloor_div by lia; reflexivity).
      apply Zceil_floor_neq. rewrite Zfloor_div by lia. fold q. intros X.
      assert (IZR r / IZR b = 0)%R by lra. assert (IZR r = 0)%R.
      { replace (IZR r) with (IZR r / IZR b * IZR b)%R by (field; lra). rewrite H1. ring. }
      apply eq_IZR in H2. lia. }
    rewrite Cl. pose proof (Z.mod_pos_bound q 2 ltac:(lia)) as M2. pose proof (Z.div_mod q 2 ltac:(lia)) as D2.
    destruct (Z.even q) eqn:Ev; cbn [negb].
    + apply Z.even_spec in Ev. destruct Ev as [k Ek]. lia.
    + assert (Od : Z.odd q = true) by (rewrite <- Z.negb_even, Ev; reflexivity).
      apply Z.odd_spec in Od. destruct Od as [k Ek]. lia.
  - destruct (Z.ltb_spec (2 * r) b); [reflexivity|lia].
  - destruct (Z.ltb_spec (2 * r) b); [lia|]. destruct (Z.ltb_spec b (2 * r)); [|lia].
    replace (q + 1) with (Zfloor (IZR a / IZR b) + 1) by (rewrite Zfloor_div by lia; reflexivity).
    apply Zceil_floor_neq. rewrite Zfloor_div by lia. fold q. intros X.
    assert (IZR r / IZR b = 0)%R by lra. assert (IZR r = 0)%R.
    { replace (IZR r) with (IZR r / IZR b * IZR b)%R by (field; lra). rewrite H1. ring. }
    apply eq_IZR in H2. lia.
Qed.

Lemma bpow_IZR : forall e, 0 <= e -> bpow radix2 e = IZR (2 ^ e).
Proof. intros e He. rewrite <- (IZR_Zpower radix2 e He). reflexivity. Qed.

(* the binade of Spec/Num.v is Flocq's magnitude *)
Lemma binade_is_mag : forall num den, 0 < num -> 0 < den ->
  mag_val radix2 _ (mag radix2 (IZR num / IZR den)) = binade num den + 1.
Proof.
  intros num den Hn Hd. destruct (binade_correct num den Hn Hd) as [Bp Bn]. cbv zeta in Bp, Bn. set (E := binade num den) in *.
  assert (Pd : (0 < IZR den)%R) by (apply IZR_lt; exact Hd).
  apply mag_unique_pos. replace (E + 1 - 1) with E by lia.
  destruct (Z_lt_le_dec E 0) as [Neg|Pos].
  - specialize (Bn Neg). destruct Bn as [L U].
    assert (P : (0 < IZR (2 ^ (- E)))%R) by (apply IZR_lt; apply Z.pow_pos_nonneg; lia).
    assert (BE : bpow radix2 E = (/ IZR (2 ^ (- E)))%R).
    { replace E with (- (- E)) at 1 by lia. rewrite bpow_opp, bpow_IZR by lia. reflexivity. }
    assert (BE1 : bpow radix2 (E + 1) = (2 * / IZR (2 ^ (- E)))%R).
    { rewrite bpow_plus, BE. change (bpow radix2 1) with 2%R. ring. }
    rewrite BE, BE1. apply IZR_le in L. apply IZR_lt in U. rewrite mult_IZR in L, U. rewrite mult_IZR in U.
    split.
    + apply Rmult_le_reg_r with (IZR (2 ^ (- E)) * IZR den)%R; [apply Rmult_lt_0_compat; lra|].
      replace (/ IZR (2 ^ (- E)) * (IZR (2 ^ (- E)) * IZR den))%R with (IZR den) by (field; lra).
      replace (IZR num / IZR den * (IZR (2 ^ (- E)) * IZR den))%R with (IZR num * IZR (2 ^ (- E)))%R by (field; lra). exact L.
    + apply Rmult_lt_reg_r with (IZR (2 ^ (- E)) * IZR den)%R; [apply Rmult_lt_0_compat; lra|].
      replace (2 * / IZR (2 ^ (- E)) * (IZR (2 ^ (- E)) * IZR den))%R with (2 * IZR den)%R by (field; lra).
      replace (IZR num / IZR den * (IZR (2 ^ (- E)) * IZR den))%R with (IZR num * IZR (2 ^ (- E)))%R by (field; lra). exact U.
  - specialize (Bp Pos). destruct Bp as [L U].
    rewrite !bpow_IZR by lia. apply IZR_le in L. apply IZR_lt in U. rewrite mult_IZR in L, U.
    split.
    + apply Rmult_le_reg_r with (IZR den); [lra|].
      replace (IZR num / IZR den * IZR den)%R with (IZR num) by (field; lra). lra.
    + apply Rmult_lt_reg_r with (IZR den); [lra|].
      replace (IZR num / IZR den * IZR den)%R with (IZR num) by (field; lra). lra.
Qed.

Theorem round_rat_quotient_is_flocq : forall num den, 0 < num -> 0 < den -> -1022 <= binade num den ->
  let s := binade num den - 52 in
  let q := if 0 <=? s then rne_div num (den * 2 ^ s) else rne_div (num * 2 ^ (- s)) den in
  round radix2 fexp64 ZnearestE (IZR num / IZR den) = (IZR q * bpow radix2 s)%R.
Proof.
  intros num den Hn Hd HE. cbv zeta. set (E := binade num den) in *.
  assert (Pd : (0 < IZR den)%R) by (apply IZR_lt; exact Hd).
  unfold round, F2R, scaled_mantissa, cexp. cbn [Fnum Fexp].
  rewrite binade_is_mag by assumption. fold E.
  assert (Cx : fexp64 (E + 1) = E - 52) by (unfold FLT_exp; lia). rewrite Cx.
  f_equal. f_equal.
  destruct (Z.leb_spec 0 (E - 52)) as [Sp|Sn].
  - assert (P : (0 < IZR (2 ^ (E - 52)))%R) by (apply IZR_lt; apply Z.pow_pos_nonneg; lia).
    rewrite bpow_opp, bpow_IZR by lia.
    replace (IZR num / IZR den * / IZR (2 ^ (E - 52)))%R with (IZR num / IZR (den * 2 ^ (E - 52)))%R by (rewrite mult_IZR; field; lra).
    apply ZnearestE_ratio; [lia|]. apply Z.mul_pos_pos; [lia|apply Z.pow_pos_nonneg; lia].
  - rewrite bpow_IZR by lia.
    replace (IZR num / IZR den * IZR (2 ^ (- (E - 52))))%R with (IZR (num * 2 ^ (- (E - 52))) / IZR den)%R by (rewrite mult_IZR; field; lra).
    apply ZnearestE_ratio; [|lia]. apply Z.mul_nonneg_nonneg; [lia|apply Z.pow_nonneg; lia].
Qed.

(* the subnormal range: the unit is 2^-1074 *)
Theorem round_rat_subnormal_is_flocq : forall num den, 0 < num -> 0 < den -> binade num den < -1022 ->
  round radix2 fexp64 ZnearestE (IZR num / IZR den) = (IZR (rne_div (num * 2 ^ 1074) den) * bpow radix2 (-1074))%R.
Proof.
  intros num den Hn Hd HE. set (E := binade num den) in *.
  assert (Pd : (0 < IZR den)%R) by (apply IZR_lt; exact Hd).
  unfold round, F2R, scaled_mantissa, cexp. cbn [Fnum Fexp].
  rewrite binade_is_mag by assumption. fold E.
  assert (Cx : fexp64 (E + 1) = -1074) by (unfold FLT_exp; lia). rewrite Cx.
  f_equal. f_equal.
  change (- -1074) with 1074. rewrite bpow_IZR by lia.
  replace (IZR num / IZR den * IZR (2 ^ 1074))%R with (IZR (num * 2 ^ 1074) / IZR den)%R by (rewrite mult_IZR; field; lra).
  apply ZnearestE_ratio; [|lia]. apply Z.mul_nonneg_nonneg; [lia|apply Z.pow_nonneg; lia].
Qed.

(* both ranges together: what round_rat 53 1023 returns before packing the bits *)
Theorem round_rat_is_flocq : forall num den, 0 < num -> 0 < den ->
  round radix2 fexp64 ZnearestE (IZR num / IZR den) =
    if binade num den <? -1022 then (IZR (rne_div (num * 2 ^ (53 - 1 - (1 - 1023))) den) * bpow radix2 (-1074))%R
    else let s := binade num den - 52 in
         (IZR (if 0 <=? s then rne_div num (den * 2 ^ s) else rne_div (num * 2 ^ (- s)) den) * bpow radix2 s)%R.
Proof.
  intros num den Hn Hd. destruct (Z.ltb_spec (binade num den) (-1022)) as [S|N].
  - change (53 - 1 - (1 - 1023)) with 1074. apply round_rat_subnormal_is_flocq; assumption.
  - apply round_rat_quotient_is_flocq; assumption.
Qed.
