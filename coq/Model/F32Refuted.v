(* Model/F32Refuted.v -- known finding F32 as a theorem about the specification: reading a decimal into
   f32 "through f64, narrowed once" (what C07 prescribes) is not the same as reading it at f32 precision,
   and the difference hits a shortest-decimal printout: the text 7.038531e-26 is nearest, among all f32,
   to 0x15ae43fd, but its nearest f64 narrows to 0x15ae43fe. *)
From Coq Require Import List NArith ZArith Lia.
From SonicV Require Import Spec.Num.
Import ListNotations.
Local Open Scope Z_scope.

(* "7.038531e-26" *)
Definition lit_7038531em26 : list N := [55; 46; 48; 51; 56; 53; 51; 49; 101; 45; 50; 54]%N.

(* the decimal read directly at binary32 precision (round half to even of the exact rational) *)
Definition direct_f32 (lit : list N) : f64res :=
  let d := parse_lit lit in
  if 0 <=? exp10 d then round_rat 24 127 (mant d * 10 ^ exp10 d) 1 else round_rat 24 127 (mant d) (10 ^ (- exp10 d)).

Theorem f32_through_f64_is_not_f32_rounding :
  direct_f32 lit_7038531em26 = Bits 363742205 (* 0x15ae43fd *) /\
  (exists b64, round_f64 (parse_lit lit_7038531em26) = Bits b64 /\ narrow_f32 b64 = Some 363742206 (* 0x15ae43fe *)).
Proof.
  split; [vm_compute; reflexivity|]. exists 4230507875723640832. split.
  - vm_compute. reflexivity.
  - vm_compute. reflexivity.
Qed.
Print Assumptions f32_through_f64_is_not_f32_rounding.
