(* Model/Simd.v -- the lane-wise functions the vector primitives of sonic-simd specify
   (v128.rs / v256.rs scalar definitions): comparisons produce one mask bit per lane, least
   significant bit = lane 0; signed lanes are two's complement bytes. Both backends (AVX2/SSE2 and
   the portable one) are compared with these definitions lane by lane in the C17 run. *)
From Coq Require Import List NArith ZArith Bool Lia.
From SonicV Require Import Base.Blocks.
Import ListNotations.
Open Scope N_scope.

Fixpoint bits_to_N (l : list bool) : N := match l with [] => 0 | b :: t => (if b then 1 else 0) + 2 * bits_to_N t end.
Fixpoint map2 {A B C} (f : A -> B -> C) (a : list A) (b : list B) : list C :=
  match a, b with x :: a', y :: b' => f x y :: map2 f a' b' | _, _ => [] end.
Definition signed (x : N) : Z := if x <? 128 then Z.of_N x else (Z.of_N x - 256)%Z.

Definition mask_eq (a b : list N) : N := bits_to_N (map2 N.eqb a b).
Definition mask_le_u (a b : list N) : N := bits_to_N (map2 N.leb a b).
Definition mask_gt_u (a b : list N) : N := bits_to_N (map2 (fun x y => y <? x) a b).
Definition mask_le_i (a b : list N) : N := bits_to_N (map2 (fun x y => (signed x <=? signed y)%Z) a b).
Definition mask_gt_i (a b : list N) : N := bits_to_N (map2 (fun x y => (signed y <? signed x)%Z) a b).

(* BitMask helpers of bits.rs on a mask of [len] bits *)
Definition first_offset (len : N) (m : N) : N := match tz m with Some k => N.of_nat k | None => len end.
Definition before (a b : N) : bool := negb (N.land a (match b with 0 => N.ones 64 | _ => b - 1 end) =? 0).
Definition clear_high_bits (len n m : N) : N := N.land m (N.ones (len - n)).

(* comparing every lane with one splatted byte gives the bitmask whose trailing zeros locate the
   first matching byte: the fact every block scanner uses *)
Lemma bits_to_N_map : forall (f : N -> bool) l, bits_to_N (map f l) = mask_of f l.
Proof. induction l as [|c r IH]; cbn [map bits_to_N mask_of]; [reflexivity|]. rewrite IH. reflexivity. Qed.
Lemma map2_splat : forall (f : N -> N -> bool) c l, map2 f l (repeat c (length l)) = map (fun x => f x c) l.
Proof. induction l as [|x r IH]; cbn [map2 repeat length map]; [reflexivity|]. rewrite IH. reflexivity. Qed.
Theorem eq_splat_first : forall c l, tz (mask_eq l (repeat c (length l))) = find_first (fun x => x =? c) l.
Proof. intros c l. unfold mask_eq. rewrite map2_splat, bits_to_N_map. apply tz_mask_is_find_first. Qed.
Theorem le_splat_first : forall c l, tz (mask_le_u l (repeat c (length l))) = find_first (fun x => x <=? c) l.
Proof. intros c l. unfold mask_le_u. rewrite map2_splat, bits_to_N_map. apply tz_mask_is_find_first. Qed.

(* whitespace classifier of util/arch: bit i is set iff byte i is not one of the four JSON spaces *)
Definition is_space (c : N) : bool := (c =? 32) || (c =? 9) || (c =? 10) || (c =? 13).
Definition nonspace_bits (l : list N) : N := bits_to_N (map (fun c => negb (is_space c)) l).
