(* Model/SerClosed.v -- the closed serialization round trip: the compact text of ANY plain JSON tree
   (strings are arbitrary byte strings, numbers are RFC 8259 literals) is read back by the reference
   parser of Spec/Ref.v, in its fully-decoding mode, as exactly that tree, consuming exactly the text
   (C05: output denotes the value; C06: parse after serialize is lossless).  [ser_compact] of
   Model/SerAll.v -- what the implementation's output is compared with -- is this printer. *)
From Coq Require Import List NArith Arith Lia Bool.
From SonicV Require Import Spec.Ref Model.Escape Model.TablesDefs Model.SkipStr Model.SkipNum Model.Skip Model.SkipAll
  Model.RefSound Model.SkipComplete Model.RefComplete Model.EscRoundTrip Model.SerRoundTrip Model.SerAll.
Import ListNotations.
Open Scope N_scope.

(* ---------- plain trees ---------- *)
Inductive pt := PNull | PBool (b : bool) | PNum (lit : list N) | PStr (d : list N) | PArr (xs : list pt) | PObj (ms : list (list N * pt)).

Section Ind.
Variable P : pt -> Prop.
Hypothesis H0 : P PNull.
Hypothesis H1 : forall b, P (PBool b).
Hypothesis H2 : forall l, P (PNum l).
Hypothesis H3 : forall d, P (PStr d).
Hypothesis HA : forall xs, Forall P xs -> P (PArr xs).
Hypothesis HO : forall ms, Forall (fun m => P (snd m)) ms -> P (PObj ms).
Fixpoint pt_ind' (t : pt) : P t :=
  match t with
  | PNull => H0 | PBool b => H1 b | PNum l => H2 l | PStr d => H3 d
  | PArr xs => HA xs ((fix go l : Forall P l := match l with [] => Forall_nil _ | x :: r => Forall_cons _ (pt_ind' x) (go r) end) xs)
  | PObj ms => HO ms ((fix go l : Forall (fun m => P (snd m)) l := match l with [] => Forall_nil _ | (k, x) :: r => Forall_cons (k, x) (pt_ind' x) (go r) end) ms)
  end.
End Ind.

Fixpoint erase (v : Ref.jv) : pt :=
  match v with
  | JNull => PNull | JBool b => PBool b | JNum l => PNum l | JStr d _ => PStr d
  | Ref.JArr xs => PArr (map (fun x => erase (snd x)) xs)
  | Ref.JObj ms => PObj (map (fun m => (fst (fst (fst m)), erase (snd m))) ms)
  end.

(* the compact printer: commas between, none after, no whitespace *)
Fixpoint pr (t : pt) : list N :=
  match t with
  | PNull => [110;117;108;108] | PBool true => [116;114;117;101] | PBool false => [102;97;108;115;101]
  | PNum l => l | PStr d => quote_string d
  | PArr xs => 91 :: (fix go (first : bool) (l : list pt) := match l with [] => [] | x :: r => (if first then [] else [44]) ++ pr x ++ go false r end) true xs ++ [93]
  | PObj ms => 123 :: (fix go (first : bool) (l : list (list N * pt)) := match l with [] => [] | (k, x) :: r => (if first then [] else [44]) ++ quote_string k ++ 58 :: pr x ++ go false r end) true ms ++ [125]
  end.
Definition pr_elems := (fix go (first : bool) (l : list pt) := match l with [] => [] | x :: r => (if first then [] else [44]) ++ pr x ++ go false r end).
Definition pr_members := (fix go (first : bool) (l : list (list N * pt)) := match l with [] => [] | (k, x) :: r => (if first then [] else [44]) ++ quote_string k ++ 58 :: pr x ++ go false r end).
Lemma pr_arr : forall xs, pr (PArr xs) = 91 :: pr_elems true xs ++ [93]. Proof. reflexivity. Qed.
Lemma pr_obj : forall ms, pr (PObj ms) = 123 :: pr_members true ms ++ [125]. Proof. reflexivity. Qed.

(* well-formed: every number is an RFC 8259 number literal *)
Fixpoint wf (t : pt) : Prop :=
  match t with
  | PNum l => is_number l
  | PArr xs => (fix all l := match l with [] => True | x :: r => wf x /\ all r end) xs
  | PObj ms => (fix all l := match l with [] => True | (_, x) :: r => wf x /\ all r end) ms
  | _ => True
  end.
Definition wf_all := (fix all (l : list pt) := match l with [] => True | x :: r => wf x /\ all r end).
Definition wf_mem := (fix all (l : list (list N * pt)) := match l with [] => True | (_, x) :: r => wf x /\ all r end).

Fixpoint size (t : pt) : nat :=
  match t with
  | PArr xs => S ((fix go l := match l with [] => 0 | x :: r => 1 + size x + go r end)%nat xs)
  | PObj ms => S ((fix go l := match l with [] => 0 | (_, x) :: r => 1 + size x + go r end)%nat ms)
  | _ => 0%nat
  end.
Definition asize := (fix go (l : list pt) := match l with [] => 0 | x :: r => 1 + size x + go r end)%nat.
Definition osize := (fix go (l : list (list N * pt)) := match l with [] => 0 | (_, x) :: r => 1 + size x + go r end)%nat.

(* ---------- heads ---------- *)
Lemma pr_head : forall t, wf t -> exists c r, pr t = c :: r /\ vhead c = true.
Proof.
  intros t W. destruct t as [|[|]|l|d|xs|ms]; try (eexists; eexists; split; reflexivity).
  cbn [wf] in W. destruct (number_head _ W) as (c & t & E & Hc). exists c, t. split; [exact E|].
  destruct Hc as [-> | Hd]; [reflexivity|]. unfold vhead. rewrite Hd. rewrite !orb_true_r. reflexivity.
Qed.

(* ---------- one step of the reference parser on whitespace-free input ---------- *)
Lemma ws_nows : forall c t, Skip.is_ws c = false -> Ref.ws (c :: t) = c :: t.
Proof. intros c t H. cbn [Ref.ws]. change (Ref.is_ws c) with (Skip.is_ws c). rewrite H. reflexivity. Qed.

Local Ltac pvstep := intros; cbn [pvalue]; rewrite ?ws_nows by reflexivity; rewrite ?Nat.sub_diag, ?Nat.add_0_r.

Lemma pv_str : forall strict f pos r, pvalue strict (S f) pos (34 :: r) =
  match Ref.str_body strict (S (length r)) r with
  | Some (d, h, rest) => Some (JStr d h, pos, (pos + (length (34%N :: r) - length rest))%nat, rest) | None => None end.
Proof. pvstep. reflexivity. Qed.
Lemma pv_null : forall strict f pos rest, pvalue strict (S f) pos (110 :: [117;108;108] ++ rest) = Some (JNull, pos, (pos + 4)%nat, rest).
Proof. pvstep. change (lit_match [117;108;108] ([117;108;108] ++ rest)) with (lit [117;108;108] ([117;108;108] ++ rest)). rewrite lit_complete. reflexivity. Qed.
Lemma pv_true : forall strict f pos rest, pvalue strict (S f) pos (116 :: [114;117;101] ++ rest) = Some (JBool true, pos, (pos + 4)%nat, rest).
Proof. pvstep. change (lit_match [114;117;101] ([114;117;101] ++ rest)) with (lit [114;117;101] ([114;117;101] ++ rest)). rewrite lit_complete. reflexivity. Qed.
Lemma pv_false : forall strict f pos rest, pvalue strict (S f) pos (102 :: [97;108;115;101] ++ rest) = Some (JBool false, pos, (pos + 5)%nat, rest).
Proof. pvstep. change (lit_match [97;108;115;101] ([97;108;115;101] ++ rest)) with (lit [97;108;115;101] ([97;108;115;101] ++ rest)). rewrite lit_complete. reflexivity. Qed.
Lemma pv_arr0 : forall strict f pos rest, pvalue strict (S f) pos (91 :: 93 :: rest) = Some (Ref.JArr [], pos, (pos + (length (91%N :: 93%N :: rest) - length rest))%nat, rest).
Proof. pvstep. reflexivity. Qed.
Lemma pv_obj0 : forall strict f pos rest, pvalue strict (S f) pos (123 :: 125 :: rest) = Some (Ref.JObj [], pos, (pos + (length (123%N :: 125%N :: rest) - length rest))%nat, rest).
Proof. pvstep. reflexivity. Qed.

Local Ltac byte_cases c tac := destruct c as [|p]; [tac|]; repeat (destruct p as [p|p|]; try tac); contradiction.

Lemma pv_arr : forall strict f pos c t, Skip.is_ws c = false -> c <> 93 ->
  pvalue strict (S f) pos (91 :: c :: t) =
  match Ref.pelems strict f (S pos) (c :: t) with
  | Some (xs, rest) => Some (Ref.JArr xs, pos, (pos + (length (91%N :: c :: t) - length rest))%nat, rest) | None => None end.
Proof. intros strict f pos c t W N. cbn [pvalue]. rewrite (ws_nows 91) by reflexivity. rewrite (ws_nows c t W). rewrite ?Nat.sub_diag, ?Nat.add_0_r.
  change (91 =? 34) with false. change (91 =? 91) with true. cbv iota. byte_cases c ltac:(reflexivity). Qed.
Lemma pv_obj : forall strict f pos c t, Skip.is_ws c = false -> c <> 125 ->
  pvalue strict (S f) pos (123 :: c :: t) =
  match Ref.pmembers strict f (S pos) (c :: t) with
  | Some (ms, rest) => Some (Ref.JObj ms, pos, (pos + (length (123%N :: c :: t) - length rest))%nat, rest) | None => None end.
Proof. intros strict f pos c t W N. cbn [pvalue]. rewrite (ws_nows 123) by reflexivity. rewrite (ws_nows c t W). rewrite ?Nat.sub_diag, ?Nat.add_0_r.
  change (123 =? 34) with false. change (123 =? 91) with false. change (123 =? 123) with true. cbv iota. byte_cases c ltac:(reflexivity). Qed.

Lemma pv_num : forall strict f pos c r, (c = 45 \/ SkipNum.digit c = true) ->
  pvalue strict (S f) pos (c :: r) =
  match Ref.num_rest (c :: r) with
  | Some rest => Some (JNum (take_prefix (c :: r) rest), pos, (pos + (length (c :: r) - length rest))%nat, rest) | None => None end.
Proof.
  intros strict f pos c r H. cbn [pvalue].
  assert (W : Skip.is_ws c = false) by (destruct H as [-> | H]; [reflexivity|apply digit_not_ws'; exact H]).
  rewrite (ws_nows c r W). rewrite ?Nat.sub_diag, ?Nat.add_0_r.
  destruct H as [-> | H]; [reflexivity|].
  assert (R : 48 <= c <= 57). { unfold SkipNum.digit in H. apply andb_true_iff in H. destruct H as [A B]. apply N.leb_le in A. apply N.leb_le in B. lia. }
  destruct (N.eqb_spec c 34); [lia|]. destruct (N.eqb_spec c 91); [lia|]. destruct (N.eqb_spec c 123); [lia|].
  destruct (N.eqb_spec c 116); [lia|]. destruct (N.eqb_spec c 102); [lia|]. destruct (N.eqb_spec c 110); [lia|].
  change (Ref.digit c) with (SkipNum.digit c). rewrite H. rewrite orb_true_r. reflexivity.
Qed.

Lemma pe_last : forall strict f pos l v a b r2, pvalue strict f pos l = Some (v, a, b, 93 :: r2) ->
  Ref.pelems strict (S f) pos l = Some ([(a, b, v)], r2).
Proof. intros strict f pos l v a b r2 H. cbn [Ref.pelems]. rewrite H. reflexivity. Qed.
Lemma pe_more : forall strict f pos l v a b r2, pvalue strict f pos l = Some (v, a, b, 44 :: r2) ->
  Ref.pelems strict (S f) pos l =
  match Ref.pelems strict f (S (b + (length (44%N :: r2) - length (44%N :: r2)))) r2 with Some (xs, r3) => Some ((a, b, v) :: xs, r3) | None => None end.
Proof. intros strict f pos l v a b r2 H. cbn [Ref.pelems]. rewrite H. reflexivity. Qed.

(* ---------- scalars ---------- *)
Lemma quote_spec_len : forall c, (1 <= length (quote_spec c))%nat.
Proof. intros c. unfold quote_spec. repeat match goal with |- context [if ?b then _ else _] => destruct b end; cbn [length]; lia. Qed.
Lemma escape_len : forall s, (length s <= length (escape s))%nat.
Proof.
  induction s as [|c s IH]; [cbn; lia|]. unfold escape, Escape.spec_escape in *. cbn [flat_map]. rewrite app_length. cbn [length].
  unfold Escape.esc1 at 1. destruct (need_spec c); [pose proof (quote_spec_len c); lia|cbn [length]; lia].
Qed.

Lemma num_rt : forall l rest, is_number l -> follows rest -> Ref.num_rest (l ++ rest) = Some rest.
Proof.
  intros l rest Hn Hf. destruct (num_complete l rest Hn Hf) as (c & t & E & Hc & Sk). rewrite E.
  unfold skip_num_c in Sk.
  assert (C : ((c =? 45) || SkipNum.digit c) = true) by (destruct Hc as [-> | Hd]; [reflexivity|rewrite Hd; apply orb_true_r]).
  rewrite C in Sk. exact (num_rest_complete c t rest Sk C).
Qed.
Lemma take_prefix_app : forall l rest, take_prefix (l ++ rest) rest = l.
Proof. intros l rest. unfold take_prefix. rewrite app_length. replace (length l + length rest - length rest)%nat with (length l) by lia.
  rewrite firstn_app, Nat.sub_diag, firstn_all. cbn [firstn]. apply app_nil_r. Qed.

Lemma follows_44 : forall t, follows (44 :: t). Proof. intros t. right; left; reflexivity. Qed.
Lemma follows_93 : forall t, follows (93 :: t). Proof. intros t. right; right; left; reflexivity. Qed.
Lemma follows_125 : forall t, follows (125 :: t). Proof. intros t. right; right; right; reflexivity. Qed.

Definition RT (t : pt) : Prop := wf t -> forall fuel pos rest, (size t < fuel)%nat -> follows rest ->
  exists v, pvalue true fuel pos (pr t ++ rest) = Some (v, pos, (pos + length (pr t))%nat, rest) /\ erase v = t.

Definition erase_elems (vs : list (nat * nat * Ref.jv)) : list pt := map (fun x => erase (snd x)) vs.
Definition erase_members (ms : list (list N * nat * nat * Ref.jv)) : list (list N * pt) := map (fun m => (fst (fst (fst m)), erase (snd m))) ms.

Lemma pr_elems_one : forall x, pr_elems true [x] = pr x.
Proof. intros x. cbn [pr_elems app]. apply app_nil_r. Qed.
Lemma pr_elems_two : forall x y r, pr_elems true (x :: y :: r) = pr x ++ 44 :: pr_elems true (y :: r).
Proof. reflexivity. Qed.
Lemma pr_members_one : forall k x, pr_members true [(k, x)] = quote_string k ++ 58 :: pr x.
Proof. intros k x. cbn [pr_members app]. rewrite app_nil_r. reflexivity. Qed.
Lemma pr_members_two : forall k x m r, pr_members true ((k, x) :: m :: r) = quote_string k ++ 58 :: pr x ++ 44 :: pr_members true (m :: r).
Proof. intros k x [k2 y] r. reflexivity. Qed.

Lemma elems_rt : forall xs, xs <> [] -> Forall RT xs -> wf_all xs -> forall fuel pos rest, (asize xs < fuel)%nat ->
  exists vs, Ref.pelems true fuel pos (pr_elems true xs ++ 93 :: rest) = Some (vs, rest) /\ erase_elems vs = xs.
Proof.
  induction xs as [|x r IH]; intros NE HF W fuel pos rest Hf; [congruence|].
  inversion HF as [|? ? Hx Hr]; subst. destruct W as [Wx Wr].
  destruct fuel as [|f]; [lia|]. cbn [asize] in Hf. fold asize in Hf.
  destruct r as [|y r'].
  - replace (pr_elems true [x] ++ 93 :: rest) with (pr x ++ 93 :: rest) by (rewrite pr_elems_one; reflexivity).
    destruct (Hx Wx f pos (93 :: rest)) as (v & PV & Ev); [lia|apply follows_93|].
    rewrite (pe_last _ _ _ _ _ _ _ _ PV). eexists. split; [reflexivity|]. cbn [erase_elems map snd]. rewrite Ev. reflexivity.
  - replace (pr_elems true (x :: y :: r') ++ 93 :: rest) with (pr x ++ 44 :: (pr_elems true (y :: r') ++ 93 :: rest))
      by (rewrite pr_elems_two, <- app_assoc; reflexivity).
    destruct (Hx Wx f pos (44 :: (pr_elems true (y :: r') ++ 93 :: rest))) as (v & PV & Ev); [lia|apply follows_44|].
    rewrite (pe_more _ _ _ _ _ _ _ _ PV).
    match goal with |- context [Ref.pelems true f ?P _] => destruct (IH ltac:(discriminate) Hr Wr f P rest ltac:(lia)) as (vs & PE & Evs) end.
    rewrite PE. eexists. split; [reflexivity|]. cbn [erase_elems map snd]. rewrite Ev. fold (erase_elems vs). rewrite Evs. reflexivity.
Qed.

(* one member: key, colon, value *)
Lemma quote_string_app : forall k tail, quote_string k ++ tail = 34 :: (escape k ++ 34 :: tail).
Proof. intros k tail. unfold quote_string, escape. cbn [app]. rewrite <- app_assoc. reflexivity. Qed.

Lemma pm_last : forall f pos k r2 t r5,
  (forall P, exists v a b, pvalue true f P r2 = Some (v, a, b, 125 :: r5) /\ erase v = t) ->
  exists ms, Ref.pmembers true (S f) pos (quote_string k ++ 58 :: r2) = Some (ms, r5) /\ erase_members ms = [(k, t)].
Proof.
  intros f pos k r2 t r5 H. rewrite quote_string_app. cbn [Ref.pmembers]. rewrite (ws_nows 34) by reflexivity. cbv beta iota.
  rewrite decode_escape by (rewrite app_length; pose proof (escape_len k); lia).
  rewrite (ws_nows 58) by reflexivity. cbv beta iota.
  match goal with |- context [pvalue true f ?P r2] => destruct (H P) as (v & a & b & PV & Ev); rewrite PV end.
  rewrite (ws_nows 125) by reflexivity. cbv beta iota.
  eexists. split; [reflexivity|]. cbn [erase_members map fst snd]. rewrite Ev. reflexivity.
Qed.

Lemma pm_more : forall f pos k r2 t r5 ts rest,
  (forall P, exists v a b, pvalue true f P r2 = Some (v, a, b, 44 :: r5) /\ erase v = t) ->
  (forall P, exists ms, Ref.pmembers true f P r5 = Some (ms, rest) /\ erase_members ms = ts) ->
  exists ms, Ref.pmembers true (S f) pos (quote_string k ++ 58 :: r2) = Some (ms, rest) /\ erase_members ms = (k, t) :: ts.
Proof.
  intros f pos k r2 t r5 ts rest H H2. rewrite quote_string_app. cbn [Ref.pmembers]. rewrite (ws_nows 34) by reflexivity. cbv beta iota.
  rewrite decode_escape by (rewrite app_length; pose proof (escape_len k); lia).
  rewrite (ws_nows 58) by reflexivity. cbv beta iota.
  match goal with |- context [pvalue true f ?P r2] => destruct (H P) as (v & a & b & PV & Ev); rewrite PV end.
  rewrite (ws_nows 44) by reflexivity. cbv beta iota.
  match goal with |- context [Ref.pmembers true f ?P r5] => destruct (H2 P) as (ms & PM & Ems); rewrite PM end.
  eexists. split; [reflexivity|]. cbn [erase_members map fst snd]. rewrite Ev. fold (erase_members ms). rewrite Ems. reflexivity.
Qed.

Lemma members_rt : forall ms, ms <> [] -> Forall (fun m => RT (snd m)) ms -> wf_mem ms -> forall fuel pos rest, (osize ms < fuel)%nat ->
  exists vs, Ref.pmembers true fuel pos (pr_members true ms ++ 125 :: rest) = Some (vs, rest) /\ erase_members vs = ms.
Proof.
  induction ms as [|[k x] r IH]; intros NE HF W fuel pos rest Hf; [congruence|].
  inversion HF as [|? ? Hx Hr]; subst. cbn [snd] in Hx. destruct W as [Wx Wr].
  destruct fuel as [|f]; [lia|]. cbn [osize] in Hf. fold osize in Hf.
  destruct r as [|m r'].
  - replace (pr_members true [(k, x)] ++ 125 :: rest) with (quote_string k ++ 58 :: (pr x ++ 125 :: rest))
      by (rewrite pr_members_one, <- app_assoc; reflexivity).
    apply (pm_last f pos k (pr x ++ 125 :: rest) x rest). intros P. destruct (Hx Wx f P (125 :: rest)) as (v & PV & Ev); [lia|apply follows_125|]. eauto.
  - replace (pr_members true ((k, x) :: m :: r') ++ 125 :: rest) with (quote_string k ++ 58 :: (pr x ++ 44 :: (pr_members true (m :: r') ++ 125 :: rest)))
      by (rewrite pr_members_two; repeat (rewrite <- app_assoc; cbn [app]); reflexivity).
    apply (pm_more f pos k (pr x ++ 44 :: (pr_members true (m :: r') ++ 125 :: rest)) x (pr_members true (m :: r') ++ 125 :: rest) (m :: r') rest).
    + intros P. destruct (Hx Wx f P (44 :: (pr_members true (m :: r') ++ 125 :: rest))) as (v & PV & Ev); [lia|apply follows_44|]. eauto.
    + intros P. apply IH; [discriminate|exact Hr|exact Wr|lia].
Qed.

Lemma span_eq : forall (v : Ref.jv) (pos a b : nat) (rest : list N), a = b -> Some (v, pos, a, rest) = Some (v, pos, b, rest).
Proof. intros. subst. reflexivity. Qed.

Theorem pr_parses_back : forall t, RT t.
Proof.
  induction t using pt_ind'; intros W fuel pos rest Hf Hfo; (destruct fuel as [|f]; [lia|]).
  - exists JNull. split; [apply pv_null|reflexivity].
  - exists (JBool b). split; [|reflexivity]. destruct b; [apply pv_true|apply pv_false].
  - cbn [wf] in W. destruct (number_head _ W) as (c & t & -> & Hc). cbn [pr].
    change ((c :: t) ++ rest) with (c :: (t ++ rest)). rewrite (pv_num true f pos c (t ++ rest) Hc).
    change (c :: t ++ rest) with ((c :: t) ++ rest). rewrite (num_rt _ _ W Hfo). rewrite take_prefix_app.
    exists (JNum (c :: t)). split; [|reflexivity]. apply span_eq. rewrite app_length. lia.
  - cbn [pr]. rewrite quote_string_app. rewrite pv_str.
    rewrite decode_escape by (rewrite app_length; pose proof (escape_len d); lia).
    exists (JStr d (existsb need_spec d)). split; [|reflexivity]. apply span_eq.
    unfold quote_string. fold (escape d). cbn [length]. repeat (rewrite app_length; cbn [length]). lia.
  - (* arrays *)
    destruct xs as [|x r].
    + exists (Ref.JArr []). split; [|reflexivity]. change (pr (PArr []) ++ rest) with (91 :: 93 :: rest). rewrite pv_arr0.
      apply span_eq. cbn [length pr app]. lia.
    + assert (Wx : wf x) by (destruct W as [Wx _]; exact Wx).
      destruct (pr_head x Wx) as (c & tx & Ex & Hc). destruct (vhead_facts c Hc) as (Wc & N93 & _ & _).
      assert (Sz : (asize (x :: r) < f)%nat) by (change (size (PArr (x :: r))) with (S (asize (x :: r))) in Hf; lia).
      destruct (elems_rt (x :: r) ltac:(discriminate) H W f (S pos) rest Sz) as (vs & PE & Evs).
      assert (E : pr_elems true (x :: r) ++ 93 :: rest = c :: (tx ++ pr_elems false r ++ 93 :: rest)).
      { cbn [pr_elems app]. rewrite Ex. cbn [app]. rewrite <- app_assoc. reflexivity. }
      replace (pr (PArr (x :: r)) ++ rest) with (91 :: (pr_elems true (x :: r) ++ 93 :: rest))
        by (rewrite pr_arr; cbn [app]; rewrite <- app_assoc; reflexivity).
      rewrite E. rewrite (pv_arr true f pos c _ Wc N93). rewrite <- E. rewrite PE.
      exists (Ref.JArr vs). split; [|cbn [erase]; fold (erase_elems vs); rewrite Evs; reflexivity].
      apply span_eq. rewrite pr_arr. cbn [length]. repeat (rewrite app_length; cbn [length]). lia.
  - (* objects *)
    destruct ms as [|[k x] r].
    + exists (Ref.JObj []). split; [|reflexivity]. change (pr (PObj []) ++ rest) with (123 :: 125 :: rest). rewrite pv_obj0.
      apply span_eq. cbn [length pr app]. lia.
    + assert (Sz : (osize ((k, x) :: r) < f)%nat) by (change (size (PObj ((k, x) :: r))) with (S (osize ((k, x) :: r))) in Hf; lia).
      destruct (members_rt ((k, x) :: r) ltac:(discriminate) H W f (S pos) rest Sz) as (vs & PM & Evs).
      assert (E : pr_members true ((k, x) :: r) ++ 125 :: rest = 34 :: ((escape k ++ 34 :: 58 :: pr x ++ pr_members false r) ++ 125 :: rest)).
      { cbn [pr_members app]. rewrite quote_string_app. cbn [app]. reflexivity. }
      replace (pr (PObj ((k, x) :: r)) ++ rest) with (123 :: (pr_members true ((k, x) :: r) ++ 125 :: rest))
        by (rewrite pr_obj; cbn [app]; rewrite <- app_assoc; reflexivity).
      rewrite E. rewrite (pv_obj true f pos 34 _ ltac:(reflexivity) ltac:(discriminate)). rewrite <- E. rewrite PM.
      exists (Ref.JObj vs). split; [|cbn [erase]; fold (erase_members vs); rewrite Evs; reflexivity].
      apply span_eq. rewrite pr_obj. cbn [length]. repeat (rewrite app_length; cbn [length]). lia.
Qed.

(* ---------- whole texts ---------- *)
Lemma pr_nonempty_size : forall t, wf t -> (size t < length (pr t))%nat.
Proof.
  induction t using pt_ind'; intros W; try (cbn; lia).
  - destruct b; cbn; lia.
  - cbn [wf] in W. destruct (number_head _ W) as (c & t & -> & _). cbn. lia.
  - change (size (PArr xs)) with (S (asize xs)). rewrite pr_arr. cbn [length]. rewrite app_length. cbn [length].
    assert (G : forall b, (asize xs <= length (pr_elems b xs))%nat).
    { change (wf (PArr xs)) with (wf_all xs) in W. clear -H W. induction xs as [|x r IH]; intros b; [cbn; lia|].
      inversion H as [|? ? Hx Hr]; subst. destruct W as [Wx Wr]. specialize (IH Hr Wr false). specialize (Hx Wx).
      cbn [asize pr_elems]. fold asize. fold pr_elems. rewrite !app_length. lia. }
    specialize (G true). lia.
  - change (size (PObj ms)) with (S (osize ms)). rewrite pr_obj. cbn [length]. rewrite app_length. cbn [length].
    assert (G : forall b, (osize ms <= length (pr_members b ms))%nat).
    { change (wf (PObj ms)) with (wf_mem ms) in W. clear -H W. induction ms as [|[k x] r IH]; intros b; [cbn; lia|].
      inversion H as [|? ? Hx Hr]; subst. cbn [snd] in Hx. destruct W as [Wx Wr]. specialize (IH Hr Wr false). specialize (Hx Wx).
      cbn [osize pr_members]. fold osize. fold pr_members. rewrite !app_length. cbn [length]. rewrite app_length. lia. }
    specialize (G true). lia.
Qed.

Theorem compact_text_reads_back : forall t, wf t ->
  exists v, ref_text true (pr t) = Some (v, 0%nat, length (pr t)) /\ erase v = t.
Proof.
  intros t W. unfold ref_text, fuel_for.
  destruct (pr_parses_back t W (S (S (length (pr t)))) 0%nat [] ltac:(pose proof (pr_nonempty_size t W); lia) I) as (v & PV & Ev).
  rewrite app_nil_r in PV. rewrite PV. exists v. split; [reflexivity|exact Ev].
Qed.

(* ---------- the printer is SerAll.ser_compact ---------- *)
Lemma depth_elem : forall (xs : list (nat * nat * Ref.jv)) x, In x xs -> (Ref.depth (snd x) <= fold_right (fun x m => Nat.max (Ref.depth (snd x)) m) 0 xs)%nat.
Proof. induction xs as [|y r IH]; intros x Hin; [destruct Hin|]. destruct Hin as [-> | Hin]; cbn [fold_right]; [lia|]. specialize (IH x Hin). lia. Qed.
Lemma depth_member : forall (ms : list (list N * nat * nat * Ref.jv)) x, In x ms -> (Ref.depth (snd x) <= fold_right (fun x m => Nat.max (Ref.depth (snd x)) m) 0 ms)%nat.
Proof. induction ms as [|y r IH]; intros x Hin; [destruct Hin|]. destruct Hin as [-> | Hin]; cbn [fold_right]; [lia|]. specialize (IH x Hin). lia. Qed.

Notation sprint := (SerRoundTrip.print (list N) (list N) (fun s => s) (fun k => k)).

Lemma conv_is_pr : forall fuel v, (Ref.depth v < fuel)%nat -> sprint (conv fuel v) = pr (erase v).
Proof.
  induction fuel as [|f IH]; intros v Hd; [lia|].
  destruct v as [|b|l|d e|xs|ms]; try reflexivity.
  - destruct b; reflexivity.
  - cbn [conv erase]. rewrite pr_arr. cbn [SerRoundTrip.print]. f_equal. f_equal.
    cbn [Ref.depth] in Hd.
    assert (G : forall b, (forall x, In x xs -> (Ref.depth (snd x) < f)%nat) ->
       (fix go (first : bool) (l : list (SerRoundTrip.jv (list N) (list N))) : list N :=
          match l with [] => [] | x :: r => (if first then [] else [44]) ++ sprint x ++ go false r end) b (map (fun x => conv f (snd x)) xs)
       = pr_elems b (map (fun x => erase (snd x)) xs)).
    { clear Hd. induction xs as [|x r IHr]; intros b Hin; [reflexivity|]. cbn [map pr_elems]. fold pr_elems.
      rewrite (IH (snd x)) by (apply Hin; left; reflexivity). rewrite IHr by (intros y Hy; apply Hin; right; exact Hy). reflexivity. }
    apply G. intros x Hin. pose proof (depth_elem xs x Hin). lia.
  - cbn [conv erase]. rewrite pr_obj. cbn [SerRoundTrip.print]. f_equal. f_equal.
    cbn [Ref.depth] in Hd.
    assert (G : forall b, (forall x, In x ms -> (Ref.depth (snd x) < f)%nat) ->
       (fix go (first : bool) (l : list (list N * SerRoundTrip.jv (list N) (list N))) : list N :=
          match l with [] => [] | (k, x) :: r => (if first then [] else [44]) ++ k ++ 58 :: sprint x ++ go false r end) b
            (map (fun m => (quote_string (fst (fst (fst m))), conv f (snd m))) ms)
       = pr_members b (map (fun m => (fst (fst (fst m)), erase (snd m))) ms)).
    { clear Hd. induction ms as [|x r IHr]; intros b Hin; [reflexivity|]. cbn [map pr_members]. fold pr_members.
      rewrite (IH (snd x)) by (apply Hin; left; reflexivity). rewrite IHr by (intros y Hy; apply Hin; right; exact Hy). reflexivity. }
    apply G. intros x Hin. pose proof (depth_member ms x Hin). lia.
Qed.

Theorem ser_compact_is_pr : forall v, ser_compact v = pr (erase v).
Proof. intros v. unfold ser_compact. apply conv_is_pr. lia. Qed.

(* the compact serialization of any reference tree whose numbers are RFC literals is read back, by the
   fully-decoding reference parser, as the same plain tree, consuming the whole text *)
Theorem ser_compact_reads_back : forall v, wf (erase v) ->
  exists v', ref_text true (ser_compact v) = Some (v', 0%nat, length (ser_compact v)) /\ erase v' = erase v.
Proof. intros v W. rewrite ser_compact_is_pr. exact (compact_text_reads_back (erase v) W). Qed.

(* ... and serializing what was read back gives the same bytes: the fixpoint of C06 *)
Theorem ser_compact_fixpoint : forall v, wf (erase v) ->
  exists v', ref_text true (ser_compact v) = Some (v', 0%nat, length (ser_compact v)) /\ ser_compact v' = ser_compact v.
Proof.
  intros v W. destruct (ser_compact_reads_back v W) as (v' & R & E). exists v'. split; [exact R|].
  rewrite !ser_compact_is_pr. rewrite E. reflexivity.
Qed.
Print Assumptions ser_compact_fixpoint.
