(* Model/RefComplete.v -- the executable reference parser of Spec/Ref.v, in its validate-and-skip
   mode (strict_cp = false), accepts everything the verified skipper accepts; with ref_text_sound and
   SkipComplete this makes the two recognisers EQUAL on every byte string:
       rfc_text l = skip_text l
   so the oracle the implementation is compared with accepts exactly ws value ws (C02). *)
From Coq Require Import List NArith Arith Lia Bool.
From SonicV Require Import Spec.Ref Model.SkipStr Model.SkipNum Model.Skip Model.SkipAll Model.RefSound Model.SkipComplete.
Import ListNotations.
Open Scope N_scope.

(* ---------- strings ---------- *)
Lemma hex4_of_is_hex : forall a b c d, SkipStr.is_hex a = true -> SkipStr.is_hex b = true -> SkipStr.is_hex c = true -> SkipStr.is_hex d = true ->
  exists cp, hex4 a b c d = Some cp.
Proof.
  intros a b c d A B C D. unfold hex4. change Ref.is_hex with SkipStr.is_hex. rewrite A, B, C, D. eexists. reflexivity.
Qed.

Lemma str_lazy_complete : forall n fs fr l rest, (fs <= n)%nat -> (fs <= fr)%nat -> SkipStr.skip_str true fs l = Some rest ->
  exists d h, Ref.str_body false fr l = Some (d, h, rest).
Proof.
  induction n as [|n IH]; intros fs fr l rest Hn Hr H.
  { assert (fs = 0%nat) by lia. subst fs. discriminate. }
  destruct fs as [|fs]; [discriminate|]. destruct fr as [|fr]; [lia|].
  cbn [SkipStr.skip_str] in H. cbn [Ref.str_body]. destruct l as [|c r]; [discriminate|].
  destruct (N.eqb_spec c 92) as [-> | N1].
  - change (92 =? 34) with false. cbv iota.
    destruct r as [|e r1]; [discriminate|].
    destruct (N.eqb_spec e 117) as [-> | N2].
    + match type of H with (if ?c then _ else _) = _ => destruct c; [|discriminate] end.
      destruct r1 as [|h1 [|h2 [|h3 [|h4 r2]]]]; try discriminate.
      destruct (SkipStr.is_hex h1 && SkipStr.is_hex h2 && SkipStr.is_hex h3 && SkipStr.is_hex h4) eqn:HX; [|discriminate].
      cbn [andb negb] in H.
      apply andb_true_iff in HX. destruct HX as [HX X4]. apply andb_true_iff in HX. destruct HX as [HX X3]. apply andb_true_iff in HX. destruct HX as [X1 X2].
      destruct (hex4_of_is_hex _ _ _ _ X1 X2 X3 X4) as (cp & Hcp). rewrite Hcp.
      destruct (IH fs fr r2 rest ltac:(lia) ltac:(lia) H) as (d2 & h2' & R2).
      (* the continuation at r2 always succeeds *)
      assert (Lone : exists d h, match Ref.str_body false fr r2 with Some (d0, _, rest0) => Some (d0, true, rest0) | None => None end = Some (d, h, rest)).
      { rewrite R2. eauto. }
      destruct ((55296 <=? cp) && (cp <=? 56319)).
      * destruct r2 as [|q1 [|q2 [|g1 [|g2 [|g3 [|g4 r3]]]]]]; try exact Lone.
        destruct ((q1 =? 92) && (q2 =? 117)) eqn:QQ; [|exact Lone].
        apply andb_true_iff in QQ. destruct QQ as [Q1 Q2]. apply N.eqb_eq in Q1. apply N.eqb_eq in Q2. subst q1 q2.
        destruct (hex4 g1 g2 g3 g4) as [lo|] eqn:Hy; [|exact Lone].
        destruct ((56320 <=? lo) && (lo <=? 57343)); [|exact Lone].
        (* the pair: the skipper went through the second escape with one more unit of fuel *)
        destruct fs as [|fs']; [discriminate|]. cbn [SkipStr.skip_str] in H.
        change (92 =? 92) with true in H. change (117 =? 117) with true in H. cbv iota in H.
        match type of H with (if ?c then _ else _) = _ => destruct c; [|discriminate] end.
        destruct (hex4_some _ _ _ _ _ Hy) as (Y1 & Y2 & Y3 & Y4). rewrite Y1, Y2, Y3, Y4 in H. cbn [andb negb] in H.
        destruct (IH fs' fr r3 rest ltac:(lia) ltac:(lia) H) as (d3 & h3' & R3). rewrite R3. eauto.
      * destruct ((56320 <=? cp) && (cp <=? 57343)); [exact Lone|]. rewrite R2. eauto.
    + destruct (SkipStr.simple_escape e) eqn:SE; [|discriminate].
      assert (exists o, Ref.simple_escape e = Some o) as (o & Ho).
      { unfold SkipStr.simple_escape in SE. unfold Ref.simple_escape.
        repeat match goal with |- context [if ?c then _ else _] => destruct c eqn:?; [eauto|] end.
        repeat match goal with E : (_ =? _) = false |- _ => rewrite E in SE; clear E end. discriminate. }
      rewrite Ho. destruct (IH fs fr r1 rest ltac:(lia) ltac:(lia) H) as (d2 & h2' & R2). rewrite R2. eauto.
  - destruct (N.eqb_spec c 34) as [-> | N2]; [injection H as <-; eauto|].
    destruct (c <=? 31) eqn:LE; [discriminate|].
    assert (LT : (c <? 32) = false). { apply N.ltb_ge. apply N.leb_gt in LE. lia. }
    rewrite LT. destruct (IH fs fr r rest ltac:(lia) ltac:(lia) H) as (d2 & h2' & R2). rewrite R2. eauto.
Qed.

Lemma str_c_ref : forall r rest, skip_str_c r = Some rest -> exists d h, Ref.str_body false (S (length r)) r = Some (d, h, rest).
Proof.
  intros r rest H. unfold skip_str_c in H. destruct (skip_sound_strict _ _ _ H) as (body & E & B).
  assert (H2 : SkipStr.skip_str true (S (length r)) r = Some rest).
  { rewrite E. apply skip_complete; [exact B|]. rewrite app_length. cbn [length]. lia. }
  exact (str_lazy_complete _ _ _ _ _ (le_n _) (le_n _) H2).
Qed.

(* ---------- numbers ---------- *)
Lemma go_num_int : forall d r rest, SkipNum.digit d = true -> SkipNum.go d r = Some rest -> Ref.num_int (d :: r) = Some rest.
Proof.
  intros d r rest Hd H. unfold SkipNum.go in H. unfold Ref.num_int.
  change Ref.digit with SkipNum.digit. change Ref.digits with SkipNum.digits. change Ref.num_after_int with SkipNum.after_int.
  destruct r as [|s t].
  - injection H as <-. destruct (d =? 48); [reflexivity|]. rewrite Hd. reflexivity.
  - destruct (d =? 48).
    + destruct (SkipNum.digit s) eqn:Ds; [discriminate|]. cbn [andb] in H. cbn [SkipNum.digits] in H. rewrite Ds in H. exact H.
    + cbn [andb] in H. rewrite Hd. exact H.
Qed.

Lemma num_rest_complete : forall c r rest, SkipNum.skip_num c r = Some rest -> ((c =? 45) || SkipNum.digit c) = true ->
  Ref.num_rest (c :: r) = Some rest.
Proof.
  intros c r rest H Hc. unfold SkipNum.skip_num in H. unfold Ref.num_rest.
  destruct (c =? 45).
  - destruct r as [|d r']; [discriminate|]. destruct (SkipNum.digit d) eqn:Dd; [|discriminate]. apply go_num_int; assumption.
  - cbn [orb] in Hc. apply go_num_int; assumption.
Qed.

(* ---------- values ---------- *)
Lemma sk1_unfold : forall f l, sk1 (S f) l =
  match ws l with
  | [] => None
  | c :: r =>
    if c =? 34 then skip_str_c r
    else if c =? 91 then (match ws r with 93 :: r' => Some r' | _ => arrl f r end)
    else if c =? 123 then (match ws r with 125 :: r' => Some r' | 34 :: _ => objl f (ws r) | _ => None end)
    else if c =? 116 then lit [114;117;101] r else if c =? 102 then lit [97;108;115;101] r else if c =? 110 then lit [117;108;108] r
    else if numstart c then skip_num_c c r else None
  end.
Proof. reflexivity. Qed.
Lemma objl_nil : forall f, objl f [] = None.
Proof. destruct f; reflexivity. Qed.

Local Ltac byte_cases c tac := destruct c as [|p]; [tac|]; repeat (destruct p as [p|p|]; try tac); contradiction.

Theorem ref_complete : forall fuel,
  (forall l rest, sk1 fuel l = Some rest -> forall pos, exists v a b, pvalue false fuel pos l = Some (v, a, b, rest)) /\
  (forall l rest, arrl fuel l = Some rest -> forall pos, exists xs, pelems false fuel pos l = Some (xs, rest)) /\
  (forall l rest, objl fuel (ws l) = Some rest -> forall pos, exists ms, pmembers false fuel pos l = Some (ms, rest)).
Proof.
  induction fuel as [|f (IH1 & IH2 & IH3)].
  { repeat split; intros l rest H; discriminate. }
  split; [|split].
  - intros l rest H pos. rewrite sk1_unfold in H. cbn [pvalue]. change Ref.ws with Skip.ws.
    destruct (Skip.ws l) as [|c r] eqn:Ew; [discriminate|].
    destruct (N.eqb_spec c 34) as [-> | N1].
    { destruct (str_c_ref _ _ H) as (d & h & R). rewrite R. eauto. }
    destruct (N.eqb_spec c 91) as [-> | N2].
    { destruct (Skip.ws r) as [|c2 r2] eqn:Er.
      - destruct (IH2 _ _ H (S (pos + (length l - length (91 :: r))))) as (xs & PE). rewrite PE. eauto.
      - destruct (N.eqb_spec c2 93) as [-> | N3]; [injection H as <-; eauto|].
        assert (H' : arrl f r = Some rest) by (byte_cases c2 ltac:(exact H)).
        destruct (IH2 _ _ H' (S (pos + (length l - length (91 :: r))))) as (xs & PE).
        rewrite PE. exists (JArr xs), (pos + (length l - length (91%N :: r)))%nat, (pos + (length l - length (91%N :: r)) + (length (91%N :: r) - length rest))%nat.
        byte_cases c2 ltac:(reflexivity). }
    destruct (N.eqb_spec c 123) as [-> | N3].
    { destruct (Skip.ws r) as [|c2 r2] eqn:Er; [discriminate|].
      destruct (N.eqb_spec c2 125) as [-> | N4]; [injection H as <-; eauto|].
      destruct (N.eqb_spec c2 34) as [-> | N5]; [|exfalso; byte_cases c2 ltac:(discriminate)].
      rewrite <- Er in H.
      destruct (IH3 _ _ H (S (pos + (length l - length (123 :: r))))) as (ms & PM). rewrite PM. eauto. }
    change (lit_match [114;117;101] r) with (lit [114;117;101] r).
    change (lit_match [97;108;115;101] r) with (lit [97;108;115;101] r).
    change (lit_match [117;108;108] r) with (lit [117;108;108] r).
    destruct (N.eqb_spec c 116) as [-> | N4]; [rewrite H; eauto|].
    destruct (N.eqb_spec c 102) as [-> | N5]; [rewrite H; eauto|].
    destruct (N.eqb_spec c 110) as [-> | N6]; [rewrite H; eauto|].
    change ((c =? 45) || Ref.digit c) with (numstart c).
    destruct (numstart c) eqn:NS; [|discriminate].
    unfold skip_num_c in H. change ((c =? 45) || SkipNum.digit c) with (numstart c) in H. rewrite NS in H.
    rewrite (num_rest_complete c r rest H NS). eauto.
  - intros l rest H pos. rewrite arrl_unfold in H. cbn [pelems]. change Ref.ws with Skip.ws.
    destruct (sk1 f l) as [r|] eqn:S1; [|discriminate].
    destruct (IH1 _ _ S1 pos) as (v & a & b & PV). rewrite PV.
    destruct (Skip.ws r) as [|c r'] eqn:Er; [discriminate|].
    destruct (N.eqb_spec c 93) as [-> | N1]; [injection H as <-; eauto|].
    destruct (N.eqb_spec c 44) as [-> | N2]; [|exfalso; byte_cases c ltac:(discriminate)].
    destruct (IH2 _ _ H (S (b + (length r - length (44 :: r'))))) as (xs & PE). rewrite PE. eauto.
  - intros l rest H pos. cbn [pmembers]. change Ref.ws with Skip.ws.
    destruct (Skip.ws l) as [|q k] eqn:El; [discriminate|].
    destruct (N.eqb_spec q 34) as [-> | Nq]; [|exfalso; byte_cases q ltac:(discriminate)].
    rewrite objl_unfold in H.
    destruct (skip_str_c k) as [r|] eqn:SK; [|discriminate].
    destruct (str_c_ref _ _ SK) as (d & h & R). rewrite R.
    destruct (Skip.ws r) as [|c r1] eqn:Er; [discriminate|].
    destruct (N.eqb_spec c 58) as [-> | Nc]; [|exfalso; byte_cases c ltac:(discriminate)].
    destruct (sk1 f r1) as [r2|] eqn:S1; [|discriminate].
    match goal with |- context [pvalue false f ?P r1] => destruct (IH1 _ _ S1 P) as (v & a & b & PV); rewrite PV end.
    destruct (Skip.ws r2) as [|c2 r3] eqn:Er2; [discriminate|].
    destruct (N.eqb_spec c2 125) as [-> | N1]; [injection H as <-; eauto|].
    destruct (N.eqb_spec c2 44) as [-> | N2]; [|exfalso; byte_cases c2 ltac:(discriminate)].
    destruct (Skip.ws r3) as [|c3 r4] eqn:Er3; [discriminate|].
    destruct (N.eqb_spec c3 34) as [-> | N3]; [|exfalso; byte_cases c3 ltac:(discriminate)].
    rewrite <- Er3 in H.
    match goal with |- context [pmembers false f ?P r3] => destruct (IH3 _ _ H P) as (ms & PM); rewrite PM end. eauto.
Qed.

Theorem skip_implies_rfc : forall l, skip_text l = true -> rfc_text l = true.
Proof.
  intros l H. unfold skip_text, skip_value in H. unfold rfc_text, ref_text, fuel_for.
  destruct (sk1 (S (S (length l))) l) as [rest|] eqn:S1; [|discriminate].
  destruct (proj1 (ref_complete _) _ _ S1 0%nat) as (v & a & b & PV). rewrite PV.
  change Ref.ws with Skip.ws. destruct (Skip.ws rest); [reflexivity|discriminate].
Qed.

Theorem rfc_implies_skip : forall l, rfc_text l = true -> skip_text l = true.
Proof.
  intros l H. unfold rfc_text in H. destruct (ref_text false l) as [[[v a] b]|] eqn:R; [|discriminate].
  destruct (ref_text_sound _ _ _ _ _ R) as (w1 & tok & w2 & -> & H1 & Hv & H2 & _ & _).
  apply skip_text_complete; assumption.
Qed.

(* the reference recogniser IS the verified recogniser, on every byte string *)
Theorem rfc_text_is_skip_text : forall l, rfc_text l = skip_text l.
Proof.
  intros l. destruct (skip_text l) eqn:S.
  - apply skip_implies_rfc. exact S.
  - destruct (rfc_text l) eqn:R; [|reflexivity]. apply rfc_implies_skip in R. congruence.
Qed.

Theorem rfc_text_iff : forall l, rfc_text l = true <-> exists w1 v w2, l = w1 ++ v ++ w2 /\ all_ws w1 /\ Value v /\ all_ws w2.
Proof. intros l. rewrite rfc_text_is_skip_text. apply skip_text_iff. Qed.
Print Assumptions rfc_text_iff.
