From Coq Require Import List NArith Arith Lia Bool.
Import ListNotations.
Open Scope N_scope.

Definition is_ws (c : N) : bool := (c =? 32) || (c =? 9) || (c =? 10) || (c =? 13).
Definition all_ws (l : list N) : Prop := Forall (fun c => is_ws c = true) l.
Fixpoint ws (l : list N) : list N := match l with c :: r => if is_ws c then ws r else l | [] => [] end.   (* skip_space, scalar *)
Fixpoint take_ws (l : list N) : list N := match l with c :: r => if is_ws c then c :: take_ws r else [] | [] => [] end.
Lemma ws_split : forall l, l = take_ws l ++ ws l /\ all_ws (take_ws l).
Proof. induction l as [|c r [A B]]; cbn; [split; [reflexivity|constructor]|]. destruct (is_ws c) eqn:E; cbn; [|split; [reflexivity|constructor]].
  split; [now f_equal|now constructor]. Qed.

Section Val.
(* the token skippers and their (separately proved, Appendix A.6/A.9) soundness *)
Variable is_str is_num : list N -> Prop.
Variable skip_str : list N -> option (list N).            (* after the opening quote *)
Variable skip_num : N -> list N -> option (list N).       (* first byte already consumed *)
Hypothesis skip_str_sound : forall r rest, skip_str r = Some rest -> exists s, 34 :: r = s ++ rest /\ is_str s.
Hypothesis skip_num_sound : forall c r rest, skip_num c r = Some rest -> exists n, c :: r = n ++ rest /\ is_num n.

Definition lit (word : list N) (l : list N) : option (list N) :=      (* parse_literal *)
  if (length word <=? length l)%nat && (if list_eq_dec N.eq_dec (firstn (length word) l) word then true else false) then Some (skipn (length word) l) else None.
Definition numstart (c : N) : bool := (c =? 45) || ((48 <=? c) && (c <=? 57)).

(* ---------- Spec: RFC 8259 value, as an exact match of a byte list ---------- *)
Inductive value : list N -> Prop :=
| v_str s : is_str s -> value s
| v_num n : is_num n -> value n
| v_true : value [116;114;117;101] | v_false : value [102;97;108;115;101] | v_null : value [110;117;108;108]
| v_arr0 w : all_ws w -> value (91 :: w ++ [93])
| v_arr es : elements es -> value (91 :: es ++ [93])
| v_obj0 w : all_ws w -> value (123 :: w ++ [125])
| v_obj ms : members ms -> value (123 :: ms ++ [125])
with elements : list N -> Prop :=
| e_last w1 v w2 : all_ws w1 -> value v -> all_ws w2 -> elements (w1 ++ v ++ w2)
| e_cons w1 v w2 r : all_ws w1 -> value v -> all_ws w2 -> elements r -> elements (w1 ++ v ++ w2 ++ 44 :: r)
with members : list N -> Prop :=
| m_last w1 k w2 w3 v w4 : all_ws w1 -> is_str k -> all_ws w2 -> all_ws w3 -> value v -> all_ws w4 -> members (w1 ++ k ++ w2 ++ 58 :: w3 ++ v ++ w4)
| m_cons w1 k w2 w3 v w4 r : all_ws w1 -> is_str k -> all_ws w2 -> all_ws w3 -> value v -> all_ws w4 -> members r ->
    members (w1 ++ k ++ w2 ++ 58 :: w3 ++ v ++ w4 ++ 44 :: r).

Lemma members_ws : forall w ms, all_ws w -> members ms -> members (w ++ ms).
Proof.
  intros w ms Hw Hm. inversion Hm; subst.
  - rewrite (app_assoc w w1). apply m_last; auto. apply Forall_app; split; assumption.
  - rewrite (app_assoc w w1). apply m_cons; auto. apply Forall_app; split; assumption.
Qed.

(* ---------- Model: Parser::skip_one / skip_array / skip_object (validating skipper), fuelled ---------- *)
Fixpoint skip_one (fuel : nat) (l : list N) : option (list N) :=
  match fuel with O => None | S f =>
  match ws l with
  | [] => None
  | c :: r =>
    if c =? 34 then skip_str r
    else if c =? 91 then (match ws r with 93 :: r' => Some r' | _ => arr_loop f r end)
    else if c =? 123 then (match ws r with 125 :: r' => Some r' | 34 :: _ => obj_loop f (ws r) | _ => None end)
    else if c =? 116 then lit [114;117;101] r else if c =? 102 then lit [97;108;115;101] r else if c =? 110 then lit [117;108;108] r
    else if numstart c then skip_num c r else None
  end end
with arr_loop (fuel : nat) (l : list N) : option (list N) :=      (* positioned before an element *)
  match fuel with O => None | S f =>
  match skip_one f l with None => None | Some r =>
    match ws r with 93 :: r' => Some r' | 44 :: r' => arr_loop f r' | _ => None end end end
with obj_loop (fuel : nat) (l : list N) : option (list N) :=      (* positioned at the opening quote of a key *)
  match fuel with O => None | S f =>
  match l with 34 :: k =>
    match skip_str k with None => None | Some r =>
      match ws r with 58 :: r1 =>
        match skip_one f r1 with None => None | Some r2 =>
          match ws r2 with 125 :: r' => Some r' | 44 :: r3 => (match ws r3 with 34 :: _ => obj_loop f (ws r3) | _ => None end) | _ => None end end
      | _ => None end end
  | _ => None end end.

Lemma lit_sound : forall word l rest, lit word l = Some rest -> l = word ++ rest.
Proof. intros word l rest H. unfold lit in H. destruct (Nat.leb_spec (length word) (length l)); cbn in H; [|discriminate].
  destruct (list_eq_dec N.eq_dec (firstn (length word) l) word) as [E|]; [|discriminate]. inversion H; subst. rewrite <- E at 1. now rewrite firstn_skipn. Qed.

Ltac wsplit l := let A := fresh "A" in let B := fresh "B" in destruct (ws_split l) as [A B].

Theorem skip_sound : forall fuel,
  (forall l rest, skip_one fuel l = Some rest -> exists w v, l = w ++ v ++ rest /\ all_ws w /\ value v) /\
  (forall l rest, arr_loop fuel l = Some rest -> exists es, l = es ++ 93 :: rest /\ elements es) /\
  (forall l rest, obj_loop fuel l = Some rest -> exists ms, l = ms ++ 125 :: rest /\ members ms).
Proof.
  induction fuel as [|f (IH1 & IH2 & IH3)]; [repeat split; intros; discriminate|].
  split; [|split].
  - intros l rest H. cbn [skip_one] in H. wsplit l. destruct (ws l) as [|c r] eqn:Ew; [discriminate|].
    exists (take_ws l). 
    destruct (N.eqb_spec c 34) as [->|N1].
    { destruct (skip_str_sound _ _ H) as (s & Es & Hs). exists s. rewrite A at 1. rewrite <- Es. repeat split; auto. now apply v_str. }
    destruct (N.eqb_spec c 91) as [->|N2].
    { wsplit r. destruct (ws r) as [|c2 r2] eqn:Er.
      - destruct (IH2 _ _ H) as (es & E & He). exists (91 :: es ++ [93]). rewrite A at 1. rewrite E. repeat split; auto; [cbn; now rewrite <- app_assoc|now apply v_arr].
      - destruct (N.eqb_spec c2 93) as [->|N3].
        + inversion H; subst. exists (91 :: take_ws r ++ [93]). rewrite A at 1. rewrite A0 at 1. repeat split; auto; [cbn; now rewrite <- app_assoc|now apply v_arr0].
        + assert (H' : arr_loop f r = Some rest). { destruct c2 as [|p]; [exact H|]. repeat (destruct p as [p|p|]; try exact H); contradiction. }
          destruct (IH2 _ _ H') as (es & E & He). exists (91 :: es ++ [93]). rewrite A at 1. rewrite E. repeat split; auto; [cbn; now rewrite <- app_assoc|now apply v_arr]. }
    destruct (N.eqb_spec c 123) as [->|N3].
    { wsplit r. destruct (ws r) as [|c2 r2] eqn:Er; [discriminate|].
      destruct (N.eqb_spec c2 125) as [->|N4].
      - inversion H; subst. exists (123 :: take_ws r ++ [125]). rewrite A at 1. rewrite A0 at 1. repeat split; auto; [cbn; now rewrite <- app_assoc|now apply v_obj0].
      - destruct (N.eqb_spec c2 34) as [->|N5].
        + destruct (IH3 _ _ H) as (ms & E & Hm). exists (123 :: (take_ws r ++ ms) ++ [125]). rewrite A at 1. rewrite A0 at 1. rewrite E.
          repeat split; auto; [cbn; now rewrite <- !app_assoc|].
          apply v_obj. now apply members_ws.   (* leading whitespace is absorbed into the first member *)
        + exfalso. destruct c2 as [|p]; [discriminate|]. repeat (destruct p as [p|p|]; try discriminate); contradiction. }
    assert (Hlit : forall word, lit word r = Some rest -> value (c :: word) -> exists v, l = take_ws l ++ v ++ rest /\ all_ws (take_ws l) /\ value v).
    { intros word Hl Hv. apply lit_sound in Hl. exists (c :: word). rewrite A at 1. rewrite Hl. repeat split; auto. }
    destruct (N.eqb_spec c 116) as [->|N4]; [apply (Hlit _ H); apply v_true|].
    destruct (N.eqb_spec c 102) as [->|N5]; [apply (Hlit _ H); apply v_false|].
    destruct (N.eqb_spec c 110) as [->|N6]; [apply (Hlit _ H); apply v_null|].
    destruct (numstart c); [|discriminate].
    destruct (skip_num_sound _ _ _ H) as (n & En & Hn). exists n. rewrite A at 1. rewrite <- En. repeat split; auto. now apply v_num.
  - intros l rest H. cbn [arr_loop] in H. destruct (skip_one f l) as [r|] eqn:Hs; [|discriminate].
    destruct (IH1 _ _ Hs) as (w & v & E & Hw & Hv). wsplit r. destruct (ws r) as [|c r'] eqn:Er; [discriminate|].
    destruct (N.eqb_spec c 93) as [->|N1].
    + injection H as <-. exists (w ++ v ++ take_ws r). split; [rewrite E at 1; rewrite A at 1; now rewrite <- !app_assoc|now constructor].
    + destruct (N.eqb_spec c 44) as [->|N2].
      * destruct (IH2 _ _ H) as (es & E2 & He). exists (w ++ v ++ take_ws r ++ 44 :: es).
        split; [rewrite E at 1; rewrite A at 1; rewrite E2; now rewrite <- !app_assoc|now constructor].
      * exfalso. destruct c as [|p]; [discriminate|]. repeat (destruct p as [p|p|]; try discriminate); contradiction.
  - intros l rest H. cbn [obj_loop] in H. destruct l as [|q k]; [discriminate|].
    destruct (N.eqb_spec q 34) as [->|Nq]; [|exfalso; destruct q as [|p]; [discriminate|]; repeat (destruct p as [p|p|]; try discriminate); contradiction].
    destruct (skip_str k) as [r|] eqn:Hk; [|discriminate]. destruct (skip_str_sound _ _ Hk) as (s & Es & Hstr).
    wsplit r. destruct (ws r) as [|c r1] eqn:Er; [discriminate|].
    destruct (N.eqb_spec c 58) as [->|Nc]; [|exfalso; destruct c as [|p]; [discriminate|]; repeat (destruct p as [p|p|]; try discriminate); contradiction].
    destruct (skip_one f r1) as [r2|] eqn:Hv; [|discriminate]. destruct (IH1 _ _ Hv) as (w3 & v & E3 & Hw3 & Hval).
    destruct (ws_split r2) as [A2 B2]. destruct (ws r2) as [|c2 r3] eqn:Er2; [discriminate|].
    destruct (N.eqb_spec c2 125) as [->|N1].
    + injection H as <-. exists ([] ++ s ++ take_ws r ++ 58 :: w3 ++ v ++ take_ws r2).
      split; [cbn [app]; rewrite Es; rewrite A at 1; rewrite ?Er; rewrite E3; rewrite A2 at 1; rewrite ?Er2; repeat (first [rewrite <- app_assoc | progress (cbn [app])]); reflexivity|apply m_last; auto; constructor].
    + destruct (N.eqb_spec c2 44) as [->|N2]; [|exfalso; destruct c2 as [|p]; [discriminate|]; repeat (destruct p as [p|p|]; try discriminate); contradiction].
      destruct (ws_split r3) as [A3 B3]. destruct (ws r3) as [|c3 r4] eqn:Er3; [discriminate|].
      destruct (N.eqb_spec c3 34) as [->|N3]; [|exfalso; destruct c3 as [|p]; [discriminate|]; repeat (destruct p as [p|p|]; try discriminate); contradiction].
      destruct (IH3 _ _ H) as (ms & E4 & Hm).
      exists ([] ++ s ++ take_ws r ++ 58 :: w3 ++ v ++ take_ws r2 ++ 44 :: (take_ws r3 ++ ms)).
      split; [cbn [app]; rewrite Es; rewrite A at 1; rewrite ?Er; rewrite E3; rewrite A2 at 1; rewrite ?Er2; rewrite A3 at 1; rewrite ?Er3; rewrite E4; repeat (first [rewrite <- app_assoc | progress (cbn [app])]); reflexivity|].
      apply m_cons; auto; [constructor|]. now apply members_ws.
Qed.
End Val.
Print Assumptions skip_sound.
