(* Model/PrettyClosed.v -- the closed round trip for the PRETTY serialization: the pretty text of any
   plain JSON tree (two spaces per level, newline before every member and before the closing bracket
   of a non-empty container, ": " after keys) is read back by the fully-decoding reference parser as
   exactly that tree; [ser_pretty] of Model/SerAll.v is this printer.  With Model/SerClosed.v: pretty
   and compact output denote the same tree (C05: they differ only by insignificant whitespace). *)
From Coq Require Import List NArith Arith Lia Bool.
From SonicV Require Import Spec.Ref Model.Escape Model.TablesDefs Model.SkipStr Model.SkipNum Model.Skip Model.SkipAll
  Model.RefSound Model.SkipComplete Model.RefComplete Model.EscRoundTrip Model.Pretty Model.SerAll Model.SerClosed.
Import ListNotations.
Open Scope N_scope.

Notation indent := Pretty.indent.

Fixpoint pp (d : nat) (t : pt) : list N :=
  match t with
  | PArr [] => [91; 93]
  | PArr xs => 91 :: (fix go (first : bool) (l : list pt) := match l with [] => [] | x :: r =>
                   (if first then [10] else [44; 10]) ++ indent (S d) ++ pp (S d) x ++ go false r end) true xs
               ++ 10 :: indent d ++ [93]
  | PObj [] => [123; 125]
  | PObj ms => 123 :: (fix go (first : bool) (l : list (list N * pt)) := match l with [] => [] | (k, x) :: r =>
                   (if first then [10] else [44; 10]) ++ indent (S d) ++ quote_string k ++ [58; 32] ++ pp (S d) x ++ go false r end) true ms
               ++ 10 :: indent d ++ [125]
  | _ => pr t
  end.
Definition pp_elems (d : nat) := (fix go (first : bool) (l : list pt) := match l with [] => [] | x :: r =>
  (if first then [10] else [44; 10]) ++ indent (S d) ++ pp (S d) x ++ go false r end).
Definition pp_members (d : nat) := (fix go (first : bool) (l : list (list N * pt)) := match l with [] => [] | (k, x) :: r =>
  (if first then [10] else [44; 10]) ++ indent (S d) ++ quote_string k ++ [58; 32] ++ pp (S d) x ++ go false r end).

Lemma pp_arr : forall d x r, pp d (PArr (x :: r)) = 91 :: pp_elems d true (x :: r) ++ 10 :: indent d ++ [93]. Proof. reflexivity. Qed.
Lemma pp_obj : forall d m r, pp d (PObj (m :: r)) = 123 :: pp_members d true (m :: r) ++ 10 :: indent d ++ [125]. Proof. reflexivity. Qed.
Lemma pp_elems_one : forall d x, pp_elems d true [x] = 10 :: indent (S d) ++ pp (S d) x.
Proof. intros d x. cbn [pp_elems app]. rewrite app_nil_r. reflexivity. Qed.
Lemma pp_elems_two : forall d x y r, pp_elems d true (x :: y :: r) = 10 :: indent (S d) ++ pp (S d) x ++ 44 :: pp_elems d true (y :: r).
Proof. reflexivity. Qed.
Lemma pp_members_one : forall d k x, pp_members d true [(k, x)] = 10 :: indent (S d) ++ quote_string k ++ 58 :: 32 :: pp (S d) x.
Proof. intros d k x. cbn [pp_members app]. rewrite app_nil_r. reflexivity. Qed.
Lemma pp_members_two : forall d k x m r, pp_members d true ((k, x) :: m :: r) =
  10 :: indent (S d) ++ quote_string k ++ 58 :: 32 :: pp (S d) x ++ 44 :: pp_members d true (m :: r).
Proof. intros d k x [k2 y] r. reflexivity. Qed.

(* ---------- whitespace ---------- *)
Lemma indent_ws : forall n, all_ws (indent n).
Proof. induction n as [|n IH]; [constructor|]. unfold Pretty.indent in *. cbn [repeat concat app]. constructor; [reflexivity|]. constructor; [reflexivity|exact IH]. Qed.
Lemma nl_indent_ws : forall n, all_ws (10 :: indent n).
Proof. intros n. constructor; [reflexivity|apply indent_ws]. Qed.

Lemma ws_len : forall l, (length (Ref.ws l) <= length l)%nat.
Proof. induction l as [|c r IH]; [cbn; lia|]. cbn [Ref.ws]. destruct (Ref.is_ws c); cbn [length]; lia. Qed.
Lemma rws_app : forall w x, all_ws w -> Ref.ws (w ++ x) = Ref.ws x.
Proof. intros w x H. change Ref.ws with Skip.ws. apply ws_app. exact H. Qed.

(* leading whitespace only shifts the position *)
Lemma pvalue_ws : forall strict fuel pos w l, all_ws w ->
  pvalue strict fuel pos (w ++ l) = pvalue strict fuel (pos + length w) l.
Proof.
  intros strict fuel pos w l H. destruct fuel as [|f]; [reflexivity|]. cbn [pvalue]. rewrite (rws_app w l H).
  pose proof (ws_len l) as L.
  replace (pos + (length (w ++ l) - length (Ref.ws l)))%nat with (pos + length w + (length l - length (Ref.ws l)))%nat by (rewrite app_length; lia).
  reflexivity.
Qed.

Local Ltac byte_cases c tac := destruct c as [|p]; [tac|]; repeat (destruct p as [p|p|]; try tac); contradiction.

(* containers whose first byte after the bracket is whitespace *)
Lemma pv_arr_ws : forall strict f pos r c t, Ref.ws r = c :: t -> c <> 93 ->
  pvalue strict (S f) pos (91 :: r) =
  match Ref.pelems strict f (S pos) r with
  | Some (xs, rest) => Some (Ref.JArr xs, pos, (pos + (length (91%N :: r) - length rest))%nat, rest) | None => None end.
Proof. intros strict f pos r c t W N. cbn [pvalue]. rewrite (ws_nows 91) by reflexivity. rewrite W. rewrite ?Nat.sub_diag, ?Nat.add_0_r.
  change (91 =? 34) with false. change (91 =? 91) with true. cbv iota. byte_cases c ltac:(reflexivity). Qed.
Lemma pv_obj_ws : forall strict f pos r c t, Ref.ws r = c :: t -> c <> 125 ->
  pvalue strict (S f) pos (123 :: r) =
  match Ref.pmembers strict f (S pos) r with
  | Some (ms, rest) => Some (Ref.JObj ms, pos, (pos + (length (123%N :: r) - length rest))%nat, rest) | None => None end.
Proof. intros strict f pos r c t W N. cbn [pvalue]. rewrite (ws_nows 123) by reflexivity. rewrite W. rewrite ?Nat.sub_diag, ?Nat.add_0_r.
  change (123 =? 34) with false. change (123 =? 91) with false. change (123 =? 123) with true. cbv iota. byte_cases c ltac:(reflexivity). Qed.

Lemma pe_last_ws : forall strict f pos l v a b rest r2, pvalue strict f pos l = Some (v, a, b, rest) -> Ref.ws rest = 93 :: r2 ->
  Ref.pelems strict (S f) pos l = Some ([(a, b, v)], r2).
Proof. intros strict f pos l v a b rest r2 H W. cbn [Ref.pelems]. rewrite H, W. reflexivity. Qed.
Lemma pe_more_ws : forall strict f pos l v a b rest r2, pvalue strict f pos l = Some (v, a, b, rest) -> Ref.ws rest = 44 :: r2 ->
  Ref.pelems strict (S f) pos l =
  match Ref.pelems strict f (S (b + (length rest - length (44%N :: r2)))) r2 with Some (xs, r3) => Some ((a, b, v) :: xs, r3) | None => None end.
Proof. intros strict f pos l v a b rest r2 H W. cbn [Ref.pelems]. rewrite H, W. reflexivity. Qed.

(* scalars are printed as in compact form *)
Lemma pp_scalar : forall d t, (match t with PArr _ | PObj _ => False | _ => True end) -> pp d t = pr t.
Proof. intros d t H. destruct t; try reflexivity; contradiction. Qed.

Lemma pp_head : forall d t, wf t -> exists c r, pp d t = c :: r /\ vhead c = true.
Proof.
  intros d t W. destruct t as [| | | |xs|ms]; try (rewrite pp_scalar by exact I; apply pr_head; exact W).
  - destruct xs; eexists; eexists; split; reflexivity.
  - destruct ms as [|[k x] r]; eexists; eexists; split; reflexivity.
Qed.

Definition RTW (t : pt) : Prop := wf t -> forall d fuel pos w rest, all_ws w -> (size t < fuel)%nat -> follows rest ->
  exists v a b, pvalue true fuel pos (w ++ pp d t ++ rest) = Some (v, a, b, rest) /\ erase v = t.

Lemma elems_rtw : forall xs, xs <> [] -> Forall RTW xs -> wf_all xs -> forall d fuel pos rest, (asize xs < fuel)%nat ->
  exists vs, Ref.pelems true fuel pos (pp_elems d true xs ++ 10 :: indent d ++ 93 :: rest) = Some (vs, rest) /\ erase_elems vs = xs.
Proof.
  induction xs as [|x r IH]; intros NE HF W d fuel pos rest Hf; [congruence|].
  inversion HF as [|? ? Hx Hr]; subst. destruct W as [Wx Wr].
  destruct fuel as [|f]; [lia|]. cbn [asize] in Hf. fold asize in Hf.
  destruct r as [|y r'].
  - replace (pp_elems d true [x] ++ 10 :: indent d ++ 93 :: rest) with ((10 :: indent (S d)) ++ pp (S d) x ++ (10 :: indent d ++ 93 :: rest))
      by (rewrite pp_elems_one; cbn [app]; rewrite <- !app_assoc; reflexivity).
    destruct (Hx Wx (S d) f pos (10 :: indent (S d)) (10 :: indent d ++ 93 :: rest)) as (v & a & b & PV & Ev);
      [apply nl_indent_ws|lia|left; reflexivity|].
    rewrite (pe_last_ws _ _ _ _ _ _ _ _ rest PV); [|change (10 :: indent d ++ 93 :: rest) with ((10 :: indent d) ++ 93 :: rest); rewrite rws_app by apply nl_indent_ws; reflexivity].
    eexists. split; [reflexivity|]. cbn [erase_elems map snd]. rewrite Ev. reflexivity.
  - replace (pp_elems d true (x :: y :: r') ++ 10 :: indent d ++ 93 :: rest)
      with ((10 :: indent (S d)) ++ pp (S d) x ++ (44 :: (pp_elems d true (y :: r') ++ 10 :: indent d ++ 93 :: rest)))
      by (rewrite pp_elems_two; cbn [app]; repeat (rewrite <- app_assoc; cbn [app]); reflexivity).
    destruct (Hx Wx (S d) f pos (10 :: indent (S d)) (44 :: (pp_elems d true (y :: r') ++ 10 :: indent d ++ 93 :: rest))) as (v & a & b & PV & Ev);
      [apply nl_indent_ws|lia|apply follows_44|].
    rewrite (pe_more_ws _ _ _ _ _ _ _ _ _ PV (ws_nows 44 _ ltac:(reflexivity))).
    match goal with |- context [Ref.pelems true f ?P _] => destruct (IH ltac:(discriminate) Hr Wr d f P rest ltac:(lia)) as (vs & PE & Evs) end.
    rewrite PE. eexists. split; [reflexivity|]. cbn [erase_elems map snd]. rewrite Ev. fold (erase_elems vs). rewrite Evs. reflexivity.
Qed.

Lemma pm_last_ws : forall f pos w k r2 t rest' r5, all_ws w ->
  (forall P, exists v a b, pvalue true f P r2 = Some (v, a, b, rest') /\ erase v = t) -> Ref.ws rest' = 125 :: r5 ->
  exists ms, Ref.pmembers true (S f) pos (w ++ quote_string k ++ 58 :: r2) = Some (ms, r5) /\ erase_members ms = [(k, t)].
Proof.
  intros f pos w k r2 t rest' r5 Hw H W5. rewrite quote_string_app. cbn [Ref.pmembers]. rewrite (rws_app w _ Hw).
  rewrite (ws_nows 34) by reflexivity. cbv beta iota.
  rewrite decode_escape by (rewrite app_length; pose proof (escape_len k); lia).
  rewrite (ws_nows 58) by reflexivity. cbv beta iota.
  match goal with |- context [pvalue true f ?P r2] => destruct (H P) as (v & a & b & PV & Ev); rewrite PV end.
  rewrite W5. eexists. split; [reflexivity|]. cbn [erase_members map fst snd]. rewrite Ev. reflexivity.
Qed.

Lemma pm_more_ws : forall f pos w k r2 t rest' r5 ts rest, all_ws w ->
  (forall P, exists v a b, pvalue true f P r2 = Some (v, a, b, rest') /\ erase v = t) -> Ref.ws rest' = 44 :: r5 ->
  (forall P, exists ms, Ref.pmembers true f P r5 = Some (ms, rest) /\ erase_members ms = ts) ->
  exists ms, Ref.pmembers true (S f) pos (w ++ quote_string k ++ 58 :: r2) = Some (ms, rest) /\ erase_members ms = (k, t) :: ts.
Proof.
  intros f pos w k r2 t rest' r5 ts rest Hw H W5 H2. rewrite quote_string_app. cbn [Ref.pmembers]. rewrite (rws_app w _ Hw).
  rewrite (ws_nows 34) by reflexivity. cbv beta iota.
  rewrite decode_escape by (rewrite app_length; pose proof (escape_len k); lia).
  rewrite (ws_nows 58) by reflexivity. cbv beta iota.
  match goal with |- context [pvalue true f ?P r2] => destruct (H P) as (v & a & b & PV & Ev); rewrite PV end.
  rewrite W5.
  match goal with |- context [Ref.pmembers true f ?P r5] => destruct (H2 P) as (ms & PM & Ems); rewrite PM end.
  eexists. split; [reflexivity|]. cbn [erase_members map fst snd]. rewrite Ev. fold (erase_members ms). rewrite Ems. reflexivity.
Qed.

Lemma members_rtw : forall ms, ms <> [] -> Forall (fun m => RTW (snd m)) ms -> wf_mem ms -> forall d fuel pos rest, (osize ms < fuel)%nat ->
  exists vs, Ref.pmembers true fuel pos (pp_members d true ms ++ 10 :: indent d ++ 125 :: rest) = Some (vs, rest) /\ erase_members vs = ms.
Proof.
  induction ms as [|[k x] r IH]; intros NE HF W d fuel pos rest Hf; [congruence|].
  inversion HF as [|? ? Hx Hr]; subst. cbn [snd] in Hx. destruct W as [Wx Wr].
  destruct fuel as [|f]; [lia|]. cbn [osize] in Hf. fold osize in Hf.
  destruct r as [|m r'].
  - replace (pp_members d true [(k, x)] ++ 10 :: indent d ++ 125 :: rest)
      with ((10 :: indent (S d)) ++ quote_string k ++ 58 :: ([32] ++ pp (S d) x ++ (10 :: indent d ++ 125 :: rest)))
      by (rewrite pp_members_one; cbn [app]; repeat (rewrite <- app_assoc; cbn [app]); reflexivity).
    apply (pm_last_ws f pos (10 :: indent (S d)) k _ x (10 :: indent d ++ 125 :: rest) rest); [apply nl_indent_ws| |].
    + intros P. apply (Hx Wx (S d) f P [32] (10 :: indent d ++ 125 :: rest)); [constructor; [reflexivity|constructor]|lia|left; reflexivity].
    + change (10 :: indent d ++ 125 :: rest) with ((10 :: indent d) ++ 125 :: rest). rewrite rws_app by apply nl_indent_ws. reflexivity.
  - replace (pp_members d true ((k, x) :: m :: r') ++ 10 :: indent d ++ 125 :: rest)
      with ((10 :: indent (S d)) ++ quote_string k ++ 58 :: ([32] ++ pp (S d) x ++ (44 :: (pp_members d true (m :: r') ++ 10 :: indent d ++ 125 :: rest))))
      by (rewrite pp_members_two; cbn [app]; repeat (rewrite <- app_assoc; cbn [app]); reflexivity).
    apply (pm_more_ws f pos (10 :: indent (S d)) k _ x (44 :: (pp_members d true (m :: r') ++ 10 :: indent d ++ 125 :: rest))
             (pp_members d true (m :: r') ++ 10 :: indent d ++ 125 :: rest) (m :: r') rest); [apply nl_indent_ws| | |].
    + intros P. apply (Hx Wx (S d) f P [32] (44 :: (pp_members d true (m :: r') ++ 10 :: indent d ++ 125 :: rest))); [constructor; [reflexivity|constructor]|lia|apply follows_44].
    + apply ws_nows. reflexivity.
    + intros P. apply IH; [discriminate|exact Hr|exact Wr|lia].
Qed.

Theorem pp_parses_back : forall t, RTW t.
Proof.
  induction t using pt_ind'; intros W dep fuel pos w rest Hw Hf Hfo.
  1-4: rewrite pvalue_ws by exact Hw; rewrite pp_scalar by exact I.
  - destruct (pr_parses_back PNull W fuel (pos + length w)%nat rest Hf Hfo) as (v & PV & Ev). eauto.
  - destruct (pr_parses_back (PBool b) W fuel (pos + length w)%nat rest Hf Hfo) as (v & PV & Ev). eauto.
  - destruct (pr_parses_back (PNum l) W fuel (pos + length w)%nat rest Hf Hfo) as (v & PV & Ev). eauto.
  - destruct (pr_parses_back (PStr d) W fuel (pos + length w)%nat rest Hf Hfo) as (v & PV & Ev). eauto.
  - (* arrays *)
    rewrite pvalue_ws by exact Hw. destruct fuel as [|f]; [lia|].
    destruct xs as [|x r].
    + change (pp dep (PArr []) ++ rest) with (91 :: 93 :: rest). rewrite pv_arr0. exists (Ref.JArr []). eauto.
    + assert (Wx : wf x) by (destruct W as [Wx _]; exact Wx).
      destruct (pp_head (S dep) x Wx) as (c & tx & Ex & Hc). destruct (vhead_facts c Hc) as (Wc & N93 & _ & _).
      assert (Sz : (asize (x :: r) < f)%nat) by (change (size (PArr (x :: r))) with (S (asize (x :: r))) in Hf; lia).
      match goal with |- context [pvalue true (S f) ?P _] => destruct (elems_rtw (x :: r) ltac:(discriminate) H W dep f (S P) rest Sz) as (vs & PE & Evs) end.
      replace (pp dep (PArr (x :: r)) ++ rest) with (91 :: (pp_elems dep true (x :: r) ++ 10 :: indent dep ++ 93 :: rest))
        by (rewrite pp_arr; cbn [app]; repeat (rewrite <- app_assoc; cbn [app]); reflexivity).
      rewrite (pv_arr_ws true f _ _ c (tx ++ pp_elems dep false r ++ 10 :: indent dep ++ 93 :: rest)); [| |exact N93].
      * rewrite PE. exists (Ref.JArr vs). eexists. eexists. split; [reflexivity|]. cbn [erase]. fold (erase_elems vs). rewrite Evs. reflexivity.
      * cbn [pp_elems]. change ([10] ++ indent (S dep) ++ pp (S dep) x ++ pp_elems dep false r) with ((10 :: indent (S dep)) ++ pp (S dep) x ++ pp_elems dep false r).
        rewrite <- app_assoc. rewrite rws_app by apply nl_indent_ws. rewrite Ex. cbn [app]. rewrite <- app_assoc. apply ws_nows. exact Wc.
  - (* objects *)
    rewrite pvalue_ws by exact Hw. destruct fuel as [|f]; [lia|].
    destruct ms as [|[k x] r].
    + change (pp dep (PObj []) ++ rest) with (123 :: 125 :: rest). rewrite pv_obj0. exists (Ref.JObj []). eauto.
    + assert (Sz : (osize ((k, x) :: r) < f)%nat) by (change (size (PObj ((k, x) :: r))) with (S (osize ((k, x) :: r))) in Hf; lia).
      match goal with |- context [pvalue true (S f) ?P _] => destruct (members_rtw ((k, x) :: r) ltac:(discriminate) H W dep f (S P) rest Sz) as (vs & PM & Evs) end.
      replace (pp dep (PObj ((k, x) :: r)) ++ rest) with (123 :: (pp_members dep true ((k, x) :: r) ++ 10 :: indent dep ++ 125 :: rest))
        by (rewrite pp_obj; cbn [app]; repeat (rewrite <- app_assoc; cbn [app]); reflexivity).
      rewrite (pv_obj_ws true f _ _ 34 ((escape k ++ 34 :: [58; 32] ++ pp (S dep) x ++ pp_members dep false r) ++ 10 :: indent dep ++ 125 :: rest)); [| |discriminate].
      * rewrite PM. exists (Ref.JObj vs). eexists. eexists. split; [reflexivity|]. cbn [erase]. fold (erase_members vs). rewrite Evs. reflexivity.
      * cbn [pp_members]. change ([10] ++ indent (S dep) ++ quote_string k ++ [58; 32] ++ pp (S dep) x ++ pp_members dep false r)
          with ((10 :: indent (S dep)) ++ quote_string k ++ [58; 32] ++ pp (S dep) x ++ pp_members dep false r).
        rewrite <- app_assoc. rewrite rws_app by apply nl_indent_ws. rewrite <- app_assoc. rewrite quote_string_app.
        rewrite ws_nows by reflexivity. f_equal. repeat (rewrite <- app_assoc; cbn [app]). reflexivity.
Qed.

(* ---------- whole texts ---------- *)
Lemma pp_len_ge : forall t d, (length (pr t) <= length (pp d t))%nat.
Proof.
  induction t using pt_ind'; intros dep; try (cbn; lia).
  - destruct xs as [|x r]; [cbn; lia|]. rewrite pp_arr, pr_arr. cbn [length]. rewrite !app_length. cbn [length]. rewrite app_length.
    assert (G : forall b, (length (pr_elems b (x :: r)) <= length (pp_elems dep b (x :: r)))%nat).
    { clear -H. induction H as [|y l Hy Hl IH]; intros b; [cbn; lia|].
      cbn [pr_elems pp_elems]. fold pr_elems. fold (pp_elems dep). rewrite !app_length. specialize (IH false). specialize (Hy (S dep)).
      destruct b; cbn [length]; lia. }
    specialize (G true). lia.
  - destruct ms as [|[k x] r]; [cbn; lia|]. rewrite pp_obj, pr_obj. cbn [length]. rewrite !app_length. cbn [length]. rewrite app_length.
    assert (G : forall b, (length (pr_members b ((k, x) :: r)) <= length (pp_members dep b ((k, x) :: r)))%nat).
    { clear -H. induction H as [|[k2 y] l Hy Hl IH]; intros b; [cbn; lia|]. cbn [snd] in Hy.
      cbn [pr_members pp_members]. fold pr_members. fold (pp_members dep). rewrite !app_length. cbn [length]. rewrite !app_length. specialize (IH false). specialize (Hy (S dep)).
      destruct b; cbn [length]; lia. }
    specialize (G true). lia.
Qed.

Theorem pretty_text_reads_back : forall t, wf t ->
  exists v a b, ref_text true (pp 0 t) = Some (v, a, b) /\ erase v = t.
Proof.
  intros t W. unfold ref_text, fuel_for.
  destruct (pp_parses_back t W 0%nat (S (S (length (pp 0 t)))) 0%nat [] [] ltac:(constructor)
              ltac:(pose proof (pr_nonempty_size t W); pose proof (pp_len_ge t 0); lia) I) as (v & a & b & PV & Ev).
  cbn [app] in PV. rewrite app_nil_r in PV. rewrite PV. exists v, a, b. split; [reflexivity|exact Ev].
Qed.

(* ---------- the printer is SerAll.ser_pretty ---------- *)
Notation ppretty := (Pretty.pretty (list N) (list N) (fun s => s) (fun k => k)).

Lemma convp_is_pp : forall fuel v d, (Ref.depth v < fuel)%nat -> ppretty d (convp fuel v) = pp d (erase v).
Proof.
  induction fuel as [|f IH]; intros v d Hd; [lia|].
  destruct v as [|b|l|s e|xs|ms]; try reflexivity.
  - destruct b; reflexivity.
  - cbn [Ref.depth] in Hd. destruct xs as [|x r]; [reflexivity|].
    cbn [convp erase map]. rewrite pp_arr. cbn [Pretty.pretty]. f_equal. f_equal.
    assert (G : forall b (l : list (nat * nat * Ref.jv)), (forall y, In y l -> (Ref.depth (snd y) < f)%nat) ->
       (fix go (first : bool) (l0 : list (Pretty.jv (list N) (list N))) : list N :=
          match l0 with [] => [] | x0 :: r0 => (if first then [10] else [44; 10]) ++ indent (S d) ++ ppretty (S d) x0 ++ go false r0 end) b (map (fun y => convp f (snd y)) l)
       = pp_elems d b (map (fun y => erase (snd y)) l)).
    { intros b l. revert b. induction l as [|y l' IHl]; intros b Hin; [reflexivity|]. cbn [map pp_elems]. fold (pp_elems d).
      rewrite (IH (snd y)) by (apply Hin; left; reflexivity). rewrite IHl by (intros z Hz; apply Hin; right; exact Hz). reflexivity. }
    apply (G true (x :: r)). intros y Hin. pose proof (depth_elem (x :: r) y Hin). lia.
  - cbn [Ref.depth] in Hd. destruct ms as [|m r]; [reflexivity|].
    cbn [convp erase map]. rewrite pp_obj. cbn [Pretty.pretty]. f_equal. f_equal.
    assert (G : forall b (l : list (list N * nat * nat * Ref.jv)), (forall y, In y l -> (Ref.depth (snd y) < f)%nat) ->
       (fix go (first : bool) (l0 : list (list N * Pretty.jv (list N) (list N))) : list N :=
          match l0 with [] => [] | (k, x0) :: r0 => (if first then [10] else [44; 10]) ++ indent (S d) ++ k ++ [58; 32] ++ ppretty (S d) x0 ++ go false r0 end) b
            (map (fun y => (quote_string (fst (fst (fst y))), convp f (snd y))) l)
       = pp_members d b (map (fun y => (fst (fst (fst y)), erase (snd y))) l)).
    { intros b l. revert b. induction l as [|y l' IHl]; intros b Hin; [reflexivity|]. cbn [map pp_members]. fold (pp_members d).
      rewrite (IH (snd y)) by (apply Hin; left; reflexivity). rewrite IHl by (intros z Hz; apply Hin; right; exact Hz). reflexivity. }
    apply (G true (m :: r)). intros y Hin. pose proof (depth_member (m :: r) y Hin). lia.
Qed.

Theorem ser_pretty_is_pp : forall v, ser_pretty v = pp 0 (erase v).
Proof. intros v. unfold ser_pretty. apply convp_is_pp. lia. Qed.

(* the pretty serialization of any reference tree whose numbers are RFC literals is read back as the
   same plain tree -- the same tree its compact serialization is read back as *)
Theorem ser_pretty_reads_back : forall v, wf (erase v) ->
  exists v' a b, ref_text true (ser_pretty v) = Some (v', a, b) /\ erase v' = erase v.
Proof. intros v W. rewrite ser_pretty_is_pp. exact (pretty_text_reads_back (erase v) W). Qed.

Theorem pretty_and_compact_denote_the_same_tree : forall v, wf (erase v) ->
  exists vp ap bp vc, ref_text true (ser_pretty v) = Some (vp, ap, bp) /\
                      ref_text true (ser_compact v) = Some (vc, 0%nat, length (ser_compact v)) /\ erase vp = erase vc.
Proof.
  intros v W. destruct (ser_pretty_reads_back v W) as (vp & ap & bp & Rp & Ep). destruct (ser_compact_reads_back v W) as (vc & Rc & Ec).
  exists vp, ap, bp, vc. repeat split; [exact Rp|exact Rc|congruence].
Qed.
Print Assumptions pretty_and_compact_denote_the_same_tree.
