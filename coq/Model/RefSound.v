(* Model/RefSound.v -- the executable reference parser of Spec/Ref.v is sound for the RFC 8259
   grammar (the inductive grammar of Model/Skip.v with the string and number grammars of
   Model/SkipStr.v and Model/SkipNum.v), and the span it reports for a value is exact:
   whatever it accepts is whitespace, one value, rest; start = offset after the whitespace,
   stop = start + length of the value. This is what makes the spans and accept/reject answers the
   correspondence runs compare against meaningful. *)
From Coq Require Import List NArith Arith Lia Bool.
From SonicV Require Import Spec.Ref Model.SkipStr Model.SkipNum Model.Skip Model.SkipAll.
Import ListNotations.
Open Scope N_scope.

(* ---------- the two files define the same character classes ---------- *)
Lemma is_ws_same : forall c, Ref.is_ws c = Skip.is_ws c. Proof. reflexivity. Qed.
Lemma ws_same : forall l, Ref.ws l = Skip.ws l.
Proof. induction l as [|c r IH]; [reflexivity|]. cbn [Ref.ws Skip.ws]. rewrite is_ws_same, IH. reflexivity. Qed.
Lemma digit_same : forall c, Ref.digit c = SkipNum.digit c. Proof. reflexivity. Qed.
Lemma digits_same : forall l, Ref.digits l = SkipNum.digits l.
Proof. induction l as [|c r IH]; [reflexivity|]. cbn [Ref.digits SkipNum.digits]. rewrite digit_same, IH. reflexivity. Qed.
Lemma is_hex_same : forall c, Ref.is_hex c = SkipStr.is_hex c. Proof. reflexivity. Qed.

Lemma ws_split_len : forall l, l = take_ws l ++ Skip.ws l /\ all_ws (take_ws l) /\ (length (take_ws l) = length l - length (Skip.ws l))%nat.
Proof.
  intros l. destruct (ws_split l) as [A B]. repeat split; try assumption.
  rewrite A at 2. rewrite app_length. lia.
Qed.

(* ---------- strings ---------- *)
Lemma simple_escape_some : forall e o, Ref.simple_escape e = Some o -> SkipStr.simple_escape e = true.
Proof.
  intros e o H. unfold Ref.simple_escape in H. unfold SkipStr.simple_escape.
  repeat match type of H with
         | (if ?c then _ else _) = _ => destruct c eqn:?
         end; try discriminate;
  repeat match goal with E : (_ =? _) = true |- _ => rewrite E end; rewrite ?orb_true_r; reflexivity.
Qed.

Lemma hex4_some : forall a b c d v, hex4 a b c d = Some v ->
  SkipStr.is_hex a = true /\ SkipStr.is_hex b = true /\ SkipStr.is_hex c = true /\ SkipStr.is_hex d = true.
Proof.
  intros a b c d v H. unfold hex4 in H.
  destruct (Ref.is_hex a && Ref.is_hex b && Ref.is_hex c && Ref.is_hex d) eqn:E; [|discriminate].
  apply andb_true_iff in E. destruct E as [E Ed]. apply andb_true_iff in E. destruct E as [E Ec].
  apply andb_true_iff in E. destruct E as [Ea Eb]. repeat split; assumption.
Qed.

Lemma str_body_sound : forall strict fuel l d h rest, Ref.str_body strict fuel l = Some (d, h, rest) ->
  exists body, l = body ++ 34 :: rest /\ SkipStr.str_body body.
Proof.
  intros strict. induction fuel as [|f IH]; intros l d h rest H; [discriminate|].
  cbn [Ref.str_body] in H. destruct l as [|c r]; [discriminate|].
  destruct (N.eqb_spec c 34) as [->|N1].
  { injection H as _ _ <-. exists []. split; [reflexivity|constructor]. }
  destruct (N.eqb_spec c 92) as [->|N2].
  { destruct r as [|e r1]; [discriminate|].
    destruct (N.eqb_spec e 117) as [->|N3].
    - destruct r1 as [|h1 [|h2 [|h3 [|h4 r2]]]]; try discriminate.
      destruct (hex4 h1 h2 h3 h4) as [cp|] eqn:Hx; [|discriminate].
      destruct (hex4_some _ _ _ _ _ Hx) as (X1 & X2 & X3 & X4).
      (* whatever branch is taken, the recursion continues either at r2 or after a second \uXXXX *)
      assert (K : forall d' h' , Ref.str_body strict f r2 = Some (d', h', rest) ->
                  exists body, 92 :: 117 :: h1 :: h2 :: h3 :: h4 :: r2 = body ++ 34 :: rest /\ SkipStr.str_body body).
      { intros d' h' R. destruct (IH _ _ _ _ R) as (b2 & E2 & B2).
        exists (92 :: 117 :: h1 :: h2 :: h3 :: h4 :: b2). split; [rewrite E2; reflexivity|].
        apply sb_u; assumption. }
      assert (K2 : forall (x : option (list N * bool * list N)) (g : list N -> list N),
                  match x with Some (d', _, rest') => Some (g d', true, rest') | None => None end = Some (d, h, rest) ->
                  exists d' h', x = Some (d', h', rest)).
      { intros x g E. destruct x as [[[d' h'] rest']|]; [|discriminate]. injection E as _ _ <-. eauto. }
      (* the "lone surrogate" continuation *)
      assert (KL : (if strict then None else match Ref.str_body strict f r2 with Some (d', _, rest') => Some (d', true, rest') | None => None end) = Some (d, h, rest) ->
                   exists body, 92 :: 117 :: h1 :: h2 :: h3 :: h4 :: r2 = body ++ 34 :: rest /\ SkipStr.str_body body).
      { intros E. destruct strict; [discriminate|]. destruct (K2 _ (fun x => x) E) as (d' & h' & R). exact (K _ _ R). }
      destruct ((55296 <=? cp) && (cp <=? 56319)).
      + destruct r2 as [|q1 [|q2 [|g1 [|g2 [|g3 [|g4 r3]]]]]]; try (exact (KL H)).
        destruct ((q1 =? 92) && (q2 =? 117)) eqn:QQ; [|exact (KL H)].
        apply andb_true_iff in QQ. destruct QQ as [Q1 Q2]. apply N.eqb_eq in Q1. apply N.eqb_eq in Q2. subst q1 q2.
        destruct (hex4 g1 g2 g3 g4) as [lo|] eqn:Hy; [|exact (KL H)].
        destruct (hex4_some _ _ _ _ _ Hy) as (Y1 & Y2 & Y3 & Y4).
        destruct ((56320 <=? lo) && (lo <=? 57343)); [|exact (KL H)].
        destruct (K2 _ _ H) as (d' & h' & R). destruct (IH _ _ _ _ R) as (b3 & E3 & B3).
        exists (92 :: 117 :: h1 :: h2 :: h3 :: h4 :: 92 :: 117 :: g1 :: g2 :: g3 :: g4 :: b3).
        split; [rewrite E3; reflexivity|]. apply sb_u; try assumption. apply sb_u; assumption.
      + destruct ((56320 <=? cp) && (cp <=? 57343)).
        * destruct strict; [discriminate|]. destruct (K2 _ (fun x => x) H) as (d' & h' & R). exact (K _ _ R).
        * destruct (K2 _ _ H) as (d' & h' & R). exact (K _ _ R).
    - destruct (Ref.simple_escape e) as [o|] eqn:SE; [|discriminate].
      destruct (Ref.str_body strict f r1) as [[[d' h'] rest']|] eqn:R; [|discriminate]. injection H as _ _ <-.
      destruct (IH _ _ _ _ R) as (b1 & E1 & B1). exists (92 :: e :: b1). split; [rewrite E1; reflexivity|].
      apply sb_esc; [exact (simple_escape_some _ _ SE)|exact B1]. }
  destruct (c <? 32) eqn:Lt; [discriminate|].
  destruct (Ref.str_body strict f r) as [[[d' h'] rest']|] eqn:R; [|discriminate]. injection H as _ _ <-.
  destruct (IH _ _ _ _ R) as (b1 & E1 & B1). exists (c :: b1). split; [rewrite E1; reflexivity|].
  apply sb_char; try assumption. apply N.ltb_ge in Lt. exact Lt.
Qed.

(* ---------- numbers: the reference scanner is the verified scanner ---------- *)
Lemma num_exp_same : forall l, Ref.num_exp l = SkipNum.exp_part l.
Proof. intros l. unfold Ref.num_exp, SkipNum.exp_part. destruct l as [|c r]; [reflexivity|].
  change (Ref.is_sign c) with (SkipNum.is_sign c). destruct (SkipNum.is_sign c); (destruct r as [|d r'] || idtac);
  try reflexivity; rewrite ?digit_same, ?digits_same; reflexivity. Qed.
Lemma num_after_frac_same : forall l, Ref.num_after_frac l = SkipNum.after_frac l.
Proof. intros [|c r]; [reflexivity|]. cbn [Ref.num_after_frac SkipNum.after_frac]. change (Ref.is_e c) with (SkipNum.is_e c).
  destruct (SkipNum.is_e c); [apply num_exp_same|reflexivity]. Qed.
Lemma num_after_int_same : forall l, Ref.num_after_int l = SkipNum.after_int l.
Proof. intros [|c r]; [reflexivity|]. cbn [Ref.num_after_int SkipNum.after_int].
  destruct (c =? 46).
  - destruct r as [|d r']; [reflexivity|]. rewrite digit_same. destruct (SkipNum.digit d); [|reflexivity].
    rewrite digits_same. apply num_after_frac_same.
  - change (Ref.is_e c) with (SkipNum.is_e c). destruct (SkipNum.is_e c); [apply num_exp_same|reflexivity]. Qed.

Lemma digit_not_45 : forall c, SkipNum.digit c = true -> (c =? 45) = false.
Proof. intros c H. unfold SkipNum.digit in H. apply andb_true_iff in H. destruct H as [A _]. apply N.leb_le in A. apply N.eqb_neq. lia. Qed.

Lemma num_int_is_go : forall d r rest, Ref.num_int (d :: r) = Some rest -> SkipNum.digit d = true /\ SkipNum.go d r = Some rest.
Proof.
  intros d r rest H. cbn [Ref.num_int] in H. unfold SkipNum.go.
  destruct (N.eqb_spec d 48) as [->|N0].
  - split; [reflexivity|]. destruct r as [|d2 r2].
    + rewrite num_after_int_same in H. cbn in H. exact H.
    + rewrite digit_same in H. cbn [andb N.eqb Pos.eqb]. destruct (SkipNum.digit d2) eqn:D2; [discriminate|].
      cbn [andb]. rewrite num_after_int_same in H.
      replace (SkipNum.digits (d2 :: r2)) with (d2 :: r2) by (cbn [SkipNum.digits]; rewrite D2; reflexivity). exact H.
  - rewrite digit_same in H. destruct (SkipNum.digit d) eqn:D; [|discriminate]. split; [reflexivity|].
    rewrite digits_same, num_after_int_same in H.
    destruct r as [|d2 r2]; [cbn in H; exact H|].
    replace ((d =? 48) && SkipNum.digit d2) with false by (apply N.eqb_neq in N0; rewrite N0; reflexivity). exact H.
Qed.

Lemma num_rest_sound : forall l rest, Ref.num_rest l = Some rest -> exists num, l = num ++ rest /\ is_number num.
Proof.
  intros l rest H. destruct l as [|c r]; [discriminate|]. cbn [Ref.num_rest] in H.
  destruct (N.eqb_spec c 45) as [->|N1].
  - destruct r as [|d r']; [discriminate|]. destruct (num_int_is_go _ _ _ H) as [D G].
    apply (skip_num_sound 45 (d :: r') rest); [left; reflexivity|]. cbn [SkipNum.skip_num N.eqb Pos.eqb]. rewrite D. exact G.
  - destruct (num_int_is_go _ _ _ H) as [D G].
    apply (skip_num_sound c r rest); [right; exact D|]. unfold SkipNum.skip_num.
    replace (c =? 45) with false by (symmetry; apply N.eqb_neq; exact N1). exact G.
Qed.

(* ---------- the parser ---------- *)
Lemma lit_match_sound : forall word l rest, lit_match word l = Some rest -> l = word ++ rest.
Proof. intros word l rest H. unfold lit_match in H. destruct (Nat.leb_spec (length word) (length l)); cbn in H; [|discriminate].
  destruct (list_eq_dec N.eq_dec (firstn (length word) l) word) as [E|]; [|discriminate]. inversion H; subst. rewrite <- E at 1. now rewrite firstn_skipn. Qed.

Definition Str (s : list N) : Prop := SkipAll.is_str s.

Lemma str_token : forall strict r d h rest, Ref.str_body strict (S (length r)) r = Some (d, h, rest) ->
  exists s, 34 :: r = s ++ rest /\ Str s.
Proof.
  intros strict r d h rest H. destruct (str_body_sound _ _ _ _ _ _ H) as (body & E & B).
  exists (34 :: body ++ [34]). split; [rewrite E; cbn [app]; rewrite <- app_assoc; reflexivity|].
  exists body. split; [reflexivity|exact B].
Qed.

Local Ltac not_byte c := exfalso; destruct c as [|p]; [discriminate|]; repeat (destruct p as [p|p|]; try discriminate); contradiction.

Theorem pvalue_sound : forall strict fuel,
  (forall pos l v a b rest, pvalue strict fuel pos l = Some (v, a, b, rest) ->
     exists w tok, l = w ++ tok ++ rest /\ all_ws w /\ Value tok /\ a = (pos + length w)%nat /\ b = (a + length tok)%nat) /\
  (forall pos l xs rest, pelems strict fuel pos l = Some (xs, rest) -> exists es, l = es ++ 93 :: rest /\ elements is_str is_num es) /\
  (forall pos l ms rest, pmembers strict fuel pos l = Some (ms, rest) -> exists ms', l = ms' ++ 125 :: rest /\ members is_str is_num ms').
Proof.
  intros strict. induction fuel as [|f (IH1 & IH2 & IH3)]; [repeat split; intros; discriminate|].
  split; [|split].
  - intros pos l v a b rest H. cbn [pvalue] in H. rewrite ws_same in H.
    destruct (ws_split_len l) as (A & B & L). destruct (Skip.ws l) as [|c r] eqn:Ew; [discriminate|].
    exists (take_ws l).
    (* a common closing step: l1 = tok ++ rest *)
    assert (Fin : forall tok, c :: r = tok ++ rest -> Value tok ->
              forall a' b', a' = (pos + (length l - length (c :: r)))%nat -> b' = (a' + (length (c :: r) - length rest))%nat ->
              exists tok0, l = take_ws l ++ tok0 ++ rest /\ all_ws (take_ws l) /\ Value tok0 /\ a' = (pos + length (take_ws l))%nat /\ b' = (a' + length tok0)%nat).
    { intros tok E V a' b' Ea Eb. exists tok. rewrite A at 1. rewrite E. repeat split; auto; [rewrite L; exact Ea|].
      rewrite Eb. f_equal. rewrite E. rewrite app_length. lia. }
    destruct (N.eqb_spec c 34) as [->|N1].
    { destruct (Ref.str_body strict (S (length r)) r) as [[[d h] rest']|] eqn:S1; [|discriminate]. injection H as <- <- <- <-.
      destruct (str_token _ _ _ _ _ S1) as (s & Es & Hs). apply (Fin s Es); [apply v_str; exact Hs|reflexivity|reflexivity]. }
    destruct (N.eqb_spec c 91) as [->|N2].
    { rewrite ws_same in H. destruct (ws_split r) as [A0 B0]. destruct (Skip.ws r) as [|c2 r2] eqn:Er.
      - destruct (pelems strict f (S (pos + (length l - length (91%N :: r)))) r) as [[xs rest']|] eqn:PE; [|discriminate]. injection H as <- <- <- <-.
        destruct (IH2 _ _ _ _ PE) as (es & E & He). apply (Fin (91 :: es ++ [93])); [rewrite E; cbn [app]; rewrite <- app_assoc; reflexivity|apply v_arr; exact He|reflexivity|reflexivity].
      - destruct (N.eqb_spec c2 93) as [->|N3].
        + injection H as <- <- <- <-. apply (Fin (91 :: take_ws r ++ [93])); [rewrite A0 at 1; cbn [app]; rewrite <- app_assoc; reflexivity|apply v_arr0; exact B0|reflexivity|reflexivity].
        + assert (H' : match pelems strict f (S (pos + (length l - length (91%N :: r)))) r with
                       | Some (xs, rest0) => Some (JArr xs, (pos + (length l - length (91%N :: r)))%nat, (pos + (length l - length (91%N :: r)) + (length (91%N :: r) - length rest0))%nat, rest0)
                       | None => None end = Some (v, a, b, rest)).
          { destruct c2 as [|p]; [exact H|]. repeat (destruct p as [p|p|]; try exact H); contradiction. }
          destruct (pelems strict f (S (pos + (length l - length (91%N :: r)))) r) as [[xs rest']|] eqn:PE; [|discriminate]. injection H' as <- <- <- <-.
          destruct (IH2 _ _ _ _ PE) as (es & E & He). apply (Fin (91 :: es ++ [93])); [rewrite E; cbn [app]; rewrite <- app_assoc; reflexivity|apply v_arr; exact He|reflexivity|reflexivity]. }
    destruct (N.eqb_spec c 123) as [->|N3].
    { rewrite ws_same in H. destruct (ws_split r) as [A0 B0]. destruct (Skip.ws r) as [|c2 r2] eqn:Er.
      - destruct (pmembers strict f (S (pos + (length l - length (123%N :: r)))) r) as [[ms rest']|] eqn:PM; [|discriminate]. injection H as <- <- <- <-.
        destruct (IH3 _ _ _ _ PM) as (ms' & E & Hm). apply (Fin (123 :: ms' ++ [125])); [rewrite E; cbn [app]; rewrite <- app_assoc; reflexivity|apply v_obj; exact Hm|reflexivity|reflexivity].
      - destruct (N.eqb_spec c2 125) as [->|N4].
        + injection H as <- <- <- <-. apply (Fin (123 :: take_ws r ++ [125])); [rewrite A0 at 1; cbn [app]; rewrite <- app_assoc; reflexivity|apply v_obj0; exact B0|reflexivity|reflexivity].
        + assert (H' : match pmembers strict f (S (pos + (length l - length (123%N :: r)))) r with
                       | Some (ms, rest0) => Some (JObj ms, (pos + (length l - length (123%N :: r)))%nat, (pos + (length l - length (123%N :: r)) + (length (123%N :: r) - length rest0))%nat, rest0)
                       | None => None end = Some (v, a, b, rest)).
          { destruct c2 as [|p]; [exact H|]. repeat (destruct p as [p|p|]; try exact H); contradiction. }
          destruct (pmembers strict f (S (pos + (length l - length (123%N :: r)))) r) as [[ms rest']|] eqn:PM; [|discriminate]. injection H' as <- <- <- <-.
          destruct (IH3 _ _ _ _ PM) as (ms' & E & Hm). apply (Fin (123 :: ms' ++ [125])); [rewrite E; cbn [app]; rewrite <- app_assoc; reflexivity|apply v_obj; exact Hm|reflexivity|reflexivity]. }
    destruct (N.eqb_spec c 116) as [->|N4].
    { destruct (lit_match [114; 117; 101] r) as [rest'|] eqn:LM; [|discriminate]. injection H as <- <- <- <-.
      apply lit_match_sound in LM. apply (Fin [116; 114; 117; 101]); [rewrite LM; reflexivity|apply v_true|reflexivity|].
      rewrite LM. cbn [length app]. lia. }
    destruct (N.eqb_spec c 102) as [->|N5].
    { destruct (lit_match [97; 108; 115; 101] r) as [rest'|] eqn:LM; [|discriminate]. injection H as <- <- <- <-.
      apply lit_match_sound in LM. apply (Fin [102; 97; 108; 115; 101]); [rewrite LM; reflexivity|apply v_false|reflexivity|].
      rewrite LM. cbn [length app]. lia. }
    destruct (N.eqb_spec c 110) as [->|N6].
    { destruct (lit_match [117; 108; 108] r) as [rest'|] eqn:LM; [|discriminate]. injection H as <- <- <- <-.
      apply lit_match_sound in LM. apply (Fin [110; 117; 108; 108]); [rewrite LM; reflexivity|apply v_null|reflexivity|].
      rewrite LM. cbn [length app]. lia. }
    destruct ((c =? 45) || Ref.digit c); [|discriminate].
    destruct (Ref.num_rest (c :: r)) as [rest'|] eqn:NR; [|discriminate]. injection H as <- <- <- <-.
    destruct (num_rest_sound _ _ NR) as (n & En & Hn). apply (Fin n En); [apply v_num; exact Hn|reflexivity|reflexivity].
  - intros pos l xs rest H. cbn [pelems] in H.
    destruct (pvalue strict f pos l) as [[[[v a] b] r]|] eqn:PV; [|discriminate].
    destruct (IH1 _ _ _ _ _ _ PV) as (w & tok & E & Hw & Hv & _ & _).
    rewrite ws_same in H. destruct (ws_split r) as [A B]. destruct (Skip.ws r) as [|c r'] eqn:Er; [discriminate|].
    destruct (N.eqb_spec c 93) as [->|N1].
    + injection H as _ <-. exists (w ++ tok ++ take_ws r). split; [rewrite E at 1; rewrite A at 1; now rewrite <- !app_assoc|now constructor].
    + destruct (N.eqb_spec c 44) as [->|N2]; [|not_byte c].
      destruct (pelems strict f (S (b + (length r - length (44%N :: r')))) r') as [[xs' r3]|] eqn:PE; [|discriminate]. injection H as _ <-.
      destruct (IH2 _ _ _ _ PE) as (es & E2 & He). exists (w ++ tok ++ take_ws r ++ 44 :: es).
      split; [rewrite E at 1; rewrite A at 1; rewrite E2; now rewrite <- !app_assoc|now constructor].
  - intros pos l ms rest H. cbn [pmembers] in H. rewrite ws_same in H.
    destruct (ws_split l) as [A0 B0]. destruct (Skip.ws l) as [|q k] eqn:El; [discriminate|].
    destruct (N.eqb_spec q 34) as [->|Nq]; [|not_byte q].
    destruct (Ref.str_body strict (S (length k)) k) as [[[key hk] r]|] eqn:SK; [|discriminate].
    destruct (str_token _ _ _ _ _ SK) as (s & Es & Hstr).
    rewrite ws_same in H. destruct (ws_split r) as [A B]. destruct (Skip.ws r) as [|c r1] eqn:Er; [discriminate|].
    destruct (N.eqb_spec c 58) as [->|Nc]; [|not_byte c].
    match type of H with match pvalue strict f ?P r1 with _ => _ end = _ => destruct (pvalue strict f P r1) as [[[[v a] b] r2]|] eqn:PV; [|discriminate] end.
    destruct (IH1 _ _ _ _ _ _ PV) as (w3 & tok & E3 & Hw3 & Hval & _ & _).
    rewrite ws_same in H. destruct (ws_split r2) as [A2 B2]. destruct (Skip.ws r2) as [|c2 r3] eqn:Er2; [discriminate|].
    destruct (N.eqb_spec c2 125) as [->|N1].
    + injection H as _ <-. exists (take_ws l ++ s ++ take_ws r ++ 58 :: w3 ++ tok ++ take_ws r2).
      split; [rewrite A0 at 1; rewrite Es; rewrite A at 1; rewrite E3; rewrite A2 at 1; repeat (first [rewrite <- app_assoc | progress (cbn [app])]); reflexivity|apply m_last; auto].
    + destruct (N.eqb_spec c2 44) as [->|N2]; [|not_byte c2].
      match type of H with match pmembers strict f ?P r3 with _ => _ end = _ => destruct (pmembers strict f P r3) as [[ms2 r6]|] eqn:PM; [|discriminate] end.
      injection H as _ <-. destruct (IH3 _ _ _ _ PM) as (ms' & E4 & Hm).
      exists (take_ws l ++ s ++ take_ws r ++ 58 :: w3 ++ tok ++ take_ws r2 ++ 44 :: ms').
      split; [rewrite A0 at 1; rewrite Es; rewrite A at 1; rewrite E3; rewrite A2 at 1; rewrite E4; repeat (first [rewrite <- app_assoc | progress (cbn [app])]); reflexivity|].
      apply m_cons; auto.
Qed.

(* whole texts *)
Theorem ref_text_sound : forall strict l v a b, ref_text strict l = Some (v, a, b) ->
  exists w1 tok w2, l = w1 ++ tok ++ w2 /\ all_ws w1 /\ Value tok /\ all_ws w2 /\ a = length w1 /\ b = (a + length tok)%nat.
Proof.
  intros strict l v a b H. unfold ref_text in H.
  destruct (pvalue strict (fuel_for l) 0 l) as [[[[v' a'] b'] rest]|] eqn:PV; [|discriminate].
  rewrite ws_same in H. destruct (Skip.ws rest) eqn:W; [|discriminate]. injection H as <- <- <-.
  destruct (proj1 (pvalue_sound strict (fuel_for l)) _ _ _ _ _ _ PV) as (w & tok & E & Hw & Hv & Ea & Eb).
  exists w, tok, rest. repeat split; try assumption. apply ws_nil_all_ws. exact W.
Qed.

(* ---------- the reference get on arbitrary bytes: what it returns is a well-formed value, located
   exactly where it says, inside the input (the oracle of C14 is sound for the grammar) ---------- *)
Lemma skip_elems_offset : forall i pos l p2 l2, skip_elems i pos l = Some (p2, l2) ->
  exists mid, l = mid ++ l2 /\ p2 = (pos + length mid)%nat.
Proof.
  induction i as [|i IH]; intros pos l p2 l2 H; cbn [skip_elems] in H.
  - injection H as <- <-. exists []. split; [reflexivity|cbn; lia].
  - destruct (pvalue false (fuel_for l) pos l) as [[[[v a] b] rest]|] eqn:PV; [|discriminate].
    destruct (proj1 (pvalue_sound false (fuel_for l)) _ _ _ _ _ _ PV) as (w & tok & E & _ & _ & Ea & Eb).
    rewrite ws_same in H. destruct (ws_split_len rest) as (A & _ & L). destruct (Skip.ws rest) as [|c r2] eqn:Er; [discriminate|].
    destruct (N.eqb_spec c 44) as [->|N1]; [|exfalso; destruct c as [|p]; [discriminate|]; repeat (destruct p as [p|p|]; try discriminate); contradiction].
    destruct (IH _ _ _ _ H) as (mid & E2 & P2).
    exists (w ++ tok ++ take_ws rest ++ 44 :: mid). split.
    + rewrite E at 1. rewrite A at 1. rewrite E2. repeat (first [rewrite <- app_assoc | progress (cbn [app])]); reflexivity.
    + rewrite P2, Eb, Ea. repeat (rewrite app_length; cbn [length]). rewrite L. cbn [length]. lia.
Qed.

Lemma find_member_offset : forall fuel k pos l p2 l2, find_member fuel k pos l = Some (p2, l2) ->
  exists mid, l = mid ++ l2 /\ p2 = (pos + length mid)%nat.
Proof.
  induction fuel as [|f IH]; intros k pos l p2 l2 H; [discriminate|]. cbn [find_member] in H.
  rewrite ws_same in H. destruct (ws_split_len l) as (A0 & _ & L0). destruct (Skip.ws l) as [|q kr] eqn:El; [discriminate|].
  destruct (N.eqb_spec q 34) as [->|Nq]; [|exfalso; destruct q as [|p]; [discriminate|]; repeat (destruct p as [p|p|]; try discriminate); contradiction].
  destruct (Ref.str_body true (S (length kr)) kr) as [[[key hk] rest]|] eqn:SK; [|discriminate].
  destruct (str_body_sound _ _ _ _ _ _ SK) as (body & Eb & _).
  rewrite ws_same in H. destruct (ws_split_len rest) as (A1 & _ & L1). destruct (Skip.ws rest) as [|c r2] eqn:Er; [discriminate|].
  destruct (N.eqb_spec c 58) as [->|Nc]; [|exfalso; destruct c as [|p]; [discriminate|]; repeat (destruct p as [p|p|]; try discriminate); contradiction].
  (* offset of r2 *)
  assert (Off : exists pre, l = pre ++ r2 /\ (S (pos + (length l - length (34%N :: kr)) + (length (34%N :: kr) - length rest) + (length rest - length (58%N :: r2))) = pos + length pre)%nat).
  { exists (take_ws l ++ 34 :: body ++ 34 :: take_ws rest ++ [58]). split.
    - rewrite A0 at 1. rewrite Eb. rewrite A1 at 1. repeat (first [rewrite <- app_assoc | progress (cbn [app])]); reflexivity.
    - pose proof (f_equal (@length N) A0) as LA0. pose proof (f_equal (@length N) Eb) as LEb. pose proof (f_equal (@length N) A1) as LA1.
      repeat (rewrite app_length in LA0, LEb, LA1 |- * ; cbn [length] in LA0, LEb, LA1 |- * ).
      repeat (rewrite app_length; cbn [length]). lia. }
  destruct Off as (pre & Ep & Lp).
  destruct (bytes_eqb key k).
  - injection H as <- <-. exists pre. split; [exact Ep|]. exact Lp.
  - match type of H with match pvalue false ?F ?P r2 with _ => _ end = _ => destruct (pvalue false F P r2) as [[[[v a] b] r3]|] eqn:PV; [|discriminate] end.
    destruct (proj1 (pvalue_sound false _) _ _ _ _ _ _ PV) as (w & tok & E & _ & _ & Ea & Eb2).
    rewrite ws_same in H. destruct (ws_split_len r3) as (A3 & _ & L3). destruct (Skip.ws r3) as [|c3 r5] eqn:Er3; [discriminate|].
    destruct (N.eqb_spec c3 44) as [->|N3]; [|exfalso; destruct c3 as [|p]; [discriminate|]; repeat (destruct p as [p|p|]; try discriminate); contradiction].
    destruct (IH _ _ _ _ _ H) as (mid & E5 & P5).
    exists (pre ++ w ++ tok ++ take_ws r3 ++ 44 :: mid). split.
    + rewrite Ep at 1. rewrite E at 1. rewrite A3 at 1. rewrite E5. repeat (first [rewrite <- app_assoc | progress (cbn [app])]); reflexivity.
    + rewrite Lp in Ea. rewrite P5, Eb2, Ea. repeat (rewrite app_length; cbn [length]). rewrite L3. cbn [length]. lia.
Qed.

Theorem ref_get_at_sound : forall p pos l a b, ref_get_at p pos l = Some (a, b) ->
  exists pre tok post, l = pre ++ tok ++ post /\ a = (pos + length pre)%nat /\ b = (a + length tok)%nat /\ Value tok.
Proof.
  induction p as [|e p IH]; intros pos l a b H; cbn [ref_get_at] in H.
  - destruct (pvalue false (fuel_for l) pos l) as [[[[v a'] b'] rest]|] eqn:PV; [|discriminate]. injection H as <- <-.
    destruct (proj1 (pvalue_sound false _) _ _ _ _ _ _ PV) as (w & tok & E & _ & Hv & Ea & Eb).
    exists w, tok, rest. repeat split; assumption.
  - destruct e as [k|i].
    + rewrite ws_same in H. destruct (ws_split_len l) as (A0 & _ & L0). destruct (Skip.ws l) as [|c r] eqn:El; [discriminate|].
      destruct (N.eqb_spec c 123) as [->|Nc]; [|exfalso; destruct c as [|q]; [discriminate|]; repeat (destruct q as [q|q|]; try discriminate); contradiction].
      match type of H with match find_member ?F k ?P r with _ => _ end = _ => destruct (find_member F k P r) as [[p2 r2]|] eqn:FM; [|discriminate] end.
      destruct (find_member_offset _ _ _ _ _ _ FM) as (mid & E2 & P2).
      destruct (IH _ _ _ _ H) as (pre & tok & post & E3 & Ea & Eb & Hv).
      exists (take_ws l ++ 123 :: mid ++ pre), tok, post. repeat split; try assumption.
      * rewrite A0 at 1. rewrite E2. rewrite E3. repeat (first [rewrite <- app_assoc | progress (cbn [app])]); reflexivity.
      * rewrite Ea, P2. rewrite !app_length. cbn [length]. rewrite app_length. rewrite L0. cbn [length]. lia.
    + rewrite ws_same in H. destruct (ws_split_len l) as (A0 & _ & L0). destruct (Skip.ws l) as [|c r] eqn:El; [discriminate|].
      destruct (N.eqb_spec c 91) as [->|Nc]; [|exfalso; destruct c as [|q]; [discriminate|]; repeat (destruct q as [q|q|]; try discriminate); contradiction].
      match type of H with match skip_elems i ?P r with _ => _ end = _ => destruct (skip_elems i P r) as [[p2 r2]|] eqn:SE; [|discriminate] end.
      destruct (skip_elems_offset _ _ _ _ _ SE) as (mid & E2 & P2).
      destruct (IH _ _ _ _ H) as (pre & tok & post & E3 & Ea & Eb & Hv).
      exists (take_ws l ++ 91 :: mid ++ pre), tok, post. repeat split; try assumption.
      * rewrite A0 at 1. rewrite E2. rewrite E3. repeat (first [rewrite <- app_assoc | progress (cbn [app])]); reflexivity.
      * rewrite Ea, P2. rewrite !app_length. cbn [length]. rewrite app_length. rewrite L0. cbn [length]. lia.
Qed.

Theorem ref_get_sound : forall l p a b, ref_get l p = Some (a, b) ->
  exists pre tok post, l = pre ++ tok ++ post /\ a = length pre /\ b = (a + length tok)%nat /\ Value tok.
Proof. intros l p a b H. exact (ref_get_at_sound p 0 l a b H). Qed.
