From Coq Require Import List Arith Lia Bool.
Import ListNotations.

Section Promote.
Variable key val : Type.
Variable keq : forall a b : key, {a = b} + {a <> b}.

(* arena object: the member list in source order; Value::get_key scans it: first match wins *)
Fixpoint get_first (ps : list (key * val)) (k : key) : option val :=
  match ps with [] => None | (k', v) :: r => if keq k' k then Some v else get_first r k end.

(* owned object: a map; modelled as a function. From<&[Pair]> inserts the members in order. *)
Definition map_ := key -> option val.
Definition empty : map_ := fun _ => None.
Definition insert (m : map_) (k : key) (v : val) : map_ := fun q => if keq k q then Some v else m q.
Definition promote (ps : list (key * val)) : map_ := fold_left (fun m p => insert m (fst p) (snd p)) ps empty.

Lemma fold_insert_notin : forall ps m k, ~ In k (map fst ps) -> fold_left (fun m p => insert m (fst p) (snd p)) ps m k = m k.
Proof.
  induction ps as [|[k' v] r IH]; intros m k H; cbn [fold_left]; [reflexivity|].
  cbn [map fst In] in H. rewrite IH by tauto. unfold insert. cbn [fst snd]. destruct (keq k' k); [tauto|reflexivity].
Qed.

(* without duplicate names, promotion does not change what get returns — for every key *)
Theorem promote_preserves_get : forall ps, NoDup (map fst ps) -> forall k, promote ps k = get_first ps k.
Proof.
  unfold promote. intros ps H. 
  assert (G : forall m, (forall k, In k (map fst ps) -> m k = None) -> forall k, 
            fold_left (fun m p => insert m (fst p) (snd p)) ps m k = match get_first ps k with Some v => Some v | None => m k end).
  { induction ps as [|[k' v] r IH]; intros m Hm k; cbn [fold_left get_first]; [reflexivity|].
    inversion H as [|? ? Hn Hr]; subst. cbn [fst snd]. destruct (keq k' k) as [->|Hne].
    - rewrite fold_insert_notin by exact Hn. unfold insert. destruct (keq k k); [reflexivity|contradiction].
    - rewrite IH; [|exact Hr|].
      + destruct (get_first r k); [reflexivity|]. unfold insert. destruct (keq k' k); [contradiction|reflexivity].
      + intros q Hq. unfold insert. destruct (keq k' q) as [->|]; [contradiction|]. apply Hm. cbn [map fst In]. tauto. }
  intros k. rewrite G by (intros; reflexivity). destruct (get_first ps k); reflexivity.
Qed.

(* with a duplicate name the two disagree: F6 *)
Theorem promote_refuted : forall (a : key) (v1 v2 : val), v1 <> v2 ->
  promote [(a, v1); (a, v2)] a <> get_first [(a, v1); (a, v2)] a.
Proof.
  intros a v1 v2 Hne. unfold promote, insert. cbn. destruct (keq a a); [|contradiction]. congruence.
Qed.
End Promote.
Print Assumptions promote_preserves_get.
