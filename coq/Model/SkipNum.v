From Coq Require Import List NArith Arith Lia Bool.
Import ListNotations.
Open Scope N_scope.

Definition digit (c : N) : bool := (48 <=? c) && (c <=? 57).
Definition is_e (c : N) : bool := (c =? 101) || (c =? 69).
Definition is_sign (c : N) : bool := (c =? 43) || (c =? 45).

(* ---------- Spec: RFC 8259 number ---------- *)
Definition all_digits (l : list N) : Prop := Forall (fun c => digit c = true) l.
Definition is_int (s : list N) : Prop := s = [48] \/ exists d ds, s = d :: ds /\ digit d = true /\ d <> 48 /\ all_digits ds.
Definition is_frac (s : list N) : Prop := s = [] \/ exists ds, s = 46 :: ds /\ ds <> [] /\ all_digits ds.
Definition is_exp (s : list N) : Prop := s = [] \/ exists e sg ds, s = e :: sg ++ ds /\ is_e e = true /\ (sg = [] \/ exists c, sg = [c] /\ is_sign c = true) /\ ds <> [] /\ all_digits ds.
Definition is_number (s : list N) : Prop :=
  exists sg i f e, s = sg ++ i ++ f ++ e /\ (sg = [] \/ sg = [45]) /\ is_int i /\ is_frac f /\ is_exp e.

(* ---------- Model: Parser::do_skip_number, scalar form (the 32-byte digit loop is [digits] by the block-scan lemma) ---------- *)
Fixpoint digits (l : list N) : list N := match l with c :: r => if digit c then digits r else l | [] => [] end.   (* drop leading digits *)
Fixpoint take_digits (l : list N) : list N := match l with c :: r => if digit c then c :: take_digits r else [] | [] => [] end.

Definition exp_part (l : list N) : option (list N) :=        (* skip_exponent *)
  let l1 := match l with c :: r => if is_sign c then r else l | [] => l end in
  match l1 with d :: r => if digit d then Some (digits r) else None | [] => None end.
Definition after_frac (l : list N) : option (list N) :=
  match l with c :: r => if is_e c then exp_part r else Some l | [] => Some l end.
Definition after_int (l : list N) : option (list N) :=
  match l with
  | c :: r => if c =? 46 then match r with d :: r' => if digit d then after_frac (digits r') else None | [] => None end
              else if is_e c then exp_part r else Some l
  | [] => Some l
  end.
Definition go (first : N) (l : list N) : option (list N) :=
  match l with second :: _ => if (first =? 48) && digit second then None else after_int (digits l) | [] => Some [] end.
Definition skip_num (first : N) (l : list N) : option (list N) :=     (* first is '-' or a digit, already consumed *)
  if first =? 45 then match l with d :: r => if digit d then go d r else None | [] => None end
  else go first l.

Lemma digits_split : forall l, l = take_digits l ++ digits l /\ all_digits (take_digits l).
Proof.
  induction l as [|c r [IH1 IH2]]; cbn; [split; [reflexivity|constructor]|].
  destruct (digit c) eqn:Hc; cbn; [|split; [reflexivity|constructor]].
  split; [now f_equal | now constructor].
Qed.

Lemma exp_part_sound : forall e l rest, is_e e = true -> exp_part l = Some rest ->
  exists x, e :: l = x ++ rest /\ is_exp x /\ x <> [].
Proof.
  intros e l rest He H. unfold exp_part in H.
  assert (Hgen : forall sg l1, (sg = [] \/ exists c, sg = [c] /\ is_sign c = true) -> l = sg ++ l1 ->
            match l1 with d :: r => if digit d then Some (digits r) else None | [] => None end = Some rest ->
            exists x, e :: l = x ++ rest /\ is_exp x /\ x <> []).
  { intros sg l1 Hsg El Hm. destruct l1 as [|d r]; [discriminate|]. destruct (digit d) eqn:Hd; [|discriminate]. inversion Hm; subst rest.
    destruct (digits_split r) as [Hr Hall]. exists (e :: sg ++ d :: take_digits r). split; [|split; [|discriminate]].
    - rewrite El. cbn. f_equal. rewrite <- app_assoc. cbn. f_equal. f_equal. exact Hr.
    - right. exists e, sg, (d :: take_digits r). repeat split; auto; [discriminate|now constructor]. }
  destruct l as [|c r]; [discriminate|].
  destruct (is_sign c) eqn:Hs.
  - apply (Hgen [c] r); [right; eauto|reflexivity|exact H].
  - apply (Hgen [] (c :: r)); [left; reflexivity|reflexivity|exact H].
Qed.

Lemma after_frac_sound : forall l rest, after_frac l = Some rest -> exists x, l = x ++ rest /\ is_exp x.
Proof.
  intros [|c r] rest H; cbn in H.
  - inversion H; subst. exists []. split; [reflexivity|now left].
  - destruct (is_e c) eqn:He.
    + destruct (exp_part_sound c r rest He H) as (x & A & B & _). eauto.
    + inversion H; subst. exists []. split; [reflexivity|now left].
Qed.

Lemma after_int_sound : forall l rest, after_int l = Some rest -> exists f e, l = f ++ e ++ rest /\ is_frac f /\ is_exp e.
Proof.
  intros [|c r] rest H; cbn in H.
  - inversion H; subst. exists [], []. repeat split; now left.
  - destruct (N.eqb_spec c 46) as [->|Hc].
    + destruct r as [|d r']; [discriminate|]. destruct (digit d) eqn:Hd; [|discriminate].
      destruct (digits_split r') as [Hr Hall]. destruct (after_frac_sound _ _ H) as (x & A & B).
      exists (46 :: d :: take_digits r'), x. split; [|split; [|exact B]].
      * cbn. f_equal. f_equal. rewrite <- A. exact Hr.
      * right. exists (d :: take_digits r'). repeat split; [discriminate|now constructor].
    + destruct (is_e c) eqn:He.
      * destruct (exp_part_sound c r rest He H) as (x & A & B & _). exists [], x. split; [exact A|split; [now left|exact B]].
      * inversion H; subst. exists [], []. repeat split; now left.
Qed.

Lemma go_sound : forall first l rest, digit first = true -> go first l = Some rest ->
  exists i f e, first :: l = i ++ f ++ e ++ rest /\ is_int i /\ is_frac f /\ is_exp e.
Proof.
  intros first l rest Hf H. unfold go in H. destruct l as [|second r].
  - inversion H; subst. exists [first], [], []. split; [reflexivity|]. split; [|split; now left].
    destruct (N.eqb_spec first 48) as [->|Hz]; [now left|right; exists first, []; repeat split; auto; constructor].
  - destruct ((first =? 48) && digit second) eqn:Hz; [discriminate|].
    destruct (digits_split (second :: r)) as [Hr Hall]. destruct (after_int_sound _ _ H) as (f & e & A & B & C).
    exists (first :: take_digits (second :: r)), f, e. split; [|split; [|split; assumption]].
    + cbn [app]. f_equal. rewrite <- A. exact Hr.
    + destruct (N.eqb_spec first 48) as [->|Hnz].
      * cbn [andb] in Hz. cbn [take_digits]. rewrite Hz. now left.
      * right. exists first, (take_digits (second :: r)). repeat split; auto.
Qed.

Theorem skip_num_sound : forall first l rest, (first = 45 \/ digit first = true) -> skip_num first l = Some rest ->
  exists num, first :: l = num ++ rest /\ is_number num.
Proof.
  intros first l rest Hfirst H. unfold skip_num in H.
  destruct (N.eqb_spec first 45) as [->|Hm].
  - destruct l as [|d r]; [discriminate|]. destruct (digit d) eqn:Hd; [|discriminate].
    destruct (go_sound d r rest Hd H) as (i & f & e & A & B & C & D).
    exists (45 :: i ++ f ++ e). split; [cbn; f_equal; rewrite A; now rewrite <- !app_assoc|].
    exists [45], i, f, e. repeat split; auto.
  - destruct Hfirst as [|Hd]; [contradiction|].
    destruct (go_sound first l rest Hd H) as (i & f & e & A & B & C & D).
    exists (i ++ f ++ e). split; [rewrite A; now rewrite <- !app_assoc|].
    exists [], i, f, e. repeat split; auto.
Qed.
Print Assumptions skip_num_sound.
Example ex_ok  : skip_num 45 [49;50;46;53;101;43;55;44] = Some [44].  Proof. reflexivity. Qed.   (* -12.5e+7, *)
Example ex_bad : skip_num 48 [49] = None.                             Proof. reflexivity. Qed.   (* 01 *)

(* ---------- completeness: an RFC number followed by a byte that cannot continue it is skipped exactly ---------- *)
Definition stops (rest : list N) : Prop :=            (* what follows a number in a well-formed text: nothing, whitespace, or , ] } *)
  match rest with [] => True | c :: _ => digit c = false /\ c <> 46 /\ is_e c = false end.

Lemma digits_app : forall ds rest, all_digits ds -> stops rest -> digits (ds ++ rest) = rest.
Proof.
  induction ds as [|d r IH]; intros rest H Hs; cbn [app].
  - destruct rest as [|c t]; [reflexivity|]. cbn [digits]. destruct Hs as (Hd & _). now rewrite Hd.
  - inversion H as [|? ? Hd Hr]; subst. cbn [digits]. rewrite Hd. now apply IH.
Qed.
Lemma digits_app_gen : forall ds rest, all_digits ds -> (match rest with [] => True | c :: _ => digit c = false end) -> digits (ds ++ rest) = rest.
Proof.
  induction ds as [|d r IH]; intros rest H Hs; cbn [app].
  - destruct rest as [|c t]; [reflexivity|]. cbn [digits]. now rewrite Hs.
  - inversion H as [|? ? Hd Hr]; subst. cbn [digits]. rewrite Hd. now apply IH.
Qed.

Lemma exp_complete : forall x rest, is_exp x -> x <> [] -> stops rest ->
  exists e t, x = e :: t /\ is_e e = true /\ exp_part (t ++ rest) = Some rest.
Proof.
  intros x rest [->|(e & sg & ds & -> & He & Hsg & Hne & Hds)] Hx Hs; [congruence|].
  exists e, (sg ++ ds). split; [reflexivity|split; [exact He|]].
  destruct ds as [|d dr]; [congruence|]. inversion Hds as [|? ? Hd Hdr]; subst.
  assert (Hnosign : is_sign d = false). { unfold digit in Hd. unfold is_sign. apply andb_true_iff in Hd. destruct Hd as [A B]. apply N.leb_le in A, B. apply orb_false_iff. split; apply N.eqb_neq; lia. }
  unfold exp_part. destruct Hsg as [->|(c & -> & Hc)]; cbn [app].
  - rewrite Hnosign, Hd. f_equal. now apply digits_app.
  - rewrite Hc, Hd. f_equal. now apply digits_app.
Qed.

Lemma after_frac_complete : forall x rest, is_exp x -> stops rest -> after_frac (x ++ rest) = Some rest.
Proof.
  intros x rest Hx Hs. destruct x as [|e t].
  - cbn [app]. destruct rest as [|c r]; [reflexivity|]. cbn [after_frac]. destruct Hs as (_ & _ & He). now rewrite He.
  - destruct (exp_complete (e :: t) rest Hx ltac:(discriminate) Hs) as (e' & t' & E & He & Hp). inversion E; subst e' t'.
    cbn [app after_frac]. now rewrite He.
Qed.

Lemma not_e_of_dot : is_e 46 = false. Proof. reflexivity. Qed.

Lemma after_int_complete : forall f x rest, is_frac f -> is_exp x -> stops rest -> after_int (f ++ x ++ rest) = Some rest.
Proof.
  intros f x rest [->|(ds & -> & Hne & Hds)] Hx Hs.
  - cbn [app]. destruct x as [|e t].
    + cbn [app]. destruct rest as [|c r]; [reflexivity|]. cbn [after_int]. destruct Hs as (_ & Hdot & He).
      destruct (N.eqb_spec c 46); [contradiction|]. now rewrite He.
    + destruct (exp_complete (e :: t) rest Hx ltac:(discriminate) Hs) as (e' & t' & E & He & Hp). inversion E; subst e' t'.
      cbn [app after_int]. destruct (N.eqb_spec e 46) as [->|]; [discriminate|]. now rewrite He.
  - destruct ds as [|d dr]; [congruence|]. inversion Hds as [|? ? Hd Hdr]; subst.
    cbn [app after_int]. rewrite N.eqb_refl, Hd.
    rewrite digits_app_gen; [now apply after_frac_complete|exact Hdr|].
    destruct x as [|e t]; cbn [app].
    + destruct rest as [|c r]; [exact I|]. now destruct Hs.
    + destruct Hx as [|(e' & sg & ds' & E & He & _)]; [discriminate|]. inversion E; subst.
      unfold is_e in He. unfold digit. apply orb_true_iff in He. destruct He as [He|He]; apply N.eqb_eq in He; subst; reflexivity.
Qed.

Theorem skip_num_complete : forall num rest, is_number num -> stops rest ->
  exists first l, num ++ rest = first :: l /\ skip_num first l = Some rest.
Proof.
  intros num rest (sg & i & f & e & -> & Hsg & Hi & Hf & He) Hs.
  assert (Hgo : forall d ds, i = d :: ds -> go d (ds ++ f ++ e ++ rest) = Some rest).
  { intros d ds ->. unfold go. destruct Hi as [Hi|(d' & ds' & E & Hd & Hnz & Hds)].
    - inversion Hi; subst d ds. cbn [app]. 
      assert (Hnd : match f ++ e ++ rest with [] => True | c :: _ => digit c = false end).
      { destruct Hf as [->|(fs & -> & _)]; [|reflexivity]. cbn [app]. destruct He as [->|(e' & sg' & ds' & -> & Hee & _)].
        - cbn [app]. destruct rest; [exact I|now destruct Hs].
        - cbn [app]. unfold is_e in Hee. unfold digit. apply orb_true_iff in Hee. destruct Hee as [Hee|Hee]; apply N.eqb_eq in Hee; subst; reflexivity. }
      destruct (f ++ e ++ rest) as [|c t] eqn:E.
      + destruct f; [destruct e; [destruct rest; [reflexivity|discriminate]|discriminate]|discriminate].
      + rewrite Hnd. cbn [andb]. cbn [digits]. rewrite Hnd. rewrite <- E. now apply after_int_complete.
    - inversion E; subst d' ds'. 
      assert (Hz : (d =? 48) = false) by now apply N.eqb_neq.
      destruct (ds ++ f ++ e ++ rest) as [|c t] eqn:E2.
      + destruct ds; [destruct f; [destruct e; [destruct rest; [reflexivity|discriminate]|discriminate]|discriminate]|discriminate].
      + rewrite Hz. cbn [andb]. rewrite <- E2. 
        assert (Hnd : match f ++ e ++ rest with [] => True | c :: _ => digit c = false end).
        { destruct Hf as [->|(fs & -> & _)]; [|reflexivity]. cbn [app]. destruct He as [->|(e' & sg' & ds' & -> & Hee & _)].
          - cbn [app]. destruct rest; [exact I|now destruct Hs].
          - cbn [app]. unfold is_e in Hee. unfold digit. apply orb_true_iff in Hee. destruct Hee as [Hee|Hee]; apply N.eqb_eq in Hee; subst; reflexivity. }
        rewrite digits_app_gen by assumption. now apply after_int_complete. }
  assert (Hi' : exists d ds, i = d :: ds /\ digit d = true).
  { destruct Hi as [->|(d & ds & -> & Hd & _)]; [exists 48, []; split; reflexivity|exists d, ds; auto]. }
  destruct Hi' as (d & ds & Ei & Hd).
  destruct Hsg as [->| ->].
  - exists d, (ds ++ f ++ e ++ rest). split; [rewrite Ei; cbn [app]; now rewrite <- !app_assoc|].
    unfold skip_num. assert (Hm : (d =? 45) = false). { unfold digit in Hd. apply andb_true_iff in Hd. destruct Hd as [A _]. apply N.leb_le in A. apply N.eqb_neq. lia. }
    rewrite Hm. now apply Hgo.
  - exists 45, (d :: ds ++ f ++ e ++ rest). split; [rewrite Ei; cbn [app]; now rewrite <- !app_assoc|].
    unfold skip_num. cbn [N.eqb Pos.eqb]. rewrite Hd. now apply Hgo.
Qed.
Print Assumptions skip_num_complete.
