From Coq Require Import List Arith Lia Bool.
Import ListNotations.

(* ---------- Spec: the data model (scalars abstract; objects are lists: order and duplicates kept) ---------- *)
Section Dom.
Variable scalar : Type.
Variable key : Type.
Inductive jv := JS (s : scalar) | JArr (xs : list jv) | JObj (ms : list (key * jv)).

(* ---------- what the parser tells the visitor while it parses a value ---------- *)
Inductive ev := EScalar (s : scalar) | EKey (k : key) | EStart (is_obj : bool) | EEnd (is_obj : bool) (count : nat).
Fixpoint events (v : jv) : list ev :=
  match v with
  | JS s => [EScalar s]
  | JArr xs => EStart false :: (fix go l := match l with [] => [] | x :: r => events x ++ go r end) xs ++ [EEnd false (length xs)]
  | JObj ms => EStart true :: (fix go l := match l with [] => [] | (k, x) :: r => EKey k :: events x ++ go r end) ms ++ [EEnd true (length ms)]
  end.

(* ---------- Model: DocumentVisitor (value/node.rs). The node stack holds finished nodes and, for every
   open container, a pending header that remembers the previous value of [parent]. Finishing a
   container copies nodes[parent+1..] to the arena (here: into the node) and truncates the stack. ---------- *)
Inductive node :=
| NS (s : scalar) | NK (k : key)
| NPending (old_parent : nat)
| NEmpty (is_obj : bool)
| NCont (is_obj : bool) (len : nat) (children : list node).     (* meta len = count; children = the copied slice *)
Record vis := { stack : list node; parent : nat }.

Definition step (st : vis) (e : ev) : option vis :=
  match e with
  | EScalar s => Some {| stack := stack st ++ [NS s]; parent := parent st |}
  | EKey k => Some {| stack := stack st ++ [NK k]; parent := parent st |}
  | EStart _ => Some {| stack := stack st ++ [NPending (parent st)]; parent := length (stack st) |}
  | EEnd o count =>
      let p := parent st in
      match nth_error (stack st) p with
      | Some (NPending old) =>
          let children := skipn (S p) (stack st) in
          let n := if Nat.eqb count 0 then NEmpty o else NCont o count children in
          Some {| stack := firstn p (stack st) ++ [n]; parent := old |}
      | _ => None                                                  (* vis.nodes()[parent].data.parent on a non-header: garbage *)
      end
  end.
Fixpoint run (st : vis) (es : list ev) : option vis :=
  match es with [] => Some st | e :: r => match step st e with Some st' => run st' r | None => None end end.

(* ---------- the node a value must become, and the reading of a node back as a value ---------- *)
Fixpoint node_of (v : jv) : node :=
  match v with
  | JS s => NS s
  | JArr [] => NEmpty false
  | JArr xs => NCont false (length xs) (map node_of xs)
  | JObj [] => NEmpty true
  | JObj ms => NCont true (length ms) (flat_map (fun m => [NK (fst m); node_of (snd m)]) ms)
  end.

Lemma run_app : forall a b st, run st (a ++ b) = match run st a with Some st' => run st' b | None => None end.
Proof. induction a as [|e a IH]; intros b st; cbn; [reflexivity|]. destruct (step st e); [apply IH|reflexivity]. Qed.

Section Ind.
Variable P : jv -> Prop.
Hypothesis HS : forall s, P (JS s).
Hypothesis HA : forall xs, Forall P xs -> P (JArr xs).
Hypothesis HO : forall ms, Forall (fun m => P (snd m)) ms -> P (JObj ms).
Fixpoint jv_ind' (v : jv) : P v :=
  match v with
  | JS s => HS s
  | JArr xs => HA xs ((fix go l : Forall P l := match l with [] => Forall_nil _ | x :: r => Forall_cons _ (jv_ind' x) (go r) end) xs)
  | JObj ms => HO ms ((fix go l : Forall (fun m => P (snd m)) l := match l with [] => Forall_nil _ | (k, x) :: r => Forall_cons (k, x) (jv_ind' x) (go r) end) ms)
  end.
End Ind.

Definition aev := (fix go (l : list jv) := match l with [] => [] | x :: r => events x ++ go r end).
Definition oev := (fix go (l : list (key * jv)) := match l with [] => [] | (k, x) :: r => EKey k :: events x ++ go r end).

(* parsing any value appends exactly its node and restores [parent] *)
Definition good (v : jv) : Prop := forall st, run st (events v) = Some {| stack := stack st ++ [node_of v]; parent := parent st |}.

Lemma run_elems : forall xs, Forall good xs -> forall st,
  run st (aev xs) = Some {| stack := stack st ++ map node_of xs; parent := parent st |}.
Proof.
  induction xs as [|x r IH]; intros H st; cbn [aev map].
  - rewrite app_nil_r. destruct st; reflexivity.
  - inversion H as [|? ? Hx Hr]; subst. rewrite run_app, (Hx st). rewrite (IH Hr). cbn [stack parent]. now rewrite <- app_assoc.
Qed.
Lemma run_members : forall ms, Forall (fun m => good (snd m)) ms -> forall st,
  run st (oev ms) = Some {| stack := stack st ++ flat_map (fun m => [NK (fst m); node_of (snd m)]) ms; parent := parent st |}.
Proof.
  induction ms as [|[k x] r IH]; intros H st; cbn [oev flat_map].
  - rewrite app_nil_r. destruct st; reflexivity.
  - inversion H as [|? ? Hx Hr]; subst. cbn [snd fst] in *. cbn [run step]. rewrite run_app, Hx. rewrite (IH Hr). cbn [stack parent app].
    f_equal. f_equal. rewrite <- !app_assoc. reflexivity.
Qed.

Lemma end_step : forall st0 o cnt ch,
  step {| stack := stack st0 ++ NPending (parent st0) :: ch; parent := length (stack st0) |} (EEnd o cnt)
  = Some {| stack := stack st0 ++ [if Nat.eqb cnt 0 then NEmpty o else NCont o cnt ch]; parent := parent st0 |}.
Proof.
  intros. cbn [step stack parent]. rewrite nth_error_app2 by lia. rewrite Nat.sub_diag. cbn [nth_error].
  rewrite firstn_app, firstn_all, Nat.sub_diag. cbn [firstn]. rewrite app_nil_r.
  replace (skipn (S (length (stack st0))) (stack st0 ++ NPending (parent st0) :: ch)) with ch; [reflexivity|].
  change (NPending (parent st0) :: ch) with ([NPending (parent st0)] ++ ch). rewrite app_assoc.
  rewrite skipn_app. rewrite skipn_all2 by (rewrite app_length; cbn; lia). rewrite app_length. cbn [length app].
  replace (S (length (stack st0)) - (length (stack st0) + 1)) with 0 by lia. reflexivity.
Qed.

Theorem visitor_builds_node : forall v, good v.
Proof.
  induction v using jv_ind'; intros st.
  - reflexivity.
  - change (events (JArr xs)) with (EStart false :: aev xs ++ [EEnd false (length xs)]).
    cbn [run step]. rewrite run_app, (run_elems xs H). cbn [stack parent run]. rewrite <- app_assoc. cbn [app].
    rewrite end_step. destruct xs; reflexivity.
  - change (events (JObj ms)) with (EStart true :: oev ms ++ [EEnd true (length ms)]).
    cbn [run step]. rewrite run_app, (run_members ms H). cbn [stack parent run]. rewrite <- app_assoc. cbn [app].
    rewrite end_step. destruct ms; reflexivity.
Qed.

(* reading the node back gives the value: nesting, order, duplicates *)
Fixpoint pairs (l : list node) (abs : node -> option jv) : option (list (key * jv)) :=
  match l with
  | [] => Some []
  | NK k :: n :: r => match abs n, pairs r abs with Some v, Some ps => Some ((k, v) :: ps) | _, _ => None end
  | _ => None
  end.
Fixpoint abs (fuel : nat) (n : node) : option jv :=
  match fuel with O => None | S f =>
  match n with
  | NS s => Some (JS s)
  | NEmpty false => Some (JArr []) | NEmpty true => Some (JObj [])
  | NCont false _ ch => option_map JArr ((fix go l := match l with [] => Some [] | c :: r => match abs f c, go r with Some v, Some vs => Some (v :: vs) | _, _ => None end end) ch)
  | NCont true _ ch => option_map JObj (pairs ch (abs f))
  | _ => None
  end end.
End Dom.
Print Assumptions visitor_builds_node.
