(* Model/MergeSpec.v -- the specification of get_by_schema (Spec/Ref.v merge) says what C11 says:
   the result has exactly the schema's keys in the schema's order; a key absent from the document keeps
   its default; a key present in the document (first member wins) holds the document's value, merged
   recursively under a non-empty object schema; any other schema is replaced by the document's value. *)
From Coq Require Import List NArith Arith Lia Bool.
From SonicV Require Import Spec.Ref.
Import ListNotations.
Open Scope N_scope.

Definition mkey (m : list N * nat * nat * jv) : list N := fst (fst (fst m)).
Definition mval (m : list N * nat * nat * jv) : jv := snd m.

Definition merge_member (f : nat) (dms : list (list N * nat * nat * jv)) (m : list N * nat * nat * jv) : list N * nat * nat * jv :=
  match m with (k, a, b, sv) =>
    match assoc_first dms k with Some (_, _, dv) => (k, a, b, merge f sv dv) | None => (k, a, b, sv) end end.

Lemma merge_object : forall f sm sms dms,
  merge (S f) (JObj (sm :: sms)) (JObj dms) = JObj (map (merge_member f dms) (sm :: sms)).
Proof. reflexivity. Qed.

(* exactly the schema's keys, in the schema's order *)
Theorem merged_keys_are_schema_keys : forall f sm sms dms ms,
  merge (S f) (JObj (sm :: sms)) (JObj dms) = JObj ms -> map mkey ms = map mkey (sm :: sms).
Proof.
  intros f sm sms dms ms H. rewrite merge_object in H.
  assert (E : forall l, map mkey (map (merge_member f dms) l) = map mkey l).
  { induction l as [|[[[k a] b] sv] r IH]; [reflexivity|].
    cbn [map]. rewrite IH. f_equal. unfold merge_member, mkey. destruct (assoc_first dms k) as [[[a' b'] dv]|]; reflexivity. }
  injection H as <-. exact (E (sm :: sms)).
Qed.

(* an absent key keeps its default; a present key holds the (recursively merged) document value *)
Theorem merged_member : forall f sm sms dms k a b sv, In (k, a, b, sv) (sm :: sms) ->
  In (match assoc_first dms k with Some (_, _, dv) => (k, a, b, merge f sv dv) | None => (k, a, b, sv) end)
     (match merge (S f) (JObj (sm :: sms)) (JObj dms) with JObj ms => ms | _ => [] end).
Proof.
  intros f sm sms dms k a b sv Hin. rewrite merge_object. apply (in_map (merge_member f dms)) in Hin. exact Hin.
Qed.

(* any other schema (a scalar, an array, the empty object) or document kind: the document's value *)
Theorem merge_non_object_schema : forall f sch doc,
  (match sch with JObj (_ :: _) => False | _ => True end) -> merge f sch doc = doc.
Proof. intros f sch doc H. destruct f as [|f]; [reflexivity|]. destruct sch as [| | | | |[|m ms]]; try reflexivity. contradiction. Qed.
Theorem merge_non_object_document : forall f sch doc,
  (match doc with JObj _ => False | _ => True end) -> merge f sch doc = doc.
Proof. intros f sch doc H. destruct f as [|f]; [reflexivity|]. destruct sch as [| | | | |[|m ms]]; destruct doc; try reflexivity; contradiction. Qed.
Print Assumptions merged_member.
