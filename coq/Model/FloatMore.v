(* Model/FloatMore.v -- the remaining branches of sonic-number's parse_float_fast (Clinger's fast
   path): division by an exact power of ten for negative exponents, and the split multiplication
   for exponents above 22.  Each is ONE correctly rounded operation on exact operands, hence the
   result is the f64 nearest (ties to even) to the exact decimal value. *)
From Coq Require Import ZArith Reals Lia Lra Psatz.
From Flocq Require Import Core.Core IEEE754.BinarySingleNaN IEEE754.Bits.
From SonicV Require Import Model.Float.
Local Open Scope Z_scope.

#[local] Existing Instance prec_gt0.
#[local] Existing Instance prec_lt_emax.

Definition fast_div (m e : Z) : f64 := Bdiv mode_NE (of_Z m) (of_Z (10 ^ e)).

Lemma pow10_exact : forall e, 0 <= e <= 22 -> B2R (of_Z (10 ^ e)) = IZR (10 ^ e) /\ is_finite (of_Z (10 ^ e)) = true.
Proof.
  intros e He. rewrite (pow10_split e) by lia. apply of_Z_exact_scaled; [now apply pow5_small|lia].
Qed.

Theorem fast_div_correct : forall m e, 0 <= m < 2 ^ 53 -> 0 <= e <= 22 ->
  B2R (fast_div m e) = round_ne (IZR m / IZR (10 ^ e)) /\ is_finite (fast_div m e) = true.
Proof.
  intros m e Hm He. unfold fast_div.
  destruct (of_Z_exact m) as [Hx Fx]; [lia|].
  destruct (pow10_exact e He) as [Hy Fy].
  assert (P : 0 < 10 ^ e) by (apply Z.pow_pos_nonneg; lia).
  assert (NZ : B2R (of_Z (10 ^ e)) <> 0%R). { rewrite Hy. apply IZR_neq. lia. }
  pose proof (Bdiv_correct prec emax prec_gt0 prec_lt_emax mode_NE (of_Z m) (of_Z (10 ^ e)) NZ) as H.
  rewrite Hx, Hy in H.
  rewrite Rlt_bool_true in H.
  - destruct H as (H1 & H2 & _). split; [exact H1 | rewrite H2; exact Fx].
  - apply small_lt_emax.
    assert (Hb : (Rabs (IZR m / IZR (10 ^ e)) <= IZR (2 ^ 130))%R).
    { assert (1 <= IZR (10 ^ e))%R by (apply IZR_le; lia).
      assert (0 <= IZR m)%R by (apply IZR_le; lia).
      assert (IZR m < IZR (2 ^ 53))%R by (apply IZR_lt; lia).
      assert (IZR (2 ^ 53) <= IZR (2 ^ 130))%R by (apply IZR_le; vm_compute; discriminate).
      rewrite Rabs_pos_eq.
      - apply Rle_trans with (IZR m); [|lra].
        apply (Rmult_le_reg_r (IZR (10 ^ e))); [lra|]. unfold Rdiv. rewrite Rmult_assoc, Rinv_l by lra. nra.
      - unfold Rdiv. apply Rmult_le_pos; [lra|]. apply Rlt_le. apply Rinv_0_lt_compat. lra. }
    apply Rle_lt_trans with (IZR (2 ^ 130)).
    + apply abs_round_le_generic; [apply FLT_exp_valid; exact prec_gt0 | apply valid_rnd_round_mode | | exact Hb].
      change (2 ^ 130) with (1 * 2 ^ 130). apply scaled_format; [vm_compute; reflexivity | lia].
    + apply IZR_lt. vm_compute. reflexivity.
Qed.

(* exponents above 22: d = m * 10^(e-22) is computed first; when it passes the magnitude test
   (at most 10^15) it is an integer below 2^53, hence exact, and the second multiplication by the
   exact 10^22 is the only rounding *)
Definition fast_split (m e : Z) : f64 := Bmult mode_NE (Bmult mode_NE (of_Z m) (of_Z (10 ^ (e - 22)))) (of_Z (10 ^ 22)).

Theorem fast_split_correct : forall m e, 0 <= m < 2 ^ 53 -> 22 < e <= 37 -> m * 10 ^ (e - 22) <= 10 ^ 15 ->
  B2R (fast_split m e) = round_ne (IZR m * IZR (10 ^ e)) /\ is_finite (fast_split m e) = true.
Proof.
  intros m e Hm He Hmid. unfold fast_split.
  set (k := e - 22) in *. assert (Hk : 0 <= k <= 22) by (unfold k; lia).
  destruct (of_Z_exact m) as [Hx Fx]; [lia|].
  destruct (pow10_exact k Hk) as [Hy Fy].
  destruct (pow10_exact 22 ltac:(lia)) as [Hz Fz].
  assert (Pk : 0 < 10 ^ k) by (apply Z.pow_pos_nonneg; lia).
  assert (Small : Z.abs (m * 10 ^ k) < 2 ^ 53).
  { rewrite Z.abs_eq by nia. assert (10 ^ 15 < 2 ^ 53) by (vm_compute; reflexivity). lia. }
  (* first product: exact *)
  pose proof (Bmult_correct prec emax prec_gt0 prec_lt_emax mode_NE (of_Z m) (of_Z (10 ^ k))) as H1.
  rewrite Hx, Hy in H1. rewrite <- mult_IZR in H1.
  rewrite round_generic in H1; [|apply valid_rnd_round_mode | apply int_format; exact Small].
  rewrite Rlt_bool_true in H1.
  2:{ apply small_lt_emax. rewrite <- abs_IZR. apply IZR_lt. assert (2 ^ 53 < 2 ^ 200) by (vm_compute; reflexivity). lia. }
  destruct H1 as (V1 & F1 & _). rewrite Fx, Fy in F1. cbn [andb] in F1.
  (* second product: the only rounding *)
  pose proof (Bmult_correct prec emax prec_gt0 prec_lt_emax mode_NE (Bmult mode_NE (of_Z m) (of_Z (10 ^ k))) (of_Z (10 ^ 22))) as H2.
  rewrite V1, Hz in H2.
  assert (E : (IZR (m * 10 ^ k) * IZR (10 ^ 22) = IZR m * IZR (10 ^ e))%R).
  { rewrite <- !mult_IZR. f_equal. replace e with (k + 22) by (unfold k; lia). rewrite Z.pow_add_r by lia. ring. }
  rewrite E in H2.
  rewrite Rlt_bool_true in H2.
  - destruct H2 as (V2 & F2 & _). split; [exact V2 | rewrite F2, F1, Fz; reflexivity].
  - apply small_lt_emax.
    assert (Hb : (Rabs (IZR m * IZR (10 ^ e)) <= IZR (2 ^ 130))%R).
    { rewrite <- E. rewrite <- mult_IZR, <- abs_IZR. apply IZR_le.
      assert (10 ^ 15 * 10 ^ 22 < 2 ^ 130) by (vm_compute; reflexivity).
      rewrite Z.abs_eq by nia. nia. }
    apply Rle_lt_trans with (IZR (2 ^ 130)).
    + apply abs_round_le_generic; [apply FLT_exp_valid; exact prec_gt0 | apply valid_rnd_round_mode | | exact Hb].
      change (2 ^ 130) with (1 * 2 ^ 130). apply scaled_format; [vm_compute; reflexivity | lia].
    + apply IZR_lt. vm_compute. reflexivity.
Qed.

(* the magnitude test on the rounded intermediate decides the same thing as on the exact product:
   above 10^15 the intermediate (an integer that is exact below 2^53, and at least 2^53 otherwise,
   by monotonicity of rounding) is above 10^15 too *)
Theorem split_test_is_exact : forall m k, 0 <= m < 2 ^ 53 -> 0 <= k <= 22 ->
  (round_ne (IZR (m * 10 ^ k)) <= IZR (10 ^ 15))%R -> m * 10 ^ k <= 10 ^ 15.
Proof.
  intros m k Hm Hk H.
  assert (Pk : 0 < 10 ^ k) by (apply Z.pow_pos_nonneg; lia).
  destruct (Z_lt_le_dec (m * 10 ^ k) (2 ^ 53)) as [Lt|Ge].
  - unfold round_ne in H. rewrite round_generic in H; [|apply valid_rnd_N | apply int_format; rewrite Z.abs_eq by nia; exact Lt].
    apply le_IZR. exact H.
  - exfalso.
    assert (M : (round_ne (IZR (2 ^ 53)) <= round_ne (IZR (m * 10 ^ k)))%R).
    { apply round_le; [apply FLT_exp_valid; exact prec_gt0 | apply valid_rnd_N | apply IZR_le; exact Ge]. }
    unfold round_ne in M at 1. rewrite round_generic in M; [|apply valid_rnd_N|].
    + assert (IZR (10 ^ 15) < IZR (2 ^ 53))%R by (apply IZR_lt; vm_compute; reflexivity). lra.
    + change (2 ^ 53) with (1 * 2 ^ 53). apply scaled_format; [vm_compute; reflexivity|lia].
Qed.
Print Assumptions fast_split_correct.
