From Coq Require Import List NArith Arith Lia Bool.
Import ListNotations.

(* A byte buffer with checked access: [None] is an access outside the allocation (= Crash). *)
Definition buf := list N.
Definition get (b : buf) (i : nat) : option N := nth_error b i.

(* write the bytes [o] at position [i]: None when any of them falls outside the buffer *)
Definition write (b : buf) (i : nat) (o : list N) : option buf :=
  if (i + length o <=? length b) then Some (firstn i b ++ o ++ skipn (i + length o) b) else None.

Lemma skipn_skipn : forall (x y : nat) (l : list N), skipn x (skipn y l) = skipn (x + y) l.
Proof. intros x y. induction y as [|y IH]; intros l; [now rewrite Nat.add_0_r|].
  destruct l as [|a r]; [now rewrite !skipn_nil|]. rewrite Nat.add_succ_r. cbn [skipn]. apply IH. Qed.

Lemma write_length : forall b i o b', write b i o = Some b' -> length b' = length b.
Proof.
  intros b i o b' H. unfold write in H. destruct (Nat.leb_spec (i + length o) (length b)); [|discriminate]. inversion H; subst.
  rewrite !app_length, firstn_length, skipn_length. lia.
Qed.
Lemma write_skipn : forall b i o b' k, write b i o = Some b' -> i + length o <= k -> skipn k b' = skipn k b.
Proof.
  intros b i o b' k H Hk. unfold write in H. destruct (Nat.leb_spec (i + length o) (length b)); [|discriminate]. inversion H; subst.
  rewrite app_assoc. rewrite skipn_app. 
  assert (L : length (firstn i b ++ o) = i + length o) by (rewrite app_length, firstn_length; lia).
  rewrite L. rewrite (skipn_all2 (firstn i b ++ o)) by lia. cbn [app]. rewrite skipn_skipn. f_equal. lia.
Qed.
Lemma write_firstn : forall b i o b', write b i o = Some b' -> firstn (i + length o) b' = firstn i b ++ o.
Proof.
  intros b i o b' H. unfold write in H. destruct (Nat.leb_spec (i + length o) (length b)); [|discriminate]. inversion H; subst.
  rewrite app_assoc. rewrite firstn_app.
  assert (L : length (firstn i b ++ o) = i + length o) by (rewrite app_length, firstn_length; lia).
  rewrite L, Nat.sub_diag. cbn [firstn]. rewrite app_nil_r. rewrite <- L. apply firstn_all.
Qed.

Section Dec.
(* One escape sequence, read from the bytes that follow the backslash:
   Some (output bytes, number of bytes consumed after the backslash), or None for an invalid escape.
   Instances: a simple escape (1 byte consumed, 1 produced), \uXXXX (5 consumed, 1..3 produced),
   a surrogate pair \uD8xx\uDCxx (11 consumed, 4 produced). *)
Variable esc : list N -> option (list N * nat).
Hypothesis esc_shrinks : forall l o n, esc l = Some (o, n) -> 1 <= n /\ n <= length l /\ length o <= n.

Definition quote : N := 34%N. Definition bslash : N := 92%N.

(* specification: the copying decoder over the unread bytes *)
Fixpoint dec (fuel : nat) (l : list N) : option (list N * list N) :=
  match fuel with O => None | S f =>
  match l with
  | [] => None
  | c :: r =>
    if N.eqb c quote then Some ([], r)
    else if N.eqb c bslash then
      match esc r with Some (o, n) => option_map (fun p => (o ++ fst p, snd p)) (dec f (skipn n r)) | None => None end
    else if N.leb c 31 then None
    else option_map (fun p => (c :: fst p, snd p)) (dec f r)
  end end.

(* model: the in-place decoder after the first backslash: read at src, write at dst *)
Inductive res := Done (n : nat) (b : buf) (src : nat) | Err | Crash.
Fixpoint inplace (fuel : nat) (b : buf) (src dst : nat) : res :=
  match fuel with O => Crash | S f =>
  match get b src with None => Crash | Some c =>
    if N.eqb c quote then Done dst b (S src)
    else if N.eqb c bslash then
      match esc (skipn (S src) b) with None => Err | Some (o, n) =>
        match write b dst o with None => Crash | Some b' => inplace f b' (S src + n) (dst + length o) end end
    else if N.leb c 31 then Err
    else match write b dst [c] with None => Crash | Some b' => inplace f b' (S src) (dst + 1) end
  end end.

Theorem inplace_correct : forall fuel b0 b src dst out rest,
  dst <= src -> skipn src b = skipn src b0 -> length b = length b0 ->
  dec fuel (skipn src b0) = Some (out, rest) ->
  exists b' src', inplace fuel b src dst = Done (dst + length out) b' src' /\
     firstn (dst + length out) b' = firstn dst b ++ out /\
     skipn src' b' = rest /\ skipn src' b' = skipn src' b0 /\
     dst + length out < src' /\ length b' = length b0.
Proof.
  induction fuel as [|f IH]; intros b0 b src dst out rest Hle Hsk Hlen Hdec; [discriminate|].
  cbn [dec] in Hdec. cbn [inplace]. unfold get.
  assert (HskS : skipn (S src) b = skipn (S src) b0).
  { replace (S src) with (1 + src) by lia. rewrite <- !skipn_skipn. now rewrite Hsk. }
  destruct (skipn src b0) as [|c r] eqn:Es; [discriminate|].
  assert (Hsrclt : src < length b0). { assert (E : length (skipn src b0) = S (length r)) by now rewrite Es. rewrite skipn_length in E. lia. }
  assert (Hsrc : nth_error b src = Some c).
  { rewrite <- (firstn_skipn src b). rewrite Hsk. rewrite nth_error_app2 by (rewrite firstn_length; lia).
    rewrite firstn_length. replace (src - Nat.min src (length b)) with 0 by lia. reflexivity. }
  assert (Hr : skipn (S src) b0 = r). { replace (S src) with (1 + src) by lia. rewrite <- skipn_skipn. now rewrite Es. }
  rewrite Hsrc.
  destruct (N.eqb c quote).
  - inversion Hdec; subst. exists b, (S src). rewrite Nat.add_0_r, app_nil_r. repeat split; auto; lia.
  - destruct (N.eqb c bslash).
    + rewrite HskS, Hr. destruct (esc r) as [[o n]|] eqn:He; [|discriminate].
      destruct (esc_shrinks _ _ _ He) as (Hn1 & Hn2 & Hon).
      destruct (dec f (skipn n r)) as [[o' rest']|] eqn:Hd; [|discriminate]. cbn in Hdec. inversion Hdec; subst out rest. clear Hdec.
      assert (Hrl : length r = length b0 - S src) by (rewrite <- Hr; apply skipn_length).
      assert (Hw : exists b1, write b dst o = Some b1).
      { unfold write. destruct (Nat.leb_spec (dst + length o) (length b)); [eauto|lia]. }
      destruct Hw as [b1 Hset]. rewrite Hset.
      assert (Hnr : skipn (S src + n) b0 = skipn n r). { rewrite <- Hr. rewrite skipn_skipn. f_equal. lia. }
      destruct (IH b0 b1 (S src + n) (dst + length o) o' rest') as (b' & src' & A & B & C & D & E & F); try lia.
      * rewrite (write_skipn _ _ _ _ (S src + n) Hset) by lia. replace (S src + n) with (n + S src) by lia. rewrite <- !skipn_skipn. now rewrite HskS.
      * rewrite (write_length _ _ _ _ Hset). exact Hlen.
      * now rewrite Hnr.
      * exists b', src'. rewrite app_length. replace (dst + (length o + length o')) with (dst + length o + length o') by lia.
        split; [exact A|]. split; [|repeat split; auto; lia].
        rewrite B, (write_firstn _ _ _ _ Hset), <- app_assoc. reflexivity.
    + destruct (N.leb c 31); [discriminate|].
      destruct (dec f r) as [[o' rest']|] eqn:Hd; [|discriminate]. cbn in Hdec. inversion Hdec; subst out rest. clear Hdec.
      assert (Hw : exists b1, write b dst [c] = Some b1).
      { unfold write. cbn [length]. destruct (Nat.leb_spec (dst + 1) (length b)); [eauto|lia]. }
      destruct Hw as [b1 Hset]. rewrite Hset.
      destruct (IH b0 b1 (S src) (dst + 1) o' rest') as (b' & src' & A & B & C & D & E & F); try lia.
      * rewrite (write_skipn _ _ _ _ (S src) Hset) by (cbn [length]; lia). exact HskS.
      * rewrite (write_length _ _ _ _ Hset). exact Hlen.
      * now rewrite Hr.
      * exists b', src'. cbn [length]. replace (dst + S (length o')) with (dst + 1 + length o') by lia.
        split; [exact A|]. split; [|repeat split; auto; lia].
        rewrite B. change 1 with (length [c]). rewrite (write_firstn _ _ _ _ Hset), <- app_assoc. reflexivity.
Qed.
End Dec.
Print Assumptions inplace_correct.
