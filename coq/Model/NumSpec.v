(* Model/NumSpec.v -- facts about the specification of "nearest binary64" (Spec/Num.v), proved by
   integer arithmetic only: the rounding quotient is THE nearest integer with ties to even, and the
   binade selected for a positive rational contains it. *)
From Coq Require Import ZArith Lia Bool.
From SonicV Require Import Spec.Num.
Local Open Scope Z_scope.

(* rne_div a b is the integer nearest to a/b; on a tie it is the even one *)
Theorem rne_div_nearest : forall a b, 0 <= a -> 0 < b ->
  let q := rne_div a b in
  0 <= q /\ 2 * Z.abs (a - q * b) <= b /\ (2 * Z.abs (a - q * b) = b -> Z.even q = true).
Proof.
  intros a b Ha Hb. unfold rne_div.
  pose proof (Z.div_mod a b ltac:(lia)) as DM. pose proof (Z.mod_pos_bound a b Hb) as MB.
  pose proof (Z.div_pos a b Ha Hb) as QP.
  set (q := a / b) in *. set (r := a mod b) in *.
  destruct (Z.ltb_spec (2 * r) b) as [L1|G1].
  - cbv zeta. replace (a - q * b) with r by lia. rewrite Z.abs_eq by lia. repeat split; lia.
  - destruct (Z.ltb_spec b (2 * r)) as [L2|G2].
    + cbv zeta. replace (a - (q + 1) * b) with (r - b) by lia. rewrite Z.abs_neq by lia. repeat split; lia.
    + (* tie *)
      assert (T : 2 * r = b) by lia.
      pose proof (Z.mod_pos_bound q 2 ltac:(lia)) as M2.
      pose proof (Z.div_mod q 2 ltac:(lia)) as D2.
      destruct (Z.eq_dec (q mod 2) 0) as [E0|E1].
      * cbv zeta. rewrite E0, Z.add_0_r. replace (a - q * b) with r by lia. rewrite Z.abs_eq by lia.
        repeat split; try lia. intros _. rewrite Z.even_spec. exists (q / 2). lia.
      * assert (E : q mod 2 = 1) by lia. cbv zeta. rewrite E.
        replace (a - (q + 1) * b) with (r - b) by lia. rewrite Z.abs_neq by lia.
        repeat split; try lia. intros _. rewrite Z.even_spec. exists (q / 2 + 1). lia.
Qed.

(* uniqueness: any integer that is at least as near, and even on a tie, is rne_div *)
Theorem rne_div_unique : forall a b q, 0 <= a -> 0 < b ->
  2 * Z.abs (a - q * b) <= b -> (2 * Z.abs (a - q * b) = b -> Z.even q = true) -> q = rne_div a b.
Proof.
  intros a b q Ha Hb N T.
  destruct (rne_div_nearest a b Ha Hb) as (P0 & N' & T'). set (q' := rne_div a b) in *.
  (* |q - q'| * b <= |a - q b| + |a - q' b| <= b, so they differ by at most 1; if by exactly 1 both are ties *)
  assert (D : Z.abs (q - q') <= 1) by nia.
  destruct (Z.eq_dec q q') as [E|NE]; [exact E|exfalso].
  assert (D1 : q = q' + 1 \/ q' = q + 1) by lia.
  assert (Tq : 2 * Z.abs (a - q * b) = b) by nia.
  assert (Tq' : 2 * Z.abs (a - q' * b) = b) by nia.
  specialize (T Tq). specialize (T' Tq'). rewrite Z.even_spec in T, T'. destruct T as (x & Ex). destruct T' as (y & Ey). lia.
Qed.
Print Assumptions rne_div_unique.

(* the binade round_rat selects: E with 2^E <= num/den < 2^(E+1) *)
Definition binade (num den : Z) : Z :=
  let bl := Z.log2 num - Z.log2 den in
  let ge := if 0 <=? bl then (den * 2 ^ bl <=? num) else (den <=? num * 2 ^ (- bl)) in
  if ge then bl else bl - 1.

Lemma round_rat_uses_binade : forall p emax num den,
  round_rat p emax num den =
  let E := binade num den in
  let emin := 1 - emax in
  if E <? emin then Bits (rne_div (num * 2 ^ (p - 1 - emin)) den)
  else
    let s := E - (p - 1) in
    let q := if 0 <=? s then rne_div num (den * 2 ^ s) else rne_div (num * 2 ^ (- s)) den in
    let '(E', q') := if q =? 2 ^ p then (E + 1, 2 ^ (p - 1)) else (E, q) in
    if emax <? E' then Infinite
    else Bits ((E' + emax) * 2 ^ (p - 1) + (q' - 2 ^ (p - 1))).
Proof. reflexivity. Qed.

Theorem binade_correct : forall num den, 0 < num -> 0 < den ->
  let E := binade num den in
  (0 <= E -> den * 2 ^ E <= num < den * 2 ^ (E + 1)) /\
  (E < 0 -> den <= num * 2 ^ (- E) < 2 * den).
Proof.
  intros num den Hn Hd. unfold binade.
  pose proof (Z.log2_spec num Hn) as Ln. pose proof (Z.log2_spec den Hd) as Ld.
  pose proof (Z.log2_nonneg num) as Nn. pose proof (Z.log2_nonneg den) as Nd.
  set (ln := Z.log2 num) in *. set (ld := Z.log2 den) in *.
  rewrite !Z.pow_succ_r in Ln, Ld by lia.
  destruct (Z.leb_spec 0 (ln - ld)) as [Bp|Bn].
  - (* bl >= 0: 2^ln = 2^ld * 2^bl *)
    assert (P : 2 ^ ln = 2 ^ ld * 2 ^ (ln - ld)) by (rewrite <- Z.pow_add_r by lia; f_equal; lia).
    assert (Pb : 0 < 2 ^ (ln - ld)) by (apply Z.pow_pos_nonneg; lia).
    assert (Pl : 0 < 2 ^ ld) by (apply Z.pow_pos_nonneg; lia).
    destruct (Z.leb_spec (den * 2 ^ (ln - ld)) num) as [G|L]; cbv zeta.
    + split; [intros _|lia]. rewrite Z.pow_add_r by lia. change (2 ^ 1) with 2. split; [exact G|nia].
    + destruct (Z.eq_dec (ln - ld) 0) as [Z0|NZ].
      * (* E = -1 *)
        rewrite Z0 in *. change (2 ^ 0) with 1 in *. split; [lia|intros _]. change (- (0 - 1)) with 1. change (2 ^ 1) with 2. nia.
      * split; [intros _|lia]. replace (ln - ld - 1 + 1) with (ln - ld) by lia.
        assert (P2 : 2 ^ (ln - ld) = 2 * 2 ^ (ln - ld - 1)) by (rewrite <- Z.pow_succ_r by lia; f_equal; lia).
        split; [nia|lia].
  - (* bl < 0: 2^ld = 2^ln * 2^(-bl) *)
    assert (P : 2 ^ ld = 2 ^ ln * 2 ^ (- (ln - ld))) by (rewrite <- Z.pow_add_r by lia; f_equal; lia).
    assert (Pb : 0 < 2 ^ (- (ln - ld))) by (apply Z.pow_pos_nonneg; lia).
    assert (Pl : 0 < 2 ^ ln) by (apply Z.pow_pos_nonneg; lia).
    destruct (Z.leb_spec den (num * 2 ^ (- (ln - ld)))) as [G|L]; cbv zeta.
    + split; [lia|intros _]. split; [exact G|nia].
    + split; [lia|intros _]. replace (- (ln - ld - 1)) with (- (ln - ld) + 1) by lia.
      rewrite Z.pow_add_r by lia. change (2 ^ 1) with 2. split; [nia|lia].
Qed.
Print Assumptions binade_correct.
