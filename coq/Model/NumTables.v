(* Model/NumTables.v -- the tables of sonic-number, as regenerated from the source on this run,
   agree entry by entry with their definitions (finite sweeps, the bound in each statement). *)
From Coq Require Import List NArith ZArith Bool Lia.
From SonicV Require Import Gen.Tables Spec.Num.
Import ListNotations.
Open Scope Z_scope.

Definition nthN (t : list N) (i : nat) : Z := Z.of_N (nth i t 0%N).

(* POW10_UINT[i] = 10^i, i < 18 *)
Definition pow10_uint_ok (i : nat) : bool := nthN POW10_UINT i =? 10 ^ Z.of_nat i.
Lemma pow10_uint_sweep : forallb pow10_uint_ok (seq 0 18) = true /\ length POW10_UINT = 18%nat.
Proof. vm_compute. split; reflexivity. Qed.
Theorem pow10_uint_correct : forall i, (i < 18)%nat -> nthN POW10_UINT i = 10 ^ Z.of_nat i.
Proof.
  intros i H. apply Z.eqb_eq. apply (proj1 (forallb_forall _ _) (proj1 pow10_uint_sweep)). apply in_seq. lia.
Qed.

(* POW10_FLOAT[i] is the binary64 nearest to (in fact equal to) 10^i, i <= 22 *)
Definition pow10_float_ok (i : nat) : bool :=
  match round_pos (10 ^ Z.of_nat i) 0 with Bits b => nthN POW10_FLOAT_BITS i =? b | Infinite => false end.
Lemma pow10_float_sweep : forallb pow10_float_ok (seq 0 23) = true /\ length POW10_FLOAT_BITS = 23%nat.
Proof. vm_compute. split; reflexivity. Qed.
Theorem pow10_float_correct : forall i, (i < 23)%nat -> round_pos (10 ^ Z.of_nat i) 0 = Bits (nthN POW10_FLOAT_BITS i).
Proof.
  intros i H. pose proof (proj1 (forallb_forall _ _) (proj1 pow10_float_sweep) i) as P.
  assert (I : In i (seq 0 23)) by (apply in_seq; lia). specialize (P I). unfold pow10_float_ok in P.
  destruct (round_pos (10 ^ Z.of_nat i) 0) as [b|]; [|discriminate]. apply Z.eqb_eq in P. rewrite P. reflexivity.
Qed.

(* POWER_OF_FIVE_128[q - SMALLEST]: the 128 most significant bits of 5^q (q >= 0), or of the
   reciprocal rounded up (q < 0), as (high word, low word) -- the definition used by the
   Eisel-Lemire algorithm (fast_float's table generator) *)
Fixpoint bitlen_f (fuel : nat) (n : Z) : Z := match fuel with O => 0 | S f => if n <=? 0 then 0 else 1 + bitlen_f f (n / 2) end.
Definition ceil_log2 (p5 : Z) : Z := (* least z with 2^z >= p5 *)
  let l := Z.log2 p5 in if 2 ^ l =? p5 then l else l + 1.
Fixpoint halve_below (fuel : nat) (c : Z) : Z := match fuel with O => c | S f => if 2 ^ 128 <=? c then halve_below f (c / 2) else c end.
Definition pow5_entry (q : Z) : Z :=
  if 0 <=? q then
    let p := 5 ^ q in
    let l := Z.log2 p in
    if l <? 127 then p * 2 ^ (127 - l) else p / 2 ^ (l - 127)
  else
    let p5 := 5 ^ (- q) in
    let z := ceil_log2 p5 in
    let b := if -27 <=? q then z + 127 else 2 * z + 128 in
    let c := 2 ^ b / p5 + 1 in
    let l := Z.log2 c in if 128 <=? l then c / 2 ^ (l - 127) else c.
Definition pow5_ok (i : nat) : bool :=
  let e := nth i POWER_OF_FIVE_128 (0%N, 0%N) in
  Z.of_N (fst e) * 2 ^ 64 + Z.of_N (snd e) =? pow5_entry (SMALLEST_POWER_OF_FIVE + Z.of_nat i).
Lemma pow5_sweep : forallb pow5_ok (seq 0 651) = true /\ length POWER_OF_FIVE_128 = 651%nat.
Proof. vm_compute. split; reflexivity. Qed.
Theorem pow5_table_correct : forall i, (i < 651)%nat ->
  let e := nth i POWER_OF_FIVE_128 (0%N, 0%N) in
  Z.of_N (fst e) * 2 ^ 64 + Z.of_N (snd e) = pow5_entry (SMALLEST_POWER_OF_FIVE + Z.of_nat i).
Proof.
  intros i H. apply Z.eqb_eq. apply (proj1 (forallb_forall _ _) (proj1 pow5_sweep)). apply in_seq. lia.
Qed.
