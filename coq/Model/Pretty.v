From Coq Require Import List NArith Arith Lia Bool.
Import ListNotations.
Open Scope N_scope.

Section Pretty.
Variable scalar key : Type.
Variable pscalar : scalar -> list N.
Variable pkey : key -> list N.
Inductive jv := JS (s : scalar) | JArr (xs : list jv) | JObj (ms : list (key * jv)).

(* ---------- Spec: the prescribed layout (two spaces per level, "\n" before every member and before a
   closing bracket of a non-empty container, ": " after keys, "[]" / "{}" when empty) ---------- *)
Definition indent (n : nat) : list N := concat (repeat [32; 32] n).
Fixpoint pretty (d : nat) (v : jv) : list N :=
  match v with
  | JS s => pscalar s
  | JArr [] => [91; 93]
  | JArr xs => 91 :: (fix go (first : bool) (l : list jv) := match l with [] => [] | x :: r =>
                        (if first then [10] else [44; 10]) ++ indent (S d) ++ pretty (S d) x ++ go false r end) true xs
                  ++ 10 :: indent d ++ [93]
  | JObj [] => [123; 125]
  | JObj ms => 123 :: (fix go (first : bool) (l : list (key * jv)) := match l with [] => [] | (k, x) :: r =>
                        (if first then [10] else [44; 10]) ++ indent (S d) ++ pkey k ++ [58; 32] ++ pretty (S d) x ++ go false r end) true ms
                  ++ 10 :: indent d ++ [125]
  end.

(* ---------- Model: Serializer driving PrettyFormatter (format.rs): calls in order, state = (current_indent, has_value) ---------- *)
Inductive call :=
| CScalar (s : scalar) | CKeyStr (k : key)
| BeginArr | EndArr | BeginArrVal (first : bool) | EndArrVal
| BeginObj | EndObj | BeginKey (first : bool) | BeginObjVal | EndObjVal.

(* what the Serializer does for a value (serialize_seq / serialize_map with Some(len); len = 0 ends at once) *)
Fixpoint calls (v : jv) : list call :=
  match v with
  | JS s => [CScalar s]
  | JArr xs => BeginArr :: (fix go (first : bool) (l : list jv) := match l with [] => [] | x :: r =>
                   BeginArrVal first :: calls x ++ EndArrVal :: go false r end) true xs ++ [EndArr]
  | JObj ms => BeginObj :: (fix go (first : bool) (l : list (key * jv)) := match l with [] => [] | (k, x) :: r =>
                   BeginKey first :: CKeyStr k :: BeginObjVal :: calls x ++ EndObjVal :: go false r end) true ms ++ [EndObj]
  end.

Record fst_ := { cur : nat; hasv : bool; out : list N }.
Definition fmt (st : fst_) (c : call) : fst_ :=
  match c with
  | CScalar s => {| cur := cur st; hasv := hasv st; out := out st ++ pscalar s |}
  | CKeyStr k => {| cur := cur st; hasv := hasv st; out := out st ++ pkey k |}
  | BeginArr => {| cur := S (cur st); hasv := false; out := out st ++ [91] |}
  | BeginObj => {| cur := S (cur st); hasv := false; out := out st ++ [123] |}
  | EndArr => let c := pred (cur st) in {| cur := c; hasv := hasv st; out := out st ++ (if hasv st then 10 :: indent c else []) ++ [93] |}
  | EndObj => let c := pred (cur st) in {| cur := c; hasv := hasv st; out := out st ++ (if hasv st then 10 :: indent c else []) ++ [125] |}
  | BeginArrVal first | BeginKey first => {| cur := cur st; hasv := hasv st; out := out st ++ (if first then [10] else [44; 10]) ++ indent (cur st) |}
  | EndArrVal | EndObjVal => {| cur := cur st; hasv := true; out := out st |}
  | BeginObjVal => {| cur := cur st; hasv := hasv st; out := out st ++ [58; 32] |}
  end.
Definition run (st : fst_) (cs : list call) : fst_ := fold_left fmt cs st.

Section Ind.
Variable P : jv -> Prop.
Hypothesis HS : forall s, P (JS s).
Hypothesis HA : forall xs, Forall P xs -> P (JArr xs).
Hypothesis HO : forall ms, Forall (fun m => P (snd m)) ms -> P (JObj ms).
Fixpoint jv_ind' (v : jv) : P v :=
  match v with
  | JS s => HS s
  | JArr xs => HA xs ((fix go l : Forall P l := match l with [] => Forall_nil _ | x :: r => Forall_cons _ (jv_ind' x) (go r) end) xs)
  | JObj ms => HO ms ((fix go l : Forall (fun m => P (snd m)) l := match l with [] => Forall_nil _ | (k, x) :: r => Forall_cons (k, x) (jv_ind' x) (go r) end) ms)
  end.
End Ind.

Definition acalls := (fix go (first : bool) (l : list jv) := match l with [] => [] | x :: r => BeginArrVal first :: calls x ++ EndArrVal :: go false r end).
Definition ocalls := (fix go (first : bool) (l : list (key * jv)) := match l with [] => [] | (k, x) :: r => BeginKey first :: CKeyStr k :: BeginObjVal :: calls x ++ EndObjVal :: go false r end).
Definition apretty d := (fix go (first : bool) (l : list jv) := match l with [] => [] | x :: r => (if first then [10] else [44; 10]) ++ indent (S d) ++ pretty (S d) x ++ go false r end).
Definition opretty d := (fix go (first : bool) (l : list (key * jv)) := match l with [] => [] | (k, x) :: r => (if first then [10] else [44; 10]) ++ indent (S d) ++ pkey k ++ [58; 32] ++ pretty (S d) x ++ go false r end).

(* a value appends its layout at the current depth, keeps the indent, and (this matters) may change has_value *)
Definition good (v : jv) : Prop := forall st, exists h, run st (calls v) = {| cur := cur st; hasv := h; out := out st ++ pretty (cur st) v |}.

Lemma run_app : forall a b st, run st (a ++ b) = run (run st a) b. Proof. intros. apply fold_left_app. Qed.

Lemma elems_good : forall xs, Forall good xs -> forall first st,
  run st (acalls first xs) = {| cur := cur st; hasv := (match xs with [] => hasv st | _ => true end); out := out st ++ apretty (pred (cur st)) first xs |} \/ cur st = 0%nat.
Proof.
  induction xs as [|x r IH]; intros H first st.
  - left. cbn. rewrite app_nil_r. destruct st; reflexivity.
  - destruct (cur st) as [|d] eqn:Ec; [right; reflexivity|left]. inversion H as [|? ? Hx Hr]; subst.
    cbn [acalls]. unfold run at 1. cbn [fold_left]. fold (run (fmt st (BeginArrVal first)) (calls x ++ EndArrVal :: acalls false r)).
    rewrite run_app. destruct (Hx (fmt st (BeginArrVal first))) as [h Eh]. rewrite Eh. cbn [fmt cur out hasv].
    unfold run at 1. cbn [fold_left fmt cur out hasv]. 
    match goal with |- fold_left fmt _ ?s = _ => destruct (IH Hr false s) as [E|E]; [|cbn [cur] in E; congruence] end.
    unfold run in E. rewrite E. cbn [cur hasv out]. rewrite Ec. cbn [pred apretty].
    f_equal; [destruct r; reflexivity|]. rewrite <- !app_assoc. reflexivity.
Qed.

Lemma members_good : forall ms, Forall (fun m => good (snd m)) ms -> forall first st,
  run st (ocalls first ms) = {| cur := cur st; hasv := (match ms with [] => hasv st | _ => true end); out := out st ++ opretty (pred (cur st)) first ms |} \/ cur st = 0%nat.
Proof.
  induction ms as [|[k x] r IH]; intros H first st.
  - left. cbn. rewrite app_nil_r. destruct st; reflexivity.
  - destruct (cur st) as [|d] eqn:Ec; [right; reflexivity|left]. inversion H as [|? ? Hx Hr]; subst. cbn [snd] in Hx.
    cbn [ocalls]. unfold run at 1. cbn [fold_left].
    fold (run (fmt (fmt (fmt st (BeginKey first)) (CKeyStr k)) BeginObjVal) (calls x ++ EndObjVal :: ocalls false r)).
    rewrite run_app. destruct (Hx (fmt (fmt (fmt st (BeginKey first)) (CKeyStr k)) BeginObjVal)) as [h Eh]. rewrite Eh. cbn [fmt cur out hasv].
    unfold run at 1. cbn [fold_left fmt cur out hasv].
    match goal with |- fold_left fmt _ ?s = _ => destruct (IH Hr false s) as [E|E]; [|cbn [cur] in E; congruence] end.
    unfold run in E. rewrite E. cbn [cur hasv out]. rewrite Ec. cbn [pred opretty].
    f_equal; [destruct r; reflexivity|]. rewrite <- !app_assoc. cbn [app]. reflexivity.
Qed.

Theorem formatter_is_layout : forall v, good v.
Proof.
  induction v using jv_ind'; intros st.
  - exists (hasv st). reflexivity.
  - change (calls (JArr xs)) with (BeginArr :: acalls true xs ++ [EndArr]).
    unfold run. cbn [fold_left]. fold (run (fmt st BeginArr) (acalls true xs ++ [EndArr])). rewrite run_app.
    destruct (elems_good xs H true (fmt st BeginArr)) as [E|E]; [|cbn in E; discriminate]. rewrite E.
    cbn [fmt cur hasv out pred]. unfold run. cbn [fold_left fmt cur hasv out pred].
    destruct xs as [|x r].
    + eexists. cbn [apretty pretty]. rewrite app_nil_r, <- app_assoc. reflexivity.
    + eexists. f_equal. change (pretty (cur st) (JArr (x :: r))) with (91 :: apretty (cur st) true (x :: r) ++ 10 :: indent (cur st) ++ [93]).
      rewrite <- !app_assoc. cbn [app]. reflexivity.
  - change (calls (JObj ms)) with (BeginObj :: ocalls true ms ++ [EndObj]).
    unfold run. cbn [fold_left]. fold (run (fmt st BeginObj) (ocalls true ms ++ [EndObj])). rewrite run_app.
    destruct (members_good ms H true (fmt st BeginObj)) as [E|E]; [|cbn in E; discriminate]. rewrite E.
    cbn [fmt cur hasv out pred]. unfold run. cbn [fold_left fmt cur hasv out pred].
    destruct ms as [|[k x] r].
    + eexists. cbn [opretty pretty]. rewrite app_nil_r, <- app_assoc. reflexivity.
    + eexists. f_equal. change (pretty (cur st) (JObj ((k, x) :: r))) with (123 :: opretty (cur st) true ((k, x) :: r) ++ 10 :: indent (cur st) ++ [125]).
      rewrite <- !app_assoc. cbn [app]. reflexivity.
Qed.
End Pretty.
Print Assumptions formatter_is_layout.
