From Coq Require Import ZArith Reals Lia Lra Psatz.
From Flocq Require Import Core.Core IEEE754.BinarySingleNaN IEEE754.Bits.
Open Scope Z_scope.

Definition prec := 53.
Definition emax := 1024.
Notation emin := (3 - emax - prec).
Notation fexp := (FLT_exp emin prec).
Definition f64 := binary_float prec emax.

Lemma prec_gt0 : FLX.Prec_gt_0 prec. Proof. unfold FLX.Prec_gt_0, prec; lia. Qed.
Lemma prec_lt_emax : Prec_lt_emax prec emax. Proof. unfold Prec_lt_emax, prec, emax; lia. Qed.
#[local] Existing Instance prec_gt0.
#[local] Existing Instance prec_lt_emax.

Definition of_Z (m : Z) : f64 := binary_normalize prec emax prec_gt0 prec_lt_emax mode_NE m 0 false.
Definition round_ne (r : R) : R := round radix2 fexp ZnearestE r.

Lemma int_format : forall m : Z, Z.abs m < 2 ^ 53 -> generic_format radix2 fexp (IZR m).
Proof.
  intros m Hm. apply generic_format_FLT.
  exists (Float radix2 m 0).
  - unfold F2R; simpl; ring.
  - simpl. exact Hm.
  - simpl. unfold emax, prec. lia.
Qed.

Lemma small_lt_emax : forall r : R, (Rabs r < IZR (2^200))%R -> (Rabs r < bpow radix2 emax)%R.
Proof.
  intros r H. eapply Rlt_trans; [exact H|].
  change (bpow radix2 emax) with (IZR (Zpower radix2 emax)). apply IZR_lt. unfold emax. simpl radix_val.
  apply Z.pow_lt_mono_r; lia.
Qed.

Lemma of_Z_exact : forall m, Z.abs m < 2^53 -> B2R (of_Z m) = IZR m /\ is_finite (of_Z m) = true.
Proof.
  intros m Hm. unfold of_Z.
  pose proof (binary_normalize_correct prec emax prec_gt0 prec_lt_emax mode_NE m 0 false) as H.
  cbv zeta in H.
  replace (F2R (Float radix2 m 0)) with (IZR m) in H by (unfold F2R; simpl; ring).
  rewrite round_generic in H; [|apply valid_rnd_round_mode | now apply int_format].
  rewrite Rlt_bool_true in H.
  - destruct H as (H1 & H2 & _). split; assumption.
  - apply small_lt_emax. rewrite <- abs_IZR. apply IZR_lt. lia.
Qed.

Lemma scaled_format : forall k s : Z, Z.abs k < 2 ^ 53 -> 0 <= s -> generic_format radix2 fexp (IZR (k * 2 ^ s)).
Proof.
  intros k s Hk Hs. apply generic_format_FLT.
  exists (Float radix2 k s).
  - unfold F2R; cbn [Fnum Fexp]. rewrite mult_IZR. f_equal. rewrite <- IZR_Zpower by lia. reflexivity.
  - simpl. exact Hk.
  - simpl. unfold emax, prec. lia.
Qed.

Lemma of_Z_exact_scaled : forall k s, Z.abs k < 2^53 -> 0 <= s <= 100 ->
  B2R (of_Z (k * 2^s)) = IZR (k * 2^s) /\ is_finite (of_Z (k * 2^s)) = true.
Proof.
  intros k s Hk Hs. unfold of_Z.
  pose proof (binary_normalize_correct prec emax prec_gt0 prec_lt_emax mode_NE (k * 2^s) 0 false) as H.
  cbv zeta in H.
  replace (F2R (Float radix2 (k * 2^s) 0)) with (IZR (k * 2^s)) in H by (unfold F2R; simpl; ring).
  rewrite round_generic in H; [|apply valid_rnd_round_mode | apply scaled_format; lia].
  rewrite Rlt_bool_true in H.
  - destruct H as (H1 & H2 & _). split; assumption.
  - apply small_lt_emax. rewrite <- abs_IZR. apply IZR_lt.
    rewrite Z.abs_mul. rewrite (Z.abs_eq (2^s)) by (apply Z.pow_nonneg; lia).
    assert (2^s <= 2^100) by (apply Z.pow_le_mono_r; lia).
    assert (0 < 2^s) by (apply Z.pow_pos_nonneg; lia).
    change (2^200) with (2^53 * 2^147). nia.
Qed.

Lemma pow10_split : forall e, 0 <= e -> 10 ^ e = 5 ^ e * 2 ^ e.
Proof. intros e He. change 10 with (5 * 2). apply Z.pow_mul_l. Qed.

Lemma pow5_small : forall e, 0 <= e <= 22 -> Z.abs (5 ^ e) < 2 ^ 53.
Proof.
  intros e He. rewrite Z.abs_eq by (apply Z.pow_nonneg; lia).
  assert (5 ^ e <= 5 ^ 22) by (apply Z.pow_le_mono_r; lia).
  assert (5 ^ 22 < 2 ^ 53) by (vm_compute; reflexivity). lia.
Qed.

Definition fast_mul (m e : Z) : f64 := Bmult mode_NE (of_Z m) (of_Z (10 ^ e)).

Theorem fast_mul_correct : forall m e, 0 <= m < 2 ^ 53 -> 0 <= e <= 22 ->
  B2R (fast_mul m e) = round_ne (IZR m * IZR (10 ^ e)) /\ is_finite (fast_mul m e) = true.
Proof.
  intros m e Hm He. unfold fast_mul.
  destruct (of_Z_exact m) as [Hx Fx]; [lia|].
  rewrite (pow10_split e) by lia.
  destruct (of_Z_exact_scaled (5^e) e) as [Hy Fy]; [now apply pow5_small | lia |].
  pose proof (Bmult_correct prec emax prec_gt0 prec_lt_emax mode_NE (of_Z m) (of_Z (5 ^ e * 2 ^ e))) as H.
  rewrite Hx, Hy in H.
  rewrite Rlt_bool_true in H.
  - destruct H as (H1 & H2 & _). split; [exact H1 | rewrite H2, Fx, Fy; reflexivity].
  - (* no overflow: |round (m * 10^e)| <= round of something < 2^200 *)
    apply small_lt_emax.
    assert (Hb : (Rabs (IZR m * IZR (5 ^ e * 2 ^ e)) <= IZR (2 ^ 130))%R).
    { rewrite <- mult_IZR, <- abs_IZR. apply IZR_le.
      rewrite <- pow10_split by lia.
      assert (10 ^ e <= 10 ^ 22) by (apply Z.pow_le_mono_r; lia).
      assert (0 < 10 ^ e) by (apply Z.pow_pos_nonneg; lia).
      assert (2 ^ 53 * 10 ^ 22 < 2 ^ 130) by (vm_compute; reflexivity).
      rewrite Z.abs_eq by nia. nia. }
    apply Rle_lt_trans with (IZR (2 ^ 130)).
    + apply abs_round_le_generic; [apply FLT_exp_valid; exact prec_gt0 | apply valid_rnd_round_mode | | exact Hb].
      change (2 ^ 130) with (1 * 2 ^ 130). apply scaled_format; [vm_compute; reflexivity | lia].
    + apply IZR_lt. vm_compute. reflexivity.
Qed.
Print Assumptions fast_mul_correct.
