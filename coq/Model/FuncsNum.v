(* Model/FuncsNum.v -- theorems about the Eisel-Lemire code of sonic-number/src/lemire.rs as translated
   (T2): for every 64-bit significand and every decimal exponent the code can be called with, no
   arithmetic overflows, no shift amount leaves its range, no table index is out of bounds, no debug
   assertion fails (C01), and the returned (f, e) can be assembled into a bit pattern without loss:
   e = -1 (fall back to the slow path) or 0 <= e <= 2047 with f below 2^53 (C07: biased_fp_to_float). *)
From Coq Require Import ZArith List Bool Lia.
From SonicV Require Import Base.RustInt Gen.Tables Gen.Funcs Model.FuncsEsc Model.FuncsMisc.
Import ListNotations.
Open Scope Z_scope.
Ltac Zify.zify_post_hook ::= Z.div_mod_to_equations.

Definition W64 := 18446744073709551616.

Lemma table_bounds : forallb (fun p => (0 <=? fst p) && (fst p <? W64) && (0 <=? snd p) && (snd p <? W64)) POWER_OF_FIVE_128_Z = true
                     /\ length POWER_OF_FIVE_128_Z = 651%nat.
Proof. split; vm_compute; reflexivity. Qed.

Lemma table_entry : forall i, 0 <= i < 651 -> exists lo hi, idx POWER_OF_FIVE_128_Z i = Some (lo, hi) /\ 0 <= lo < W64 /\ 0 <= hi < W64.
Proof.
  intros i Hi. destruct table_bounds as [B L]. unfold idx. rewrite L. destruct (Z.ltb_spec i 0); [lia|]. destruct (Z.leb_spec (Z.of_nat 651) i); [lia|]. cbn [orb].
  destruct (nth_error POWER_OF_FIVE_128_Z (Z.to_nat i)) as [[lo hi]|] eqn:E.
  - exists lo, hi. split; [reflexivity|]. rewrite forallb_forall in B. specialize (B (lo, hi) (nth_error_In _ _ E)). cbn [fst snd] in B.
    apply andb_true_iff in B. destruct B as [B B4]. apply andb_true_iff in B. destruct B as [B B3]. apply andb_true_iff in B. destruct B as [B1 B2]. lia.
  - apply nth_error_None in E. lia.
Qed.

Lemma full_multiplication_ok : forall a b, 0 <= a < W64 -> 0 <= b < W64 ->
  full_multiplication a b = Some ((a * b) mod W64, (a * b) / W64) /\ 0 <= (a * b) / W64 <= W64 - 2.
Proof.
  intros a b Ha Hb. unfold full_multiplication, W64 in *.
  assert (P : 0 <= a * b <= 18446744073709551615 * 18446744073709551615) by nia.
  rewrite chk_u_some by (change (2 ^ 128) with 340282366920938463463374607431768211456; lia). cbn [bind].
  assert (Q : 0 <= a * b / 18446744073709551616 <= 18446744073709551614) by lia.
  split; [|exact Q]. rewrite (Z.mod_small (a * b / 18446744073709551616)) by lia. reflexivity.
Qed.

Lemma compute_product_approx_ok : forall q w, -342 <= q <= 308 -> 0 <= w < W64 ->
  exists lo hi, compute_product_approx q w 55 = Some (lo, hi) /\ 0 <= lo < W64 /\ 0 <= hi < W64.
Proof.
  intros q w Hq Hw. unfold compute_product_approx.
  destruct (Z.leb_spec (-342) q); [|lia]. destruct (Z.leb_spec q 308); [|lia].
  change (55 <=? 64) with true. change (55 <? 64) with true. cbv iota.
  change (chk_shr 64 18446744073709551615 55) with (Some 511). cbn [bind].
  rewrite chk_s_some by (change (2 ^ (64 - 1)) with 9223372036854775808; lia). cbn [bind].
  rewrite Z.mod_small by lia.
  destruct (table_entry (q - -342) ltac:(lia)) as [lo5 [hi5 [E [Rl Rh]]]]. rewrite E. cbn [bind].
  destruct (full_multiplication_ok w lo5 Hw Rl) as [M1 B1]. rewrite M1. cbn [bind].
  destruct (Z.land (w * lo5 / W64) 511 =? 511).
  - destruct (full_multiplication_ok w hi5 Hw Rh) as [M2 B2]. rewrite M2. cbn [bind].
    fold W64.
    destruct ((w * lo5 mod W64 + w * hi5 / W64) mod W64 <? w * hi5 / W64).
    + rewrite chk_u_some by (change (2 ^ 64) with W64; unfold W64 in *; lia). cbn [bind].
      eexists. eexists. split; [reflexivity|]. unfold W64 in *. split; [apply Z.mod_pos_bound; lia|lia].
    + eexists. eexists. split; [reflexivity|]. unfold W64 in *. split; [apply Z.mod_pos_bound; lia|lia].
  - eexists. eexists. split; [reflexivity|]. unfold W64 in *. split; [apply Z.mod_pos_bound; lia|lia].
Qed.

Lemma lemire_power_ok : forall q, -342 <= q <= 308 -> lemire_power q = Some (q * 217706 / 65536 + 63).
Proof.
  intros q H. unfold lemire_power.
  assert (R : wrap_s 32 (q * 217706) = q * 217706).
  { unfold wrap_s. change (2 ^ (32 - 1)) with 2147483648. change (2 ^ 32) with 4294967296. rewrite Z.mod_small by lia. lia. }
  rewrite R. rewrite chk_s_some by (change (2 ^ (32 - 1)) with 2147483648; lia). reflexivity.
Qed.

Lemma leading_zeros_range : forall w, 0 < w < W64 -> 0 <= leading_zeros 64 w <= 63 /\ 2 ^ 63 <= w * 2 ^ leading_zeros 64 w < W64.
Proof.
  intros w H. unfold leading_zeros. destruct (Z.leb_spec w 0); [lia|].
  assert (L : 0 <= Z.log2 w < 64). { split; [apply Z.log2_nonneg|]. apply Z.log2_lt_pow2; [lia|exact (proj2 H)]. }
  split; [lia|].
  destruct (Z.log2_spec w ltac:(lia)) as [A B].
  replace (64 - 1 - Z.log2 w) with (63 - Z.log2 w) by lia.
  assert (E : 2 ^ 63 = 2 ^ Z.log2 w * 2 ^ (63 - Z.log2 w)) by (rewrite <- Z.pow_add_r by lia; f_equal; lia).
  assert (P : 0 < 2 ^ (63 - Z.log2 w)) by (apply Z.pow_pos_nonneg; lia).
  split.
  - rewrite E. apply Z.mul_le_mono_nonneg_r; lia.
  - assert (E2 : W64 = 2 ^ Z.succ (Z.log2 w) * 2 ^ (63 - Z.log2 w)) by (rewrite <- Z.pow_add_r by lia; replace (Z.succ (Z.log2 w) + (63 - Z.log2 w)) with 64 by lia; reflexivity).
    rewrite E2. apply Z.mul_lt_mono_pos_r; lia.
Qed.

Lemma land1 : forall x, 0 <= x -> 0 <= Z.land x 1 <= 1.
Proof. intros x H. assert (E : Z.land x 1 = x mod 2) by (change 1 with (Z.ones 1); rewrite Z.land_ones by lia; reflexivity). rewrite E. lia. Qed.

Definition fp_ok (r : Z * Z) : Prop := let (f, e) := r in (e = -1 /\ f = 0) \/ (0 <= e <= 2047 /\ 0 <= f < 2 ^ 53).

Ltac s32 := rewrite chk_s_some by (change (2 ^ (32 - 1)) with 2147483648; lia); cbn [bind].

Definition okres (o : option (Z * Z)) : Prop := match o with Some r => fp_ok r | None => False end.

Lemma compute_float_okres : forall q w, - 2 ^ 63 <= q < 2 ^ 63 -> 0 <= w < W64 -> okres (compute_float_f64 q w).
Proof.
  intros q w Hq Hw. unfold compute_float_f64, biased_fp_zero_pow2. cbn [bind].
  destruct ((w =? 0) || (q <? -342)) eqn:C0.
  { right. cbn. lia. }
  destruct (Z.ltb_spec 308 q) as [C1|C1].
  { right. cbn. lia. }
  apply orb_false_iff in C0. destruct C0 as [Cw Cq]. apply Z.eqb_neq in Cw. apply Z.ltb_ge in Cq.
  destruct (leading_zeros_range w ltac:(unfold W64 in *; lia)) as [Rlz Rn].
  set (lz := leading_zeros 64 w) in *.
  rewrite chk_shl_u_some by lia. cbn [bind]. unfold shl_u. change (2 ^ 64) with W64.
  rewrite (Z.mod_small (w * 2 ^ lz)) by lia.
  destruct (compute_product_approx_ok q (w * 2 ^ lz) ltac:(lia) ltac:(lia)) as [lo [hi [E [Rlo Rhi]]]].
  rewrite E. cbn [bind].
  set (early := if lo =? 18446744073709551615 then _ else None).
  destruct early as [r|] eqn:Ee.
  { unfold early in Ee. destruct (lo =? 18446744073709551615); [|discriminate].
    cbv zeta in Ee. destruct (negb ((-27 <=? q) && (q <=? 55))); [|discriminate]. injection Ee as <-. left. split; reflexivity. }
  clear Ee early.
  assert (Ru : 0 <= hi / 9223372036854775808 <= 1) by (unfold W64 in *; lia).
  assert (Eu : wrap_s 32 (hi / 9223372036854775808) = hi / 9223372036854775808).
  { unfold wrap_s. change (2 ^ (32 - 1)) with 2147483648. change (2 ^ 32) with 4294967296. rewrite Z.mod_small by lia. lia. }
  rewrite Eu. set (ub := hi / 9223372036854775808) in *.
  s32. s32. s32. rewrite chk_shr_some by lia. cbn [bind]. unfold shr.
  assert (Eq32 : wrap_s 32 q = q).
  { unfold wrap_s. change (2 ^ (32 - 1)) with 2147483648. change (2 ^ 32) with 4294967296. rewrite Z.mod_small by lia. lia. }
  rewrite Eq32, lemire_power_ok by lia. cbn [bind].
  assert (Elz : wrap_s 32 lz = lz).
  { unfold wrap_s. change (2 ^ (32 - 1)) with 2147483648. change (2 ^ 32) with 4294967296. rewrite Z.mod_small by lia. lia. }
  rewrite Elz.
  s32. s32. s32.
  set (sh := ub + 64 - 52 - 3) in *. assert (Rsh : 9 <= sh <= 10) by (unfold sh; lia).
  assert (P9 : (sh = 9 /\ 2 ^ sh = 512 /\ hi < 9223372036854775808) \/ (sh = 10 /\ 2 ^ sh = 1024)).
  { destruct (Z.eq_dec ub 0) as [U0|U0].
    - left. assert (sh = 9) as -> by (unfold sh; lia). split; [reflexivity|]. split; [reflexivity|]. unfold ub in U0. lia.
    - right. assert (sh = 10) as -> by (unfold sh; lia). split; reflexivity. }
  set (m0 := hi / 2 ^ sh).
  assert (Rm0 : 0 <= m0 < 18014398509481984) by (unfold m0, W64 in *; destruct P9 as [[_ [-> ?]] | [_ ->]]; lia).
  set (p2 := q * 217706 / 65536 + 63 + ub - lz - -1023) in *.
  assert (Rp2 : -2000 <= p2 <= 3000) by (unfold p2; lia).
  destruct (Z.leb_spec p2 0) as [Cp|Cp].
  - s32. s32. destruct (Z.leb_spec 64 (- p2 + 1)).
    + right. cbn. lia.
    + rewrite chk_shr_some by lia. cbn [bind]. unfold shr.
      assert (Pk : 2 <= 2 ^ (- p2 + 1)). { change 2 with (2 ^ 1) at 1. apply Z.pow_le_mono_r; lia. }
      set (m1 := m0 / 2 ^ (- p2 + 1)). assert (Rm1 : 0 <= m1 < 9007199254740992).
      { unfold m1. assert (A1 : 0 <= m0) by lia. assert (A2 : 0 < 2 <= 2 ^ (- p2 + 1)) by lia.
        pose proof (Z.div_le_compat_l m0 2 (2 ^ (- p2 + 1)) A1 A2) as A3.
        assert (A4 : 0 <= m0 / 2 ^ (- p2 + 1)) by (apply Z.div_pos; lia).
        assert (A5 : m0 / 2 < 9007199254740992) by lia. lia. }
      pose proof (land1 m1 ltac:(lia)) as L1.
      rewrite chk_u_some by (change (2 ^ 64) with W64; unfold W64; lia). cbn [bind okres fp_ok].
      right. change (2 ^ 53) with 9007199254740992.
      destruct (4503599627370496 <=? (m1 + Z.land m1 1) / 2); cbn [b2z]; lia.
  - set (c := if (lo <=? 1) && (-4 <=? q) && (q <=? 23) && (Z.land m0 3 =? 1) then _ else Some false).
    assert (Ec : exists b, c = Some b).
    { unfold c. destruct ((lo <=? 1) && (-4 <=? q) && (q <=? 23) && (Z.land m0 3 =? 1)); [|eexists; reflexivity].
      rewrite chk_shl_u_some by lia. cbn [bind]. eexists. reflexivity. }
    destruct Ec as [b Ec]. rewrite Ec. cbn [bind].
    set (m1 := if b then Z.land m0 18446744073709551614 else m0).
    assert (Rm1 : 0 <= m1 < 18014398509481984).
    { unfold m1. destruct b; [|lia]. split; [apply Z.land_nonneg; lia|].
      assert (Z.land m0 18446744073709551614 <= m0); [|lia].
      pose proof (Z.sub_nocarry_ldiff m0 (Z.land m0 1)) as S.
      assert (D : Z.ldiff (Z.land m0 1) m0 = 0).
      { apply Z.bits_inj'. intros i Hi. rewrite Z.ldiff_spec, Z.land_spec, Z.bits_0. destruct (Z.testbit m0 i); cbn; [apply andb_false_r|reflexivity]. }
      specialize (S D).
      assert (E1 : Z.land m0 18446744073709551614 = Z.ldiff m0 (Z.land m0 1)).
      { apply Z.bits_inj'. intros i Hi. rewrite Z.ldiff_spec, !Z.land_spec.
        destruct (Z_lt_le_dec i 64) as [L|L].
        - destruct (Z.eq_dec i 0) as [->|Hn]; [destruct (Z.testbit m0 0); reflexivity|].
          assert (T1 : Z.testbit 1 i = false) by (apply (testbit_above 1 1 i); lia).
          assert (T2 : Z.testbit 18446744073709551614 i = true).
          { change 18446744073709551614 with (Z.ones 63 * 2 ^ 1). rewrite Z.mul_pow2_bits by lia. apply Z.ones_spec_low. lia. }
          rewrite T1, T2. destruct (Z.testbit m0 i); reflexivity.
        - rewrite (testbit_above 64 m0 i) by (change (2 ^ 64) with W64; unfold W64; lia). reflexivity. }
      rewrite E1, <- S. pose proof (land1 m0 ltac:(lia)). lia. }
    assert (Hm : (if b then Some (Z.land m0 18446744073709551614) else Some m0) = Some m1) by (unfold m1; destruct b; reflexivity).
    rewrite Hm. cbn [bind].
    pose proof (land1 m1 ltac:(lia)) as L1.
    rewrite chk_u_some by (change (2 ^ 64) with W64; unfold W64; lia). cbn [bind].
    set (m2 := (m1 + Z.land m1 1) / 2). assert (Rm2 : 0 <= m2 <= 9007199254740992) by (unfold m2; lia).
    destruct (Z.leb_spec 9007199254740992 m2).
    + s32. change (Z.land 4503599627370496 18442240474082181119) with 0. cbn [okres].
      destruct (2047 <=? p2 + 1) eqn:Ci; right; cbn; [lia|]. apply Z.leb_gt in Ci. change (2 ^ 53) with 9007199254740992. lia.
    + cbn [bind okres fp_ok].
      assert (R3 : 0 <= Z.land m2 18442240474082181119 < 2 ^ 53).
      { split; [apply Z.land_nonneg; lia|]. apply bounded_by_bits; [lia|apply Z.land_nonneg; lia|].
        intros i Hi. rewrite Z.land_spec, (testbit_above 53 m2 i) by (change (2 ^ 53) with 9007199254740992; lia). reflexivity. }
      destruct (2047 <=? p2) eqn:Ci; right; cbn; [lia|]. apply Z.leb_gt in Ci. lia.
Qed.

Theorem compute_float_never_panics : forall q w, - 2 ^ 63 <= q < 2 ^ 63 -> 0 <= w < W64 ->
  exists r, compute_float_f64 q w = Some r /\ fp_ok r.
Proof.
  intros q w Hq Hw. pose proof (compute_float_okres q w Hq Hw) as H. unfold okres in H.
  destruct (compute_float_f64 q w) as [r|]; [|contradiction]. exists r. split; [reflexivity|exact H].
Qed.

(* the assembled word of biased_fp_to_float is the bit pattern with that exponent field and fraction:
   nothing is shifted out and the or is a sum (the hidden-bit carry of a subnormal that rounds up to
   the smallest normal number lands in the exponent field by construction) *)
Theorem biased_fp_to_bits_ok : forall f e, 0 <= e <= 2047 -> 0 <= f < 2 ^ 52 ->
  biased_fp_to_bits_f64 (f, e) = Some (f + e * 2 ^ 52).
Proof.
  intros f e He Hf. unfold biased_fp_to_bits_f64. cbn [fst snd].
  change (2 ^ 52) with 4503599627370496 in *.
  rewrite (Z.mod_small e) by lia. rewrite (Z.mod_small (e * 4503599627370496)) by lia.
  change 4503599627370496 with (2 ^ 52). rewrite lor_disjoint by (change (2 ^ 52) with 4503599627370496; lia). reflexivity.
Qed.
