(* Model/EscRoundTrip.v -- what the serializer's escaper writes, the reference string decoder reads
   back: decode (escape s) = s for every byte string, with the quoting tables' specification
   (TablesDefs.need_spec / quote_spec, tied to the crate's tables by TablesOk). *)
From Coq Require Import List NArith Arith Bool Lia.
From SonicV Require Import Spec.Ref Model.Escape Model.TablesDefs.
Import ListNotations.
Open Scope N_scope.

Definition escape (s : list N) : list N := Escape.spec_escape need_spec quote_spec s.

Lemma small_cases : forall c, c < 32 -> In c (map N.of_nat (seq 0 32)).
Proof. intros c H. apply in_map_iff. exists (N.to_nat c). split; [apply N2Nat.id|]. apply in_seq. lia. Qed.

(* one escaped byte is read back as that byte *)
Lemma esc_step : forall c, need_spec c = true -> forall f tail d h rest,
  Ref.str_body true f tail = Some (d, h, rest) ->
  Ref.str_body true (S f) (quote_spec c ++ tail) = Some (c :: d, true, rest).
Proof.
  intros c Hn f tail d h rest H.
  assert (C : In c (map N.of_nat (seq 0 32)) \/ c = 34 \/ c = 92).
  { unfold need_spec in Hn. apply orb_true_iff in Hn. destruct Hn as [Hn|Hn].
    - apply orb_true_iff in Hn. destruct Hn as [Hn|Hn]; [left; apply small_cases; apply N.ltb_lt; exact Hn|right; left; apply N.eqb_eq; exact Hn].
    - right; right; apply N.eqb_eq; exact Hn. }
  destruct C as [C | [-> | ->]].
  - cbn in C. repeat (destruct C as [<- | C]; [cbn; rewrite H; reflexivity|]). contradiction.
  - cbn. rewrite H. reflexivity.
  - cbn. rewrite H. reflexivity.
Qed.

Theorem decode_escape : forall s fuel rest, (length s < fuel)%nat ->
  Ref.str_body true fuel (escape s ++ 34 :: rest) = Some (s, existsb need_spec s, rest).
Proof.
  induction s as [|c s IH]; intros fuel rest Hf.
  - destruct fuel as [|f]; [cbn in Hf; lia|]. reflexivity.
  - destruct fuel as [|f]; [cbn in Hf; lia|]. cbn [length] in Hf.
    unfold escape, Escape.spec_escape. cbn [flat_map]. fold (Escape.spec_escape need_spec quote_spec s). fold (escape s).
    unfold Escape.esc1. rewrite <- app_assoc. cbn [existsb].
    destruct (need_spec c) eqn:Hn.
    + assert (Lf : (length s < f)%nat) by lia.
      rewrite (esc_step c Hn f _ _ _ _ (IH f rest Lf)). reflexivity.
    + (* an ordinary byte passes through *)
      assert (Lf : (length s < f)%nat) by lia.
      unfold need_spec in Hn. apply orb_false_iff in Hn. destruct Hn as [Hn N92]. apply orb_false_iff in Hn. destruct Hn as [N32 N34].
      cbn [app Ref.str_body]. rewrite N34, N92, N32. rewrite (IH f rest Lf). reflexivity.
Qed.
