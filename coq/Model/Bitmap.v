From Coq Require Import List Bool Arith Lia.
Import ListNotations.

(* words as bit lists, least significant bit first; all operations keep the width *)
Fixpoint shl1 (x : list bool) (cin : bool) : list bool :=      (* (x << 1) | cin, truncated *)
  match x with [] => [] | b :: t => cin :: shl1 t b end.
Fixpoint evens (n : nat) (par : bool) : list bool :=            (* 0x5555.. when par = true *)
  match n with 0 => [] | S k => par :: evens k (negb par) end.
Fixpoint add (a b : list bool) (c : bool) : list bool * bool := (* ripple-carry, returns carry out *)
  match a, b with
  | x :: a', y :: b' => let (r, co) := add a' b' ((x && y) || (c && xorb x y)) in (xorb (xorb x y) c :: r, co)
  | _, _ => ([], c)
  end.
Fixpoint map3 (g : bool -> bool -> bool -> bool) (a b c : list bool) : list bool :=
  match a, b, c with x :: a', y :: b', z :: c' => g x y z :: map3 g a' b' c' | _, _, _ => [] end.

(* get_escaped_branchless, generalised over the carries that enter at the current position:
   par  = is the current index even,  fin = bit shifted into follows_escape,
   cin  = carry into the adder,       sin = bit shifted into invert_mask *)
Definition esc_from (par fin cin sin : bool) (b : list bool) : list bool * bool :=
  let even := evens (length b) par in
  let follows := shl1 b fin in
  let odd_starts := map3 (fun bi ev fi => bi && negb ev && negb fi) b even follows in
  let (s, ov) := add odd_starts b cin in
  let inv := shl1 s sin in
  (map3 (fun ev iv fi => xorb ev iv && fi) even inv follows, ov).

(* the function as called by the code: backslash & !prev_escaped only affects bit 0 *)
Definition clear0 (prev : bool) (bs : list bool) := match bs with [] => [] | b :: t => (b && negb prev) :: t end.
Definition get_escaped (prev : bool) (bs : list bool) : list bool * bool :=
  esc_from true prev false false (clear0 prev bs).

(* specification: bit i is escaped iff the previous byte is a backslash that is not itself escaped *)
Fixpoint escaped_spec (e : bool) (bs : list bool) : list bool * bool :=
  match bs with [] => ([], e) | b :: t => let (r, last) := escaped_spec (b && negb e) t in (e :: r, last) end.

Lemma esc_from_cons : forall par fin cin sin b t,
  esc_from par fin cin sin (b :: t) =
    let o := b && negb par && negb fin in
    let s := xorb (xorb o b) cin in
    let (r, ov) := esc_from (negb par) b ((o && b) || (cin && xorb o b)) s t in
    (xorb par sin && fin :: r, ov).
Proof.
  intros. unfold esc_from. cbn [length evens shl1 map3 add].
  destruct (add _ t _) as [s ov]. reflexivity.
Qed.

(* invariant between the machine state (par, f, c, sprev) and the specification state e *)
Definition rel (par f c sprev e : bool) : Prop :=
  if f then sprev = negb c /\ e = xorb par sprev else c = false /\ e = false.

Lemma esc_from_correct : forall t par f c sprev e,
  rel par f c sprev e ->
  Nat.even (length t) = par ->          (* so that the index after the last bit is even *)
  esc_from par f c sprev t = escaped_spec e t.
Proof.
  induction t as [|b t IH]; intros par f c sprev e R Hpar.
  - cbn in Hpar. subst par. unfold esc_from. cbn. unfold rel in R. destruct f; destruct R as [R1 R2]; subst; [destruct c|]; reflexivity.
  - rewrite esc_from_cons. cbn [escaped_spec]. cbv zeta.
    assert (Hpar' : Nat.even (length t) = negb par).
    { cbn [length] in Hpar. rewrite Nat.even_succ in Hpar. rewrite <- Nat.negb_even in Hpar. destruct (Nat.even (length t)), par; cbn in *; congruence. }
    unfold rel in R.
    rewrite (IH (negb par) b _ _ (b && negb e)); [| |exact Hpar'].
    + destruct (escaped_spec (b && negb e) t) as [r last]. f_equal. f_equal.
      destruct f; destruct R as [R1 R2]; rewrite R2, ?R1; clear; destruct par; try destruct c; try destruct sprev; reflexivity.
    + unfold rel. destruct f; destruct R as [R1 R2]; rewrite R2, ?R1; clear; destruct b, par; try destruct c; try destruct sprev; cbn; auto.
Qed.

Theorem get_escaped_correct : forall prev bs, bs <> [] -> Nat.even (length bs) = true ->
  get_escaped prev bs = escaped_spec prev bs.
Proof.
  intros prev [|b t] Hne Hn; [congruence|].
  unfold get_escaped. cbn [clear0]. rewrite esc_from_cons. cbn [escaped_spec]. cbv zeta.
  assert (Hpar' : Nat.even (length t) = false).
  { cbn [length] in Hn. rewrite Nat.even_succ, <- Nat.negb_even in Hn. destruct (Nat.even (length t)); cbn in *; congruence. }
  rewrite (esc_from_correct t false (b && negb prev) _ _ (b && negb prev)); [| |exact Hpar'].
  - destruct (escaped_spec (b && negb prev) t) as [r last]. destruct prev; reflexivity.
  - unfold rel. destruct b, prev; cbn; auto.
Qed.
Print Assumptions get_escaped_correct.
(* sanity: 8-bit example  bs = \ \ " \ " x \ \  (LSB first) *)
Example ex1 : get_escaped false [true;true;false;true;false;false;true;true] = ([false;true;false;false;true;false;false;true], false).
Proof. reflexivity. Qed.
