(* Model/Latch.v -- the terminal latch of StreamDeserializer::next (serde/de.rs) and of the lazy
   iterators (lazyvalue/iterator.rs: next_elem_impl / next_entry_impl): after an error or the end
   has been reported, nothing further is reported, whatever the underlying parser would do. *)
From Coq Require Import List Bool Arith Lia.
Import ListNotations.

Inductive poll := POk | PErr | PNone.        (* Some(Ok _) | Some(Err _) | None *)

Section Latch.
Variable S : Type.
(* what one call of the underlying driver does in state s: the new state and its outcome
   (deserialize / parse_array_elem_lazy / parse_entry_lazy); arbitrary, also after an error *)
Variable inner : S -> S * poll.
(* [stream = true]: StreamDeserializer (no end-of-container outcome: the driver's PNone does not
   occur, EOF is an error); [stream = false]: the lazy iterators *)

Record st := { ending : bool; cur : S }.

Definition next (s : st) : st * poll :=
  if ending s then (s, PNone)
  else
    let (c, r) := inner (cur s) in
    match r with
    | POk => ({| ending := false; cur := c |}, POk)
    | PErr => ({| ending := true; cur := c |}, PErr)
    | PNone => ({| ending := true; cur := c |}, PNone)
    end.

Fixpoint polls (n : nat) (s : st) : list poll :=
  match n with O => [] | Datatypes.S k => let (s', r) := next s in r :: polls k s' end.

(* the specification of a latched transcript: items, then at most one error, then only None *)
Fixpoint latched (l : list poll) : bool :=
  match l with
  | [] => true
  | POk :: r => latched r
  | _ :: r => forallb (fun p => match p with PNone => true | _ => false end) r
  end.

Lemma polls_ended : forall n s, ending s = true -> forallb (fun p => match p with PNone => true | _ => false end) (polls n s) = true.
Proof.
  induction n as [|n IH]; intros s H; cbn [polls]; [reflexivity|].
  unfold next. rewrite H. cbn [forallb]. apply IH. exact H.
Qed.

Theorem polls_latched : forall n s, latched (polls n s) = true.
Proof.
  induction n as [|n IH]; intros s; cbn [polls]; [reflexivity|].
  unfold next. destruct (ending s) eqn:E.
  - cbn [latched]. apply polls_ended. exact E.
  - destruct (inner (cur s)) as [c r]. destruct r; cbn [latched].
    + apply IH.
    + apply polls_ended. reflexivity.
    + apply polls_ended. reflexivity.
Qed.
End Latch.

(* non-vacuity: a driver that would go on producing items after its first error *)
Example latch_example :
  polls nat (fun k => (Datatypes.S k, if Nat.eqb k 2 then PErr else POk)) 6 {| ending := false; cur := 0 |}
  = [POk; POk; PErr; PNone; PNone; PNone].
Proof. reflexivity. Qed.
