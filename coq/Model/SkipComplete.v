(* Model/SkipComplete.v -- completeness of the validating skipper: every RFC 8259 value, preceded by
   whitespace and followed by a byte that may follow a value (whitespace , ] } or the end), is
   skipped exactly, with fuel bounded by its length.  With skip_text_sound this makes the model of
   the validating entry points accept EXACTLY whitespace value whitespace (C02, the "if and only if"). *)
From Coq Require Import List NArith Arith Lia Bool.
From SonicV Require Import Model.SkipStr Model.SkipNum Model.Skip Model.SkipAll.
Import ListNotations.
Open Scope N_scope.

Scheme value_min := Minimality for Skip.value Sort Prop
  with elements_min := Minimality for Skip.elements Sort Prop
  with members_min := Minimality for Skip.members Sort Prop.
Combined Scheme value_mutind from value_min, elements_min, members_min.

Notation sk1 := (Skip.skip_one skip_str_c skip_num_c).
Notation arrl := (Skip.arr_loop skip_str_c skip_num_c).
Notation objl := (Skip.obj_loop skip_str_c skip_num_c).
Notation Elements := (Skip.elements is_str is_num).
Notation Members := (Skip.members is_str is_num).

(* what may follow a value *)
Definition follows (rest : list N) : Prop :=
  match rest with [] => True | c :: _ => is_ws c = true \/ c = 44 \/ c = 93 \/ c = 125 end.

Lemma follows_stops : forall rest, follows rest -> stops rest.
Proof.
  intros [|c t] H; [exact I|]. cbn [follows] in H. cbn [stops].
  destruct H as [H|[-> |[-> | ->]]]; try (repeat split; (reflexivity || discriminate)).
  unfold is_ws in H. repeat rewrite orb_true_iff in H. rewrite !N.eqb_eq in H.
  destruct H as [[[-> | ->]| ->]| ->]; repeat split; (reflexivity || discriminate).
Qed.

Lemma ws_app : forall w x, all_ws w -> ws (w ++ x) = ws x.
Proof. induction w as [|c w IH]; intros x H; [reflexivity|]. inversion H as [|? ? Hc Hw]; subst. cbn [app ws]. rewrite Hc. apply IH. exact Hw. Qed.
Lemma ws_head : forall c t, is_ws c = false -> ws (c :: t) = c :: t.
Proof. intros c t H. cbn [ws]. rewrite H. reflexivity. Qed.
Lemma ws_all : forall w, all_ws w -> ws w = [].
Proof. intros w H. rewrite <- (app_nil_r w). rewrite ws_app by exact H. reflexivity. Qed.

(* ---------- dispatch of skip_one on the first non-space byte ---------- *)
Lemma sk1_str : forall f l r, ws l = 34 :: r -> sk1 (S f) l = skip_str_c r.
Proof. intros f l r E. cbn [skip_one]. rewrite E. reflexivity. Qed.
Lemma sk1_arr : forall f l r, ws l = 91 :: r -> sk1 (S f) l = match ws r with 93 :: r' => Some r' | _ => arrl f r end.
Proof. intros f l r E. cbn [skip_one]. rewrite E. reflexivity. Qed.
Lemma sk1_obj : forall f l r, ws l = 123 :: r -> sk1 (S f) l = match ws r with 125 :: r' => Some r' | 34 :: _ => objl f (ws r) | _ => None end.
Proof. intros f l r E. cbn [skip_one]. rewrite E. reflexivity. Qed.
Lemma sk1_true : forall f l r, ws l = 116 :: r -> sk1 (S f) l = lit [114;117;101] r.
Proof. intros f l r E. cbn [skip_one]. rewrite E. reflexivity. Qed.
Lemma sk1_false : forall f l r, ws l = 102 :: r -> sk1 (S f) l = lit [97;108;115;101] r.
Proof. intros f l r E. cbn [skip_one]. rewrite E. reflexivity. Qed.
Lemma sk1_null : forall f l r, ws l = 110 :: r -> sk1 (S f) l = lit [117;108;108] r.
Proof. intros f l r E. cbn [skip_one]. rewrite E. reflexivity. Qed.
Lemma sk1_num : forall f l c r, ws l = c :: r -> (c = 45 \/ digit c = true) -> sk1 (S f) l = skip_num_c c r.
Proof.
  intros f l c r E H. cbn [skip_one]. rewrite E. destruct H as [-> |H]; [reflexivity|].
  assert (R : 48 <= c <= 57). { unfold digit in H. apply andb_true_iff in H. destruct H as [A B]. apply N.leb_le in A. apply N.leb_le in B. lia. }
  destruct (N.eqb_spec c 34); [lia|]. destruct (N.eqb_spec c 91); [lia|]. destruct (N.eqb_spec c 123); [lia|].
  destruct (N.eqb_spec c 116); [lia|]. destruct (N.eqb_spec c 102); [lia|]. destruct (N.eqb_spec c 110); [lia|].
  unfold numstart. fold (digit c). rewrite H. rewrite orb_true_r. reflexivity.
Qed.

Lemma lit_complete : forall word rest, lit word (word ++ rest) = Some rest.
Proof.
  intros word rest. unfold lit. rewrite app_length.
  replace ((length word <=? length word + length rest)%nat) with true by (symmetry; apply Nat.leb_le; lia).
  rewrite firstn_app, Nat.sub_diag, firstn_all. cbn [firstn]. rewrite app_nil_r.
  destruct (list_eq_dec N.eq_dec word word) as [_|C]; [|congruence]. cbn [andb].
  rewrite skipn_app, Nat.sub_diag, skipn_all. reflexivity.
Qed.

(* ---------- heads ---------- *)
Definition vhead (c : N) : bool :=
  (c =? 34) || (c =? 45) || digit c || (c =? 116) || (c =? 102) || (c =? 110) || (c =? 91) || (c =? 123).

Lemma vhead_facts : forall c, vhead c = true -> is_ws c = false /\ c <> 93 /\ c <> 125 /\ c <> 44.
Proof.
  intros c H. unfold vhead, digit in H. repeat rewrite orb_true_iff in H. rewrite andb_true_iff in H. rewrite !N.eqb_eq, !N.leb_le in H.
  unfold is_ws. split; [|lia]. repeat (apply orb_false_iff; split); apply N.eqb_neq; lia.
Qed.

Lemma number_head : forall n, is_number n -> exists c t, n = c :: t /\ (c = 45 \/ digit c = true).
Proof.
  intros n (sg & i & f & e & -> & Hsg & Hi & _ & _).
  destruct Hsg as [-> | ->]; [|exists 45, (i ++ f ++ e); split; [reflexivity|left; reflexivity]].
  destruct Hi as [-> | (d & ds & -> & Hd & _)]; [exists 48, (f ++ e); split; [reflexivity|right; reflexivity]|].
  exists d, (ds ++ f ++ e). split; [reflexivity|right; exact Hd].
Qed.

Lemma value_head : forall v, Value v -> exists c t, v = c :: t /\ vhead c = true.
Proof.
  intros v H. destruct H as [s (body & -> & _)|n Hn| | | |w Hw|es He|w Hw|ms Hm]; try (eexists; eexists; split; [reflexivity|reflexivity]).
  destruct (number_head _ Hn) as (c & t & -> & Hc). exists c, t. split; [reflexivity|].
  destruct Hc as [-> | Hd]; [reflexivity|]. unfold vhead. rewrite Hd. rewrite !orb_true_r. reflexivity.
Qed.

Lemma digit_not_ws' : forall c, digit c = true -> is_ws c = false.
Proof.
  intros c H. unfold digit in H. apply andb_true_iff in H. destruct H as [A B]. apply N.leb_le in A. apply N.leb_le in B.
  unfold is_ws. repeat (apply orb_false_iff; split); apply N.eqb_neq; lia.
Qed.

Lemma follows_all_ws : forall w, all_ws w -> follows w.
Proof. intros [|c t] H; [exact I|]. inversion H; subst. left. assumption. Qed.
Lemma follows_ws_sep : forall w c t, all_ws w -> (c = 44 \/ c = 93 \/ c = 125) -> follows (w ++ c :: t).
Proof. intros [|d w] c t H Hc; cbn [app follows]; [right; exact Hc|]. inversion H; subst. left. assumption. Qed.

Lemma str_complete : forall body rest, str_body body -> skip_str_c (body ++ 34 :: rest) = Some rest.
Proof. intros body rest Hb. unfold skip_str_c. apply skip_complete; [exact Hb|]. rewrite app_length. cbn [length]. lia. Qed.

Lemma num_complete : forall n rest, is_number n -> follows rest ->
  exists c t, n ++ rest = c :: t /\ (c = 45 \/ digit c = true) /\ skip_num_c c t = Some rest.
Proof.
  intros n rest Hn Hf. destruct (skip_num_complete n rest Hn (follows_stops _ Hf)) as (c & t & E & Sk).
  destruct (number_head _ Hn) as (c' & t' & En & Hc). subst n. cbn [app] in E. injection E as <- <-.
  exists c', (t' ++ rest). split; [reflexivity|]. split; [exact Hc|].
  unfold skip_num_c. replace ((c' =? 45) || digit c') with true; [exact Sk|].
  destruct Hc as [-> | Hd]; [reflexivity|]. rewrite Hd. rewrite orb_true_r. reflexivity.
Qed.

(* ---------- one step of the loops ---------- *)
Lemma arrl_unfold : forall f l, arrl (S f) l =
  match sk1 f l with None => None | Some r => match ws r with 93 :: r' => Some r' | 44 :: r' => arrl f r' | _ => None end end.
Proof. reflexivity. Qed.
Lemma objl_unfold : forall f k, objl (S f) (34 :: k) =
  match skip_str_c k with None => None | Some r =>
    match ws r with 58 :: r1 =>
      match sk1 f r1 with None => None | Some r2 =>
        match ws r2 with 125 :: r' => Some r' | 44 :: r3 => (match ws r3 with 34 :: _ => objl f (ws r3) | _ => None end) | _ => None end end
    | _ => None end end.
Proof. reflexivity. Qed.
Lemma arrl_last : forall f l r r', sk1 f l = Some r -> ws r = 93 :: r' -> arrl (S f) l = Some r'.
Proof. intros f l r r' H1 H2. rewrite arrl_unfold, H1, H2. reflexivity. Qed.
Lemma arrl_more : forall f l r r', sk1 f l = Some r -> ws r = 44 :: r' -> arrl (S f) l = arrl f r'.
Proof. intros f l r r' H1 H2. rewrite arrl_unfold, H1, H2. reflexivity. Qed.
Lemma objl_last : forall f k r r1 r2 r', skip_str_c k = Some r -> ws r = 58 :: r1 -> sk1 f r1 = Some r2 -> ws r2 = 125 :: r' ->
  objl (S f) (34 :: k) = Some r'.
Proof. intros f k r r1 r2 r' H1 H2 H3 H4. rewrite objl_unfold, H1, H2, H3, H4. reflexivity. Qed.
Lemma objl_more : forall f k r r1 r2 r3 X, skip_str_c k = Some r -> ws r = 58 :: r1 -> sk1 f r1 = Some r2 -> ws r2 = 44 :: r3 -> ws r3 = 34 :: X ->
  objl (S f) (34 :: k) = objl f (34 :: X).
Proof. intros f k r r1 r2 r3 X H1 H2 H3 H4 H5. rewrite objl_unfold, H1, H2, H3, H4, H5. reflexivity. Qed.

Lemma elements_head : forall es, Elements es -> forall x, exists c t, ws (es ++ x) = c :: t /\ vhead c = true.
Proof.
  intros es H x. assert (G : exists w1 v y, all_ws w1 /\ Value v /\ es = w1 ++ v ++ y).
  { inversion H as [w1 v w2 Hw1 Hv Hw2|w1 v w2 r Hw1 Hv Hw2 Hr]; subst; [exists w1, v, w2|exists w1, v, (w2 ++ 44 :: r)]; repeat split; assumption. }
  destruct G as (w1 & v & y & Hw1 & Hv & ->). destruct (value_head v Hv) as (c & t & -> & Hc).
  exists c, (t ++ y ++ x). split; [|exact Hc].
  rewrite <- app_assoc. rewrite ws_app by exact Hw1. cbn [app]. rewrite <- app_assoc.
  apply ws_head. apply (vhead_facts c Hc).
Qed.

Ltac norm := repeat (first [rewrite <- app_assoc | progress (cbn [app])]); reflexivity.

Theorem skip_complete_all :
  (forall v, Value v -> forall w rest fuel, all_ws w -> follows rest -> (length v <= fuel)%nat -> sk1 fuel (w ++ v ++ rest) = Some rest) /\
  (forall es, Elements es -> forall rest fuel, (length es < fuel)%nat -> arrl fuel (es ++ 93 :: rest) = Some rest) /\
  (forall ms, Members ms -> forall rest fuel, (length ms < fuel)%nat ->
     (exists X, ws (ms ++ 125 :: rest) = 34 :: X) /\ objl fuel (ws (ms ++ 125 :: rest)) = Some rest).
Proof.
  apply (value_mutind is_str is_num
    (fun v => forall w rest fuel, all_ws w -> follows rest -> (length v <= fuel)%nat -> sk1 fuel (w ++ v ++ rest) = Some rest)
    (fun es => forall rest fuel, (length es < fuel)%nat -> arrl fuel (es ++ 93 :: rest) = Some rest)
    (fun ms => forall rest fuel, (length ms < fuel)%nat ->
     (exists X, ws (ms ++ 125 :: rest) = 34 :: X) /\ objl fuel (ws (ms ++ 125 :: rest)) = Some rest)).
  - (* string *)
    intros s (body & -> & Hb) w rest fuel Hw Hf Hl. destruct fuel as [|f]; [cbn [length] in Hl; lia|].
    rewrite (sk1_str f _ (body ++ 34 :: rest)); [apply str_complete; exact Hb|].
    rewrite ws_app by exact Hw. cbn [app]. rewrite ws_head by reflexivity. rewrite <- app_assoc. reflexivity.
  - (* number *)
    intros n Hn w rest fuel Hw Hf Hl. destruct (num_complete n rest Hn Hf) as (c & t & E & Hc & Sk).
    destruct fuel as [|f]; [destruct (number_head _ Hn) as (c' & t' & -> & _); cbn [length] in Hl; lia|].
    rewrite (sk1_num f _ c t); [exact Sk| |exact Hc].
    rewrite ws_app by exact Hw. rewrite E. apply ws_head. destruct Hc as [-> | Hd]; [reflexivity|apply digit_not_ws'; exact Hd].
  - intros w rest fuel Hw Hf Hl. destruct fuel as [|f]; [cbn [length] in Hl; lia|].
    rewrite (sk1_true f _ ([114;117;101] ++ rest)); [apply lit_complete|]. rewrite ws_app by exact Hw. reflexivity.
  - intros w rest fuel Hw Hf Hl. destruct fuel as [|f]; [cbn [length] in Hl; lia|].
    rewrite (sk1_false f _ ([97;108;115;101] ++ rest)); [apply lit_complete|]. rewrite ws_app by exact Hw. reflexivity.
  - intros w rest fuel Hw Hf Hl. destruct fuel as [|f]; [cbn [length] in Hl; lia|].
    rewrite (sk1_null f _ ([117;108;108] ++ rest)); [apply lit_complete|]. rewrite ws_app by exact Hw. reflexivity.
  - (* empty array *)
    intros w0 Hw0 w rest fuel Hw Hf Hl. destruct fuel as [|f]; [cbn [length] in Hl; lia|].
    rewrite (sk1_arr f _ (w0 ++ 93 :: rest)).
    + rewrite ws_app by exact Hw0. reflexivity.
    + rewrite ws_app by exact Hw. cbn [app]. rewrite ws_head by reflexivity. rewrite <- app_assoc. reflexivity.
  - (* array *)
    intros es He IH w rest fuel Hw Hf Hl. destruct fuel as [|f]; [cbn [length] in Hl; lia|].
    rewrite (sk1_arr f _ (es ++ 93 :: rest)).
    + assert (HA : arrl f (es ++ 93 :: rest) = Some rest).
      { apply IH. cbn [length] in Hl. rewrite app_length in Hl. cbn [length] in Hl. lia. }
      destruct (elements_head es He (93 :: rest)) as (c & t & Ec & Hc). rewrite Ec.
      destruct (vhead_facts c Hc) as (_ & N93 & _).
      destruct c as [|p]; [exact HA|]. repeat (destruct p as [p|p|]; try exact HA). contradiction.
    + rewrite ws_app by exact Hw. cbn [app]. rewrite ws_head by reflexivity. rewrite <- app_assoc. reflexivity.
  - (* empty object *)
    intros w0 Hw0 w rest fuel Hw Hf Hl. destruct fuel as [|f]; [cbn [length] in Hl; lia|].
    rewrite (sk1_obj f _ (w0 ++ 125 :: rest)).
    + rewrite ws_app by exact Hw0. reflexivity.
    + rewrite ws_app by exact Hw. cbn [app]. rewrite ws_head by reflexivity. rewrite <- app_assoc. reflexivity.
  - (* object *)
    intros ms Hm IH w rest fuel Hw Hf Hl. destruct fuel as [|f]; [cbn [length] in Hl; lia|].
    rewrite (sk1_obj f _ (ms ++ 125 :: rest)).
    + destruct (IH rest f) as [(X & EX) HO]; [cbn [length] in Hl; rewrite app_length in Hl; cbn [length] in Hl; lia|].
      rewrite EX in *. exact HO.
    + rewrite ws_app by exact Hw. cbn [app]. rewrite ws_head by reflexivity. rewrite <- app_assoc. reflexivity.
  - (* last element *)
    intros w1 v w2 Hw1 Hv IHv Hw2 rest fuel Hl. destruct fuel as [|f]; [lia|].
    rewrite !app_length in Hl.
    apply (arrl_last f _ (w2 ++ 93 :: rest)).
    + replace ((w1 ++ v ++ w2) ++ 93 :: rest) with (w1 ++ v ++ (w2 ++ 93 :: rest)) by norm.
      apply IHv; [exact Hw1|apply follows_ws_sep; [exact Hw2|right; left; reflexivity]|lia].
    + rewrite ws_app by exact Hw2. reflexivity.
  - (* element, more follow *)
    intros w1 v w2 r Hw1 Hv IHv Hw2 Hr IHr rest fuel Hl. destruct fuel as [|f]; [lia|].
    repeat (rewrite app_length in Hl; cbn [length] in Hl).
    rewrite (arrl_more f _ (w2 ++ 44 :: r ++ 93 :: rest) (r ++ 93 :: rest)).
    + apply IHr. lia.
    + replace ((w1 ++ v ++ w2 ++ 44 :: r) ++ 93 :: rest) with (w1 ++ v ++ (w2 ++ 44 :: r ++ 93 :: rest)) by norm.
      apply IHv; [exact Hw1|apply follows_ws_sep; [exact Hw2|left; reflexivity]|lia].
    + rewrite ws_app by exact Hw2. reflexivity.
  - (* last member *)
    intros w1 k w2 w3 v w4 Hw1 (body & -> & Hb) Hw2 Hw3 Hv IHv Hw4 rest fuel Hl. destruct fuel as [|f]; [lia|].
    repeat (rewrite app_length in Hl; cbn [length] in Hl).
    assert (EX : ws ((w1 ++ (34 :: body ++ [34]) ++ w2 ++ 58 :: w3 ++ v ++ w4) ++ 125 :: rest)
                 = 34 :: body ++ 34 :: w2 ++ 58 :: w3 ++ v ++ w4 ++ 125 :: rest).
    { rewrite <- app_assoc. rewrite ws_app by exact Hw1. cbn [app]. rewrite ws_head by reflexivity. f_equal. norm. }
    rewrite EX. split; [eexists; reflexivity|].
    apply (objl_last f _ (w2 ++ 58 :: w3 ++ v ++ w4 ++ 125 :: rest) (w3 ++ v ++ w4 ++ 125 :: rest) (w4 ++ 125 :: rest)).
    + apply str_complete. exact Hb.
    + rewrite ws_app by exact Hw2. reflexivity.
    + apply IHv; [exact Hw3|apply follows_ws_sep; [exact Hw4|right; right; reflexivity]|lia].
    + rewrite ws_app by exact Hw4. reflexivity.
  - (* member, more follow *)
    intros w1 k w2 w3 v w4 r Hw1 (body & -> & Hb) Hw2 Hw3 Hv IHv Hw4 Hr IHr rest fuel Hl. destruct fuel as [|f]; [lia|].
    repeat (rewrite app_length in Hl; cbn [length] in Hl).
    assert (EX : ws ((w1 ++ (34 :: body ++ [34]) ++ w2 ++ 58 :: w3 ++ v ++ w4 ++ 44 :: r) ++ 125 :: rest)
                 = 34 :: body ++ 34 :: w2 ++ 58 :: w3 ++ v ++ w4 ++ 44 :: r ++ 125 :: rest).
    { rewrite <- app_assoc. rewrite ws_app by exact Hw1. cbn [app]. rewrite ws_head by reflexivity. f_equal. norm. }
    rewrite EX. split; [eexists; reflexivity|].
    destruct (IHr rest f) as [(X & EX2) HO]; [lia|]. rewrite EX2 in HO.
    rewrite (objl_more f _ (w2 ++ 58 :: w3 ++ v ++ w4 ++ 44 :: r ++ 125 :: rest) (w3 ++ v ++ w4 ++ 44 :: r ++ 125 :: rest)
               (w4 ++ 44 :: r ++ 125 :: rest) (r ++ 125 :: rest) X).
    + exact HO.
    + apply str_complete. exact Hb.
    + rewrite ws_app by exact Hw2. reflexivity.
    + apply IHv; [exact Hw3|apply follows_ws_sep; [exact Hw4|left; reflexivity]|lia].
    + rewrite ws_app by exact Hw4. reflexivity.
    + exact EX2.
Qed.

Theorem skip_value_complete : forall v w rest fuel, Value v -> all_ws w -> follows rest -> (length v <= fuel)%nat ->
  skip_value fuel (w ++ v ++ rest) = Some rest.
Proof. intros v w rest fuel Hv Hw Hf Hl. exact (proj1 skip_complete_all v Hv w rest fuel Hw Hf Hl). Qed.

Theorem skip_text_complete : forall w1 v w2, all_ws w1 -> Value v -> all_ws w2 -> skip_text (w1 ++ v ++ w2) = true.
Proof.
  intros w1 v w2 H1 Hv H2. unfold skip_text.
  rewrite (skip_value_complete v w1 w2 _ Hv H1 (follows_all_ws _ H2)); [|rewrite !app_length; lia].
  rewrite ws_all by exact H2. reflexivity.
Qed.

(* the model of the validating entry points accepts exactly: whitespace, one RFC 8259 value, whitespace *)
Theorem skip_text_iff : forall l, skip_text l = true <-> exists w1 v w2, l = w1 ++ v ++ w2 /\ all_ws w1 /\ Value v /\ all_ws w2.
Proof.
  intros l. split; [apply skip_text_sound|]. intros (w1 & v & w2 & -> & H1 & Hv & H2). apply skip_text_complete; assumption.
Qed.
Print Assumptions skip_text_iff.
