(* Model/StrictVal.v -- the grammar of the FULLY-DECODING entry points: RFC 8259 values whose strings
   are strict bodies (Model/StrictStr.v).  The reference parser in strict mode (ref_text true, what
   every full-decoding verdict of the implementation is compared with, together with UTF-8 validity and
   finiteness of numbers) accepts exactly whitespace, one such value, whitespace (C02, first clause). *)
From Coq Require Import List NArith Arith Lia Bool.
From SonicV Require Import Spec.Ref Model.SkipStr Model.SkipNum Model.Skip Model.SkipAll Model.RefSound
  Model.SkipComplete Model.RefComplete Model.StrictStr.
From SonicV Require Model.SerClosed Model.PrettyClosed.
Import ListNotations.
Open Scope N_scope.

Definition is_sstr (s : list N) : Prop := exists body, s = 34 :: body ++ [34] /\ sbody body.
Definition SValue := Skip.value is_sstr is_num.
Notation SElements := (Skip.elements is_sstr is_num).
Notation SMembers := (Skip.members is_sstr is_num).

(* a strict value is in particular an RFC 8259 value *)
Scheme svalue_min := Minimality for Skip.value Sort Prop
  with selements_min := Minimality for Skip.elements Sort Prop
  with smembers_min := Minimality for Skip.members Sort Prop.
Combined Scheme svalue_mutind from svalue_min, selements_min, smembers_min.

Lemma is_sstr_is_str : forall s, is_sstr s -> is_str s.
Proof. intros s (body & E & B). exists body. split; [exact E|apply sbody_is_str_body; exact B]. Qed.

Theorem strict_value_is_value :
  (forall v, SValue v -> Value v) /\ (forall es, SElements es -> Skip.elements is_str is_num es) /\ (forall ms, SMembers ms -> Skip.members is_str is_num ms).
Proof.
  apply (svalue_mutind is_sstr is_num (fun v => Value v) (fun es => Skip.elements is_str is_num es) (fun ms => Skip.members is_str is_num ms));
    intros; try (constructor; auto using is_sstr_is_str; fail).
Qed.

(* ---------- heads ---------- *)
Lemma svalue_head : forall v, SValue v -> exists c t, v = c :: t /\ vhead c = true.
Proof. intros v H. apply value_head. apply (proj1 strict_value_is_value). exact H. Qed.
Lemma selements_head : forall es, SElements es -> forall x, exists c t, Ref.ws (es ++ x) = c :: t /\ vhead c = true.
Proof. intros es H x. change Ref.ws with Skip.ws. apply elements_head. apply (proj1 (proj2 strict_value_is_value)). exact H. Qed.

(* ---------- steps of the strict parser ---------- *)
Import SerClosed PrettyClosed.

Lemma pv_arr0_ws : forall strict f pos r rest, Ref.ws r = 93 :: rest ->
  pvalue strict (S f) pos (91 :: r) = Some (Ref.JArr [], pos, (pos + (length (91%N :: r) - length rest))%nat, rest).
Proof. intros strict f pos r rest W. cbn [pvalue]. rewrite (ws_nows 91) by reflexivity. rewrite W. rewrite ?Nat.sub_diag, ?Nat.add_0_r. reflexivity. Qed.
Lemma pv_obj0_ws : forall strict f pos r rest, Ref.ws r = 125 :: rest ->
  pvalue strict (S f) pos (123 :: r) = Some (Ref.JObj [], pos, (pos + (length (123%N :: r) - length rest))%nat, rest).
Proof. intros strict f pos r rest W. cbn [pvalue]. rewrite (ws_nows 123) by reflexivity. rewrite W. rewrite ?Nat.sub_diag, ?Nat.add_0_r. reflexivity. Qed.

Lemma pm_last_gen : forall f pos w1 body w2 r2 rest' r5, all_ws w1 -> sbody body -> all_ws w2 ->
  (forall P, exists v a b, pvalue true f P r2 = Some (v, a, b, rest')) -> Ref.ws rest' = 125 :: r5 ->
  exists ms, Ref.pmembers true (S f) pos (w1 ++ (34 :: body ++ [34]) ++ w2 ++ 58 :: r2) = Some (ms, r5).
Proof.
  intros f pos w1 body w2 r2 rest' r5 H1 Hb H2 H W5.
  replace (w1 ++ (34 :: body ++ [34]) ++ w2 ++ 58 :: r2) with (w1 ++ 34 :: (body ++ 34 :: (w2 ++ 58 :: r2)))
    by (cbn [app]; repeat (rewrite <- app_assoc; cbn [app]); reflexivity).
  cbn [Ref.pmembers]. rewrite (rws_app w1 _ H1). rewrite (ws_nows 34) by reflexivity. cbv beta iota.
  destruct (strict_decoder_complete body Hb (w2 ++ 58 :: r2) (S (length (body ++ 34 :: w2 ++ 58 :: r2)))) as (d & h & R);
    [rewrite app_length; lia|]. rewrite R.
  rewrite (rws_app w2 _ H2). rewrite (ws_nows 58) by reflexivity. cbv beta iota.
  match goal with |- context [pvalue true f ?P r2] => destruct (H P) as (v & a & b & PV); rewrite PV end.
  rewrite W5. eauto.
Qed.
Lemma pm_more_gen : forall f pos w1 body w2 r2 rest' r5 rest, all_ws w1 -> sbody body -> all_ws w2 ->
  (forall P, exists v a b, pvalue true f P r2 = Some (v, a, b, rest')) -> Ref.ws rest' = 44 :: r5 ->
  (forall P, exists ms, Ref.pmembers true f P r5 = Some (ms, rest)) ->
  exists ms, Ref.pmembers true (S f) pos (w1 ++ (34 :: body ++ [34]) ++ w2 ++ 58 :: r2) = Some (ms, rest).
Proof.
  intros f pos w1 body w2 r2 rest' r5 rest H1 Hb H2 H W5 HM.
  replace (w1 ++ (34 :: body ++ [34]) ++ w2 ++ 58 :: r2) with (w1 ++ 34 :: (body ++ 34 :: (w2 ++ 58 :: r2)))
    by (cbn [app]; repeat (rewrite <- app_assoc; cbn [app]); reflexivity).
  cbn [Ref.pmembers]. rewrite (rws_app w1 _ H1). rewrite (ws_nows 34) by reflexivity. cbv beta iota.
  destruct (strict_decoder_complete body Hb (w2 ++ 58 :: r2) (S (length (body ++ 34 :: w2 ++ 58 :: r2)))) as (d & h & R);
    [rewrite app_length; lia|]. rewrite R.
  rewrite (rws_app w2 _ H2). rewrite (ws_nows 58) by reflexivity. cbv beta iota.
  match goal with |- context [pvalue true f ?P r2] => destruct (H P) as (v & a & b & PV); rewrite PV end.
  rewrite W5.
  match goal with |- context [Ref.pmembers true f ?P r5] => destruct (HM P) as (ms & PM); rewrite PM end. eauto.
Qed.

Ltac norm2 := cbn [app]; repeat (rewrite <- app_assoc; cbn [app]); reflexivity.

(* ---------- completeness: every strict value is accepted by the strict reference parser ---------- *)
Theorem strict_complete_all :
  (forall v, SValue v -> forall w rest fuel pos, all_ws w -> follows rest -> (length v <= fuel)%nat ->
     exists j a b, pvalue true fuel pos (w ++ v ++ rest) = Some (j, a, b, rest)) /\
  (forall es, SElements es -> forall rest fuel pos, (length es < fuel)%nat ->
     exists xs, Ref.pelems true fuel pos (es ++ 93 :: rest) = Some (xs, rest)) /\
  (forall ms, SMembers ms -> forall rest fuel pos, (length ms < fuel)%nat ->
     exists xs, Ref.pmembers true fuel pos (ms ++ 125 :: rest) = Some (xs, rest)).
Proof.
  apply (svalue_mutind is_sstr is_num
    (fun v => forall w rest fuel pos, all_ws w -> follows rest -> (length v <= fuel)%nat ->
       exists j a b, pvalue true fuel pos (w ++ v ++ rest) = Some (j, a, b, rest))
    (fun es => forall rest fuel pos, (length es < fuel)%nat -> exists xs, Ref.pelems true fuel pos (es ++ 93 :: rest) = Some (xs, rest))
    (fun ms => forall rest fuel pos, (length ms < fuel)%nat -> exists xs, Ref.pmembers true fuel pos (ms ++ 125 :: rest) = Some (xs, rest))).
  - (* string *)
    intros s (body & -> & Hb) w rest fuel pos Hw Hf Hl. destruct fuel as [|f]; [cbn [length] in Hl; lia|].
    rewrite pvalue_ws by exact Hw.
    replace ((34 :: body ++ [34]) ++ rest) with (34 :: (body ++ 34 :: rest)) by norm2.
    rewrite pv_str. destruct (strict_decoder_complete body Hb rest (S (length (body ++ 34 :: rest)))) as (d & h & R); [rewrite app_length; lia|].
    rewrite R. eauto.
  - (* number *)
    intros n Hn w rest fuel pos Hw Hf Hl. rewrite pvalue_ws by exact Hw.
    destruct (number_head _ Hn) as (c & t & -> & Hc). destruct fuel as [|f]; [cbn [length] in Hl; lia|].
    change ((c :: t) ++ rest) with (c :: (t ++ rest)). rewrite (pv_num true f _ c (t ++ rest) Hc).
    change (c :: t ++ rest) with ((c :: t) ++ rest). rewrite (num_rt _ _ Hn Hf). eauto.
  - intros w rest fuel pos Hw Hf Hl. destruct fuel as [|f]; [cbn [length] in Hl; lia|]. rewrite pvalue_ws by exact Hw.
    change ([116; 114; 117; 101] ++ rest) with (116 :: [114;117;101] ++ rest). rewrite pv_true. eauto.
  - intros w rest fuel pos Hw Hf Hl. destruct fuel as [|f]; [cbn [length] in Hl; lia|]. rewrite pvalue_ws by exact Hw.
    change ([102; 97; 108; 115; 101] ++ rest) with (102 :: [97;108;115;101] ++ rest). rewrite pv_false. eauto.
  - intros w rest fuel pos Hw Hf Hl. destruct fuel as [|f]; [cbn [length] in Hl; lia|]. rewrite pvalue_ws by exact Hw.
    change ([110; 117; 108; 108] ++ rest) with (110 :: [117;108;108] ++ rest). rewrite pv_null. eauto.
  - (* empty array *)
    intros w0 Hw0 w rest fuel pos Hw Hf Hl. destruct fuel as [|f]; [cbn [length] in Hl; lia|]. rewrite pvalue_ws by exact Hw.
    replace ((91 :: w0 ++ [93]) ++ rest) with (91 :: (w0 ++ 93 :: rest)) by norm2.
    rewrite (pv_arr0_ws true f _ _ rest); [eauto|]. rewrite rws_app by exact Hw0. reflexivity.
  - (* array *)
    intros es He IH w rest fuel pos Hw Hf Hl. destruct fuel as [|f]; [cbn [length] in Hl; lia|]. rewrite pvalue_ws by exact Hw.
    replace ((91 :: es ++ [93]) ++ rest) with (91 :: (es ++ 93 :: rest)) by norm2.
    destruct (selements_head es He (93 :: rest)) as (c & t & Ec & Hc). destruct (vhead_facts c Hc) as (_ & N93 & _ & _).
    rewrite (pv_arr_ws true f _ _ c t Ec N93).
    match goal with |- context [Ref.pelems true f ?P _] => destruct (IH rest f P) as (xs & PE) end.
    { cbn [length] in Hl. rewrite app_length in Hl. cbn [length] in Hl. lia. }
    rewrite PE. eauto.
  - (* empty object *)
    intros w0 Hw0 w rest fuel pos Hw Hf Hl. destruct fuel as [|f]; [cbn [length] in Hl; lia|]. rewrite pvalue_ws by exact Hw.
    replace ((123 :: w0 ++ [125]) ++ rest) with (123 :: (w0 ++ 125 :: rest)) by norm2.
    rewrite (pv_obj0_ws true f _ _ rest); [eauto|]. rewrite rws_app by exact Hw0. reflexivity.
  - (* object *)
    intros ms Hm IH w rest fuel pos Hw Hf Hl. destruct fuel as [|f]; [cbn [length] in Hl; lia|]. rewrite pvalue_ws by exact Hw.
    replace ((123 :: ms ++ [125]) ++ rest) with (123 :: (ms ++ 125 :: rest)) by norm2.
    assert (Hd : exists t, Ref.ws (ms ++ 125 :: rest) = 34 :: t).
    { inversion Hm as [w1 k w2 w3 v w4 H1 (body & -> & _) H2 H3 Hv H4|w1 k w2 w3 v w4 r H1 (body & -> & _) H2 H3 Hv H4 Hr]; subst;
        rewrite <- app_assoc; rewrite rws_app by assumption; cbn [app]; rewrite ws_nows by reflexivity; eauto. }
    destruct Hd as (t & Et).
    rewrite (pv_obj_ws true f _ _ 34 t Et ltac:(discriminate)).
    match goal with |- context [Ref.pmembers true f ?P _] => destruct (IH rest f P) as (xs & PM) end.
    { cbn [length] in Hl. rewrite app_length in Hl. cbn [length] in Hl. lia. }
    rewrite PM. eauto.
  - (* last element *)
    intros w1 v w2 Hw1 Hv IHv Hw2 rest fuel pos Hl. destruct fuel as [|f]; [lia|]. rewrite !app_length in Hl.
    replace ((w1 ++ v ++ w2) ++ 93 :: rest) with (w1 ++ v ++ (w2 ++ 93 :: rest)) by (repeat rewrite <- app_assoc; reflexivity).
    destruct (IHv w1 (w2 ++ 93 :: rest) f pos Hw1 (follows_ws_sep _ _ _ Hw2 ltac:(right; left; reflexivity)) ltac:(lia)) as (j & a & b & PV).
    rewrite (pe_last_ws _ _ _ _ _ _ _ _ rest PV); [eauto|]. rewrite rws_app by exact Hw2. reflexivity.
  - (* element, more follow *)
    intros w1 v w2 r Hw1 Hv IHv Hw2 Hr IHr rest fuel pos Hl. destruct fuel as [|f]; [lia|].
    repeat (rewrite app_length in Hl; cbn [length] in Hl).
    replace ((w1 ++ v ++ w2 ++ 44 :: r) ++ 93 :: rest) with (w1 ++ v ++ (w2 ++ 44 :: (r ++ 93 :: rest))) by (repeat (rewrite <- app_assoc; cbn [app]); reflexivity).
    destruct (IHv w1 (w2 ++ 44 :: (r ++ 93 :: rest)) f pos Hw1 (follows_ws_sep _ _ _ Hw2 ltac:(left; reflexivity)) ltac:(lia)) as (j & a & b & PV).
    rewrite (pe_more_ws _ _ _ _ _ _ _ _ (r ++ 93 :: rest) PV); [|rewrite rws_app by exact Hw2; reflexivity].
    match goal with |- context [Ref.pelems true f ?P _] => destruct (IHr rest f P ltac:(lia)) as (xs & PE) end. rewrite PE. eauto.
  - (* last member *)
    intros w1 k w2 w3 v w4 Hw1 (body & -> & Hb) Hw2 Hw3 Hv IHv Hw4 rest fuel pos Hl. destruct fuel as [|f]; [lia|].
    repeat (rewrite app_length in Hl; cbn [length] in Hl).
    replace ((w1 ++ (34 :: body ++ [34]) ++ w2 ++ 58 :: w3 ++ v ++ w4) ++ 125 :: rest)
      with (w1 ++ (34 :: body ++ [34]) ++ w2 ++ 58 :: (w3 ++ v ++ (w4 ++ 125 :: rest))) by (repeat (rewrite <- app_assoc; cbn [app]); reflexivity).
    apply (pm_last_gen f pos w1 body w2 _ (w4 ++ 125 :: rest) rest Hw1 Hb Hw2).
    + intros P. apply IHv; [exact Hw3|apply follows_ws_sep; [exact Hw4|right; right; reflexivity]|lia].
    + rewrite rws_app by exact Hw4. reflexivity.
  - (* member, more follow *)
    intros w1 k w2 w3 v w4 r Hw1 (body & -> & Hb) Hw2 Hw3 Hv IHv Hw4 Hr IHr rest fuel pos Hl. destruct fuel as [|f]; [lia|].
    repeat (rewrite app_length in Hl; cbn [length] in Hl).
    replace ((w1 ++ (34 :: body ++ [34]) ++ w2 ++ 58 :: w3 ++ v ++ w4 ++ 44 :: r) ++ 125 :: rest)
      with (w1 ++ (34 :: body ++ [34]) ++ w2 ++ 58 :: (w3 ++ v ++ (w4 ++ 44 :: (r ++ 125 :: rest)))) by (repeat (rewrite <- app_assoc; cbn [app]); reflexivity).
    apply (pm_more_gen f pos w1 body w2 _ (w4 ++ 44 :: (r ++ 125 :: rest)) (r ++ 125 :: rest) rest Hw1 Hb Hw2).
    + intros P. apply IHv; [exact Hw3|apply follows_ws_sep; [exact Hw4|left; reflexivity]|lia].
    + rewrite rws_app by exact Hw4. reflexivity.
    + intros P. apply IHr. lia.
Qed.

(* ---------- soundness: what the strict reference parser accepts is a strict value ---------- *)
Lemma sstr_token : forall r d h rest, Ref.str_body true (S (length r)) r = Some (d, h, rest) ->
  exists s, 34 :: r = s ++ rest /\ is_sstr s.
Proof.
  intros r d h rest H. destruct (strict_decoder_sound _ _ _ _ _ H) as (body & E & B).
  exists (34 :: body ++ [34]). split; [rewrite E; cbn [app]; rewrite <- app_assoc; reflexivity|].
  exists body. split; [reflexivity|exact B].
Qed.

Local Ltac not_byte c := exfalso; destruct c as [|p]; [discriminate|]; repeat (destruct p as [p|p|]; try discriminate); contradiction.

Theorem pvalue_strict_sound : forall fuel,
  (forall pos l v a b rest, pvalue true fuel pos l = Some (v, a, b, rest) ->
     exists w tok, l = w ++ tok ++ rest /\ all_ws w /\ SValue tok /\ a = (pos + length w)%nat /\ b = (a + length tok)%nat) /\
  (forall pos l xs rest, Ref.pelems true fuel pos l = Some (xs, rest) -> exists es, l = es ++ 93 :: rest /\ Skip.elements is_sstr is_num es) /\
  (forall pos l ms rest, Ref.pmembers true fuel pos l = Some (ms, rest) -> exists ms', l = ms' ++ 125 :: rest /\ Skip.members is_sstr is_num ms').
Proof.
  induction fuel as [|f (IH1 & IH2 & IH3)]; [repeat split; intros; discriminate|].
  split; [|split].
  - intros pos l v a b rest H. cbn [pvalue] in H. rewrite ws_same in H.
    destruct (ws_split_len l) as (A & B & L). destruct (Skip.ws l) as [|c r] eqn:Ew; [discriminate|].
    exists (take_ws l).
    (* a common closing step: l1 = tok ++ rest *)
    assert (Fin : forall tok, c :: r = tok ++ rest -> SValue tok ->
              forall a' b', a' = (pos + (length l - length (c :: r)))%nat -> b' = (a' + (length (c :: r) - length rest))%nat ->
              exists tok0, l = take_ws l ++ tok0 ++ rest /\ all_ws (take_ws l) /\ SValue tok0 /\ a' = (pos + length (take_ws l))%nat /\ b' = (a' + length tok0)%nat).
    { intros tok E V a' b' Ea Eb. exists tok. rewrite A at 1. rewrite E. repeat split; auto; [rewrite L; exact Ea|].
      rewrite Eb. f_equal. rewrite E. rewrite app_length. lia. }
    destruct (N.eqb_spec c 34) as [->|N1].
    { destruct (Ref.str_body true (S (length r)) r) as [[[d h] rest']|] eqn:S1; [|discriminate]. injection H as <- <- <- <-.
      destruct (sstr_token _ _ _ _ S1) as (s & Es & Hs). apply (Fin s Es); [apply v_str; exact Hs|reflexivity|reflexivity]. }
    destruct (N.eqb_spec c 91) as [->|N2].
    { rewrite ws_same in H. destruct (ws_split r) as [A0 B0]. destruct (Skip.ws r) as [|c2 r2] eqn:Er.
      - destruct (Ref.pelems true f (S (pos + (length l - length (91%N :: r)))) r) as [[xs rest']|] eqn:PE; [|discriminate]. injection H as <- <- <- <-.
        destruct (IH2 _ _ _ _ PE) as (es & E & He). apply (Fin (91 :: es ++ [93])); [rewrite E; cbn [app]; rewrite <- app_assoc; reflexivity|apply v_arr; exact He|reflexivity|reflexivity].
      - destruct (N.eqb_spec c2 93) as [->|N3].
        + injection H as <- <- <- <-. apply (Fin (91 :: take_ws r ++ [93])); [rewrite A0 at 1; cbn [app]; rewrite <- app_assoc; reflexivity|apply v_arr0; exact B0|reflexivity|reflexivity].
        + assert (H' : match Ref.pelems true f (S (pos + (length l - length (91%N :: r)))) r with
                       | Some (xs, rest0) => Some (JArr xs, (pos + (length l - length (91%N :: r)))%nat, (pos + (length l - length (91%N :: r)) + (length (91%N :: r) - length rest0))%nat, rest0)
                       | None => None end = Some (v, a, b, rest)).
          { destruct c2 as [|p]; [exact H|]. repeat (destruct p as [p|p|]; try exact H); contradiction. }
          destruct (Ref.pelems true f (S (pos + (length l - length (91%N :: r)))) r) as [[xs rest']|] eqn:PE; [|discriminate]. injection H' as <- <- <- <-.
          destruct (IH2 _ _ _ _ PE) as (es & E & He). apply (Fin (91 :: es ++ [93])); [rewrite E; cbn [app]; rewrite <- app_assoc; reflexivity|apply v_arr; exact He|reflexivity|reflexivity]. }
    destruct (N.eqb_spec c 123) as [->|N3].
    { rewrite ws_same in H. destruct (ws_split r) as [A0 B0]. destruct (Skip.ws r) as [|c2 r2] eqn:Er.
      - destruct (Ref.pmembers true f (S (pos + (length l - length (123%N :: r)))) r) as [[ms rest']|] eqn:PM; [|discriminate]. injection H as <- <- <- <-.
        destruct (IH3 _ _ _ _ PM) as (ms' & E & Hm). apply (Fin (123 :: ms' ++ [125])); [rewrite E; cbn [app]; rewrite <- app_assoc; reflexivity|apply v_obj; exact Hm|reflexivity|reflexivity].
      - destruct (N.eqb_spec c2 125) as [->|N4].
        + injection H as <- <- <- <-. apply (Fin (123 :: take_ws r ++ [125])); [rewrite A0 at 1; cbn [app]; rewrite <- app_assoc; reflexivity|apply v_obj0; exact B0|reflexivity|reflexivity].
        + assert (H' : match Ref.pmembers true f (S (pos + (length l - length (123%N :: r)))) r with
                       | Some (ms, rest0) => Some (JObj ms, (pos + (length l - length (123%N :: r)))%nat, (pos + (length l - length (123%N :: r)) + (length (123%N :: r) - length rest0))%nat, rest0)
                       | None => None end = Some (v, a, b, rest)).
          { destruct c2 as [|p]; [exact H|]. repeat (destruct p as [p|p|]; try exact H); contradiction. }
          destruct (Ref.pmembers true f (S (pos + (length l - length (123%N :: r)))) r) as [[ms rest']|] eqn:PM; [|discriminate]. injection H' as <- <- <- <-.
          destruct (IH3 _ _ _ _ PM) as (ms' & E & Hm). apply (Fin (123 :: ms' ++ [125])); [rewrite E; cbn [app]; rewrite <- app_assoc; reflexivity|apply v_obj; exact Hm|reflexivity|reflexivity]. }
    destruct (N.eqb_spec c 116) as [->|N4].
    { destruct (lit_match [114; 117; 101] r) as [rest'|] eqn:LM; [|discriminate]. injection H as <- <- <- <-.
      apply lit_match_sound in LM. apply (Fin [116; 114; 117; 101]); [rewrite LM; reflexivity|apply v_true|reflexivity|].
      rewrite LM. cbn [length app]. lia. }
    destruct (N.eqb_spec c 102) as [->|N5].
    { destruct (lit_match [97; 108; 115; 101] r) as [rest'|] eqn:LM; [|discriminate]. injection H as <- <- <- <-.
      apply lit_match_sound in LM. apply (Fin [102; 97; 108; 115; 101]); [rewrite LM; reflexivity|apply v_false|reflexivity|].
      rewrite LM. cbn [length app]. lia. }
    destruct (N.eqb_spec c 110) as [->|N6].
    { destruct (lit_match [117; 108; 108] r) as [rest'|] eqn:LM; [|discriminate]. injection H as <- <- <- <-.
      apply lit_match_sound in LM. apply (Fin [110; 117; 108; 108]); [rewrite LM; reflexivity|apply v_null|reflexivity|].
      rewrite LM. cbn [length app]. lia. }
    destruct ((c =? 45) || Ref.digit c); [|discriminate].
    destruct (Ref.num_rest (c :: r)) as [rest'|] eqn:NR; [|discriminate]. injection H as <- <- <- <-.
    destruct (num_rest_sound _ _ NR) as (n & En & Hn). apply (Fin n En); [apply v_num; exact Hn|reflexivity|reflexivity].
  - intros pos l xs rest H. cbn [Ref.pelems] in H.
    destruct (pvalue true f pos l) as [[[[v a] b] r]|] eqn:PV; [|discriminate].
    destruct (IH1 _ _ _ _ _ _ PV) as (w & tok & E & Hw & Hv & _ & _).
    rewrite ws_same in H. destruct (ws_split r) as [A B]. destruct (Skip.ws r) as [|c r'] eqn:Er; [discriminate|].
    destruct (N.eqb_spec c 93) as [->|N1].
    + injection H as _ <-. exists (w ++ tok ++ take_ws r). split; [rewrite E at 1; rewrite A at 1; now rewrite <- !app_assoc|now constructor].
    + destruct (N.eqb_spec c 44) as [->|N2]; [|not_byte c].
      destruct (Ref.pelems true f (S (b + (length r - length (44%N :: r')))) r') as [[xs' r3]|] eqn:PE; [|discriminate]. injection H as _ <-.
      destruct (IH2 _ _ _ _ PE) as (es & E2 & He). exists (w ++ tok ++ take_ws r ++ 44 :: es).
      split; [rewrite E at 1; rewrite A at 1; rewrite E2; now rewrite <- !app_assoc|now constructor].
  - intros pos l ms rest H. cbn [Ref.pmembers] in H. rewrite ws_same in H.
    destruct (ws_split l) as [A0 B0]. destruct (Skip.ws l) as [|q k] eqn:El; [discriminate|].
    destruct (N.eqb_spec q 34) as [->|Nq]; [|not_byte q].
    destruct (Ref.str_body true (S (length k)) k) as [[[key hk] r]|] eqn:SK; [|discriminate].
    destruct (sstr_token _ _ _ _ SK) as (s & Es & Hstr).
    rewrite ws_same in H. destruct (ws_split r) as [A B]. destruct (Skip.ws r) as [|c r1] eqn:Er; [discriminate|].
    destruct (N.eqb_spec c 58) as [->|Nc]; [|not_byte c].
    match type of H with match pvalue true f ?P r1 with _ => _ end = _ => destruct (pvalue true f P r1) as [[[[v a] b] r2]|] eqn:PV; [|discriminate] end.
    destruct (IH1 _ _ _ _ _ _ PV) as (w3 & tok & E3 & Hw3 & Hval & _ & _).
    rewrite ws_same in H. destruct (ws_split r2) as [A2 B2]. destruct (Skip.ws r2) as [|c2 r3] eqn:Er2; [discriminate|].
    destruct (N.eqb_spec c2 125) as [->|N1].
    + injection H as _ <-. exists (take_ws l ++ s ++ take_ws r ++ 58 :: w3 ++ tok ++ take_ws r2).
      split; [rewrite A0 at 1; rewrite Es; rewrite A at 1; rewrite E3; rewrite A2 at 1; repeat (first [rewrite <- app_assoc | progress (cbn [app])]); reflexivity|apply m_last; auto].
    + destruct (N.eqb_spec c2 44) as [->|N2]; [|not_byte c2].
      match type of H with match Ref.pmembers true f ?P r3 with _ => _ end = _ => destruct (Ref.pmembers true f P r3) as [[ms2 r6]|] eqn:PM; [|discriminate] end.
      injection H as _ <-. destruct (IH3 _ _ _ _ PM) as (ms' & E4 & Hm).
      exists (take_ws l ++ s ++ take_ws r ++ 58 :: w3 ++ tok ++ take_ws r2 ++ 44 :: ms').
      split; [rewrite A0 at 1; rewrite Es; rewrite A at 1; rewrite E3; rewrite A2 at 1; rewrite E4; repeat (first [rewrite <- app_assoc | progress (cbn [app])]); reflexivity|].
      apply m_cons; auto.
Qed.


Theorem strict_text_sound : forall l v a b, ref_text true l = Some (v, a, b) ->
  exists w1 tok w2, l = w1 ++ tok ++ w2 /\ all_ws w1 /\ SValue tok /\ all_ws w2.
Proof.
  intros l v a b H. unfold ref_text in H.
  destruct (pvalue true (fuel_for l) 0 l) as [[[[v' a'] b'] rest]|] eqn:PV; [|discriminate].
  change Ref.ws with Skip.ws in H. destruct (Skip.ws rest) eqn:W; [|discriminate].
  destruct (proj1 (pvalue_strict_sound (fuel_for l)) _ _ _ _ _ _ PV) as (w & tok & E & Hw & Hv & _ & _).
  exists w, tok, rest. repeat split; try assumption. apply ws_nil_all_ws. exact W.
Qed.

Theorem strict_text_complete : forall w1 tok w2, all_ws w1 -> SValue tok -> all_ws w2 ->
  exists v a b, ref_text true (w1 ++ tok ++ w2) = Some (v, a, b).
Proof.
  intros w1 tok w2 H1 Hv H2. unfold ref_text, fuel_for.
  destruct (proj1 strict_complete_all tok Hv w1 w2 (S (S (length (w1 ++ tok ++ w2)))) 0%nat H1 (follows_all_ws _ H2)
              ltac:(rewrite !app_length; lia)) as (j & a & b & PV).
  rewrite PV. change Ref.ws with Skip.ws. rewrite ws_all by exact H2. eauto.
Qed.

(* the strict reference parser accepts exactly: whitespace, one strict value, whitespace *)
Theorem strict_text_iff : forall l, (exists v a b, ref_text true l = Some (v, a, b)) <->
  (exists w1 tok w2, l = w1 ++ tok ++ w2 /\ all_ws w1 /\ SValue tok /\ all_ws w2).
Proof.
  intros l. split.
  - intros (v & a & b & H). exact (strict_text_sound _ _ _ _ H).
  - intros (w1 & tok & w2 & -> & H1 & Hv & H2). apply strict_text_complete; assumption.
Qed.
Print Assumptions strict_text_iff.
