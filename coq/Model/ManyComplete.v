(* Model/ManyComplete.v -- completeness of the get_many model (Model/Many.v: Parser::get_many_rec with its
   "remain" bookkeeping and early exit): on a document without duplicate names, for a tree with distinct
   sibling keys whose every path resolves, and a counter at least the number of slots, the search
   SUCCEEDS, decreases the counter by exactly the number of slots, fills every slot of the tree and
   un-fills none.  With get_many_sound: every slot holds exactly what single-path lookup finds (C11:
   "it succeeds with all slots filled whenever every path resolves individually"). *)
From Coq Require Import List Arith Lia Bool.
From SonicV Require Import Model.Many.
Import ListNotations.

Section Complete.
Variable key : Type.
Variable keq : forall a b : key, {a = b} + {a <> b}.
Notation trie := (Many.trie key).
Notation jv := (Many.jv key).
Notation Node := (Many.Node key).
Notation JObj := (Many.JObj key).
Notation slots := (Many.slots key).
Notation kslots := (Many.kslots key).
Notation rec := (Many.rec key keq).
Notation loop := (Many.loop key keq).
Notation assoc := (Many.assoc key keq).
Notation lookup := (Many.lookup key keq).
Notation outs := (Many.outs key).
Notation upd := (Many.upd key).
Notation dupfree := (Many.dupfree key).

Definition need (t : trie) : nat := length (slots t).
Definition keeps (o o' : outs) : Prop := forall q, o q <> None -> o' q <> None.
Definition filled (S : list (nat * list key)) (o : outs) : Prop := forall q path, In (q, path) S -> o q <> None.
Definition resolves (t : trie) (v : jv) : Prop := forall q path, In (q, path) (slots t) -> lookup v path <> None.

Inductive wf : trie -> Prop :=
| wf_node o ks : NoDup (map fst ks) -> Forall (fun kc => wf (snd kc) /\ 0 < need (snd kc)) ks -> wf (Node o ks).

Section TrieInd.
Variable P : trie -> Prop.
Hypothesis HN : forall o ks, Forall (fun kc => P (snd kc)) ks -> P (Node o ks).
Fixpoint trie_ind' (t : trie) : P t :=
  match t with
  | Many.Node _ o ks => HN o ks ((fix go l : Forall (fun kc => P (snd kc)) l :=
        match l with [] => Forall_nil _ | (k, c) :: r => Forall_cons (k, c) (trie_ind' c) (go r) end) ks)
  end.
End TrieInd.

(* ---------- one step of the search (the mutual fixpoint does not refold by itself) ---------- *)
Lemma rec_unfold : forall f t v out remain, rec (S f) t v out remain =
  if Nat.eqb remain 0 then Some (out, 0) else
  match t with Many.Node _ order kids =>
    match (match kids with
           | [] => Some (out, remain)
           | _ => match v with
                  | Many.JObj _ [] => None
                  | Many.JObj _ ms => loop f kids ms out remain
                  | Many.JS _ _ => None
                  end
           end) with
    | None => None
    | Some (out1, rem1) => Some (fold_left (fun o p => upd o p (Some v)) order out1, rem1 - length order)
    end end.
Proof. reflexivity. Qed.
Lemma loop_unfold : forall f kids ms out remain, loop (S f) kids ms out remain =
  match ms with
  | [] => Some (out, remain)
  | (k, x) :: r =>
      match assoc kids k with
      | Some child => match rec f child x out remain with
                      | None => None
                      | Some (o', r') => if Nat.eqb r' 0 then Some (o', 0) else loop f kids r o' r' end
      | None => loop f kids r out remain
      end
  end.
Proof. reflexivity. Qed.

(* ---------- more fuel never hurts ---------- *)
Lemma mono : forall fuel,
  (forall t v o r x, rec fuel t v o r = Some x -> rec (S fuel) t v o r = Some x) /\
  (forall kids ms o r x, loop fuel kids ms o r = Some x -> loop (S fuel) kids ms o r = Some x).
Proof.
  induction fuel as [|f [IHr IHl]]; [split; intros; discriminate|]. split.
  - intros t v o r x H. rewrite rec_unfold in H. rewrite rec_unfold.
    destruct (Nat.eqb r 0); [exact H|]. destruct t as [order kids].
    destruct kids as [|kc kr]; [exact H|].
    destruct v as [id|ms]; [exact H|]. destruct ms as [|m mr]; [exact H|].
    destruct (loop f (kc :: kr) (m :: mr) o r) as [[o1 r1]|] eqn:E; [|discriminate]. rewrite (IHl _ _ _ _ _ E). exact H.
  - intros kids ms o r x H. rewrite loop_unfold in H. rewrite loop_unfold.
    destruct ms as [|[k y] rest]; [exact H|].
    destruct (assoc kids k) as [child|].
    + destruct (rec f child y o r) as [[o1 r1]|] eqn:E; [|discriminate]. rewrite (IHr _ _ _ _ _ E).
      destruct (Nat.eqb r1 0); [exact H|]. apply IHl. exact H.
    + apply IHl. exact H.
Qed.
Lemma rec_mono : forall f g t v o r x, f <= g -> rec f t v o r = Some x -> rec g t v o r = Some x.
Proof. intros f g t v o r x Hle H. induction Hle as [|g Hle IH]; [exact H|]. apply (proj1 (mono g)). exact IH. Qed.
Lemma loop_mono : forall f g kids ms o r x, f <= g -> loop f kids ms o r = Some x -> loop g kids ms o r = Some x.
Proof. intros f g kids ms o r x Hle H. induction Hle as [|g Hle IH]; [exact H|]. apply (proj2 (mono g)). exact IH. Qed.

(* ---------- bookkeeping ---------- *)
Definition kneed (ks : list (key * trie)) : nat := length (kslots ks).
Lemma need_node : forall o ks, need (Node o ks) = length o + kneed ks.
Proof. intros o ks. unfold need, kneed. cbn [Many.slots]. fold (Many.kslots key ks). rewrite app_length, map_length. reflexivity. Qed.
Lemma kneed_cons : forall k c r, kneed ((k, c) :: r) = need c + kneed r.
Proof. intros k c r. unfold kneed, need. cbn [Many.kslots]. rewrite app_length, map_length. reflexivity. Qed.

(* what the members of a document still owe to the kids of a node *)
Fixpoint owed (kids : list (key * trie)) (ms : list (key * jv)) : nat :=
  match ms with
  | [] => 0
  | (k, _) :: r => (match assoc kids k with Some c => need c | None => 0 end) + owed kids r
  end.

Lemma owed_skip : forall kids k0 c0 ms, ~ In k0 (map fst ms) -> owed ((k0, c0) :: kids) ms = owed kids ms.
Proof.
  intros kids k0 c0 ms. induction ms as [|[k x] r IH]; intros NI; [reflexivity|]. cbn [owed Many.assoc].
  destruct (keq k0 k) as [-> | NE]; [exfalso; apply NI; left; reflexivity|]. rewrite IH; [reflexivity|]. intros Hin. apply NI. right. exact Hin.
Qed.

Lemma owed_kid : forall kids k0 c0 ms, NoDup (map fst ms) -> In k0 (map fst ms) -> assoc kids k0 = None ->
  owed ((k0, c0) :: kids) ms = need c0 + owed kids ms.
Proof.
  intros kids k0 c0 ms. induction ms as [|[k x] r IH]; intros ND Hin A; [destruct Hin|].
  inversion ND as [|? ? Hk Hr]; subst. cbn [owed Many.assoc].
  destruct (keq k0 k) as [-> | NE].
  - rewrite A. rewrite owed_skip by exact Hk. lia.
  - destruct Hin as [E | Hin]; [cbn [fst] in E; congruence|]. rewrite (IH Hr Hin A). lia.
Qed.

Lemma owed_all : forall kids ms, NoDup (map fst kids) -> NoDup (map fst ms) ->
  (forall k c, In (k, c) kids -> 0 < need c -> In k (map fst ms)) -> owed kids ms = kneed kids.
Proof.
  induction kids as [|[k0 c0] r IH]; intros ms NDk NDm Hall.
  - unfold kneed. cbn [Many.kslots length]. induction ms as [|[k x] ms' IHm]; [reflexivity|]. cbn [owed Many.assoc].
    inversion NDm; subst. rewrite IHm; [reflexivity|assumption|intros k' c []].
  - inversion NDk as [|? ? Hk Hr]; subst. rewrite kneed_cons.
    assert (A : assoc r k0 = None).
    { destruct (assoc r k0) as [c|] eqn:E; [|reflexivity]. exfalso. apply Hk. apply in_map_iff. exists (k0, c). split; [reflexivity|]. exact (Many.assoc_in key keq _ _ _ _ E). }
    assert (IHr : owed r ms = kneed r) by (apply IH; [exact Hr|exact NDm|intros k c Hin; apply Hall; right; exact Hin]).
    destruct (Nat.eq_dec (need c0) 0) as [Z | NZ].
    + (* a kid that owes nothing *)
      destruct (in_dec keq k0 (map fst ms)) as [I | NI].
      * rewrite (owed_kid _ _ _ _ NDm I A). lia.
      * rewrite (owed_skip _ _ _ _ NI). lia.
    + rewrite (owed_kid _ _ _ _ NDm (Hall k0 c0 (or_introl eq_refl) ltac:(lia)) A). lia.
Qed.

Lemma keeps_refl : forall o, keeps o o. Proof. intros o q H. exact H. Qed.
Lemma keeps_trans : forall a b c, keeps a b -> keeps b c -> keeps a c. Proof. intros a b c H1 H2 q H. apply H2, H1, H. Qed.

Lemma fold_keeps_fills : forall order (o : outs) v,
  keeps o (fold_left (fun o p => upd o p (Some v)) order o) /\
  (forall q, In q order -> fold_left (fun o p => upd o p (Some v)) order o q <> None).
Proof.
  intros order o v. split.
  - intros q H. rewrite (Many.fold_upd key). destruct (existsb (Nat.eqb q) order); [discriminate|exact H].
  - intros q Hin. rewrite (Many.fold_upd key).
    assert (E : existsb (Nat.eqb q) order = true) by (apply existsb_exists; exists q; split; [exact Hin|apply Nat.eqb_refl]).
    rewrite E. discriminate.
Qed.

(* the loop over the members of an object, given completeness of the search below every kid *)
Lemma loop_complete : forall kids,
  Forall (fun kc => forall v out remain, dupfree v -> resolves (snd kc) v -> need (snd kc) <= remain ->
            exists fuel out', rec fuel (snd kc) v out remain = Some (out', remain - need (snd kc)) /\ keeps out out' /\ filled (slots (snd kc)) out') kids ->
  forall ms out remain, NoDup (map fst ms) ->
  (forall k x c, In (k, x) ms -> assoc kids k = Some c -> dupfree x /\ resolves c x) ->
  owed kids ms <= remain ->
  exists fuel out', loop fuel kids ms out remain = Some (out', remain - owed kids ms) /\ keeps out out' /\
    (forall k x c, In (k, x) ms -> assoc kids k = Some c -> filled (slots c) out').
Proof.
  intros kids IHk. induction ms as [|[k x] r IH]; intros out remain ND Hres Hle.
  - exists 1, out. cbn [owed]. rewrite Nat.sub_0_r. split; [reflexivity|]. split; [apply keeps_refl|intros k x c []].
  - inversion ND as [|? ? Hk Hr]; subst. cbn [owed] in Hle |- *.
    destruct (assoc kids k) as [c|] eqn:A.
    + (* a wanted key *)
      assert (Hin : In (k, c) kids) by exact (Many.assoc_in key keq _ _ _ _ A).
      pose proof (proj1 (Forall_forall _ _) IHk (k, c) Hin) as IHc. cbn [snd] in IHc.
      destruct (Hres k x c (or_introl eq_refl) A) as [Dx Rx].
      destruct (IHc x out remain Dx Rx ltac:(lia)) as (f1 & o1 & R1 & K1 & F1).
      destruct (Nat.eq_dec (remain - need c) 0) as [Z | NZ].
      * (* everything found: stop early; the members behind owe nothing *)
        exists (S f1), o1. rewrite loop_unfold, A, R1. rewrite Z. cbn [Nat.eqb].
        assert (O0 : owed kids r = 0) by lia.
        split; [f_equal; f_equal; lia|]. split; [exact K1|].
        intros k' x' c' [E | Hin'] A'.
        -- injection E as <- <-. rewrite A in A'. injection A' as <-. exact F1.
        -- (* a later member: its kid has no slots at all *)
           assert (N0 : need c' = 0).
           { clear -Hin' A' O0. induction r as [|[k2 x2] r2 IHr]; [destruct Hin'|]. cbn [owed] in O0.
             destruct Hin' as [E | Hin']; [injection E as -> ->; rewrite A' in O0; lia|]. apply IHr; [lia|exact Hin']. }
           intros q path Hq. unfold need in N0. destruct (slots c'); [destruct Hq|discriminate].
      * destruct (IH o1 (remain - need c) Hr (fun k' x' c' Hin' A' => Hres k' x' c' (or_intror Hin') A') ltac:(lia)) as (f2 & o2 & L2 & K2 & F2).
        exists (S (Nat.max f1 f2)), o2. rewrite loop_unfold, A.
        rewrite (rec_mono f1 (Nat.max f1 f2) _ _ _ _ _ (Nat.le_max_l _ _) R1).
        destruct (Nat.eqb_spec (remain - need c) 0) as [E | _]; [contradiction|].
        rewrite (loop_mono f2 (Nat.max f1 f2) _ _ _ _ _ (Nat.le_max_r _ _) L2).
        split; [f_equal; f_equal; lia|]. split; [exact (keeps_trans _ _ _ K1 K2)|].
        intros k' x' c' [E | Hin'] A'.
        -- injection E as <- <-. rewrite A in A'. injection A' as <-. intros q path Hq. apply K2. exact (F1 q path Hq).
        -- exact (F2 k' x' c' Hin' A').
    + (* an unwanted member is skipped *)
      destruct (IH out remain Hr (fun k' x' c' Hin' A' => Hres k' x' c' (or_intror Hin') A') ltac:(lia)) as (f2 & o2 & L2 & K2 & F2).
      exists (S f2), o2. rewrite loop_unfold, A. split; [rewrite L2; f_equal|].
      split; [exact K2|]. intros k' x' c' [E | Hin'] A'; [injection E as <- <-; congruence|exact (F2 k' x' c' Hin' A')].
Qed.

Theorem rec_complete : forall t, wf t -> forall v out remain, dupfree v -> resolves t v -> need t <= remain ->
  exists fuel out', rec fuel t v out remain = Some (out', remain - need t) /\ keeps out out' /\ filled (slots t) out'.
Proof.
  induction t as [o ks IHk] using trie_ind'. intros W v out remain Dv Rv Hle.
  inversion W as [o' ks' NDk FAk]; subst. rewrite need_node in Hle |- *.
  destruct (Nat.eq_dec remain 0) as [-> | NZ].
  { (* nothing is wanted below this point *)
    exists 1, out. rewrite rec_unfold. cbn [Nat.eqb]. assert (length o = 0 /\ kneed ks = 0) as [Z1 Z2] by lia.
    split; [reflexivity|]. split; [apply keeps_refl|]. intros q path Hq. exfalso.
    assert (E : slots (Node o ks) = []). { apply length_zero_iff_nil. change (need (Node o ks) = 0). rewrite need_node. lia. }
    rewrite E in Hq. destruct Hq. }
  destruct ks as [|[k0 c0] kr].
  - (* a leaf of the tree: only this node's own slots *)
    exists 1, (fold_left (fun o1 p => upd o1 p (Some v)) o out). rewrite rec_unfold. destruct (Nat.eqb_spec remain 0) as [E | _]; [contradiction|].
    destruct (fold_keeps_fills o out v) as [K F]. change (kneed []) with 0. rewrite Nat.add_0_r.
    split; [reflexivity|]. split; [exact K|]. intros q path Hq. cbn [Many.slots] in Hq. rewrite app_nil_r in Hq.
    apply in_map_iff in Hq. destruct Hq as (p & E & Hp). injection E as -> _. exact (F q Hp).
  - (* kids: the document value must be a non-empty object, because the first kid has a slot that resolves *)
    inversion FAk as [|? ? [W0 P0] FAr]; subst. cbn [snd] in W0, P0.
    assert (Hs : exists q p, In (q, p) (slots c0)).
    { unfold need in P0. destruct (slots c0) as [|[q p] rest]; [cbn in P0; lia|]. exists q, p. left. reflexivity. }
    destruct Hs as (q0 & p0 & Hq0).
    assert (R0 : lookup v (k0 :: p0) <> None).
    { apply (Rv q0). cbn [Many.slots]. apply in_or_app. right. apply in_or_app. left. apply in_map_iff. exists (q0, p0). split; [reflexivity|exact Hq0]. }
    cbn [Many.lookup] in R0. destruct v as [id|ms]; [congruence|].
    destruct (assoc ms k0) as [x0|] eqn:A0; [|congruence].
    inversion Dv as [|ms' NDm Dch]; subst.
    (* completeness below every kid, as the loop lemma wants it *)
    assert (IHk' : Forall (fun kc => forall v out remain, dupfree v -> resolves (snd kc) v -> need (snd kc) <= remain ->
              exists fuel out', rec fuel (snd kc) v out remain = Some (out', remain - need (snd kc)) /\ keeps out out' /\ filled (slots (snd kc)) out') ((k0, c0) :: kr)).
    { apply Forall_forall. intros [k c] Hin.
      pose proof (proj1 (Forall_forall _ _) IHk (k, c) Hin) as IHc. pose proof (proj1 (Forall_forall _ _) FAk (k, c) Hin) as [Wc _].
      cbn [snd] in *. intros v' out' remain' D R L. exact (IHc Wc v' out' remain' D R L). }
    (* what each member owes resolves below it *)
    assert (Hres : forall k x c, In (k, x) ms -> assoc ((k0, c0) :: kr) k = Some c -> dupfree x /\ resolves c x).
    { intros k x c Hin A. split; [exact (Dch k x Hin)|]. intros q p Hq.
      assert (Hs : In (q, k :: p) (slots (Node o ((k0, c0) :: kr)))).
      { cbn [Many.slots]. apply in_or_app. right. exact (Many.kslots_in key _ k c (q, p) (Many.assoc_in key keq _ _ _ _ A) Hq). }
      pose proof (Rv q (k :: p) Hs) as R. cbn [Many.lookup] in R. rewrite (Many.assoc_nodup key keq _ ms k x NDm Hin) in R. exact R. }
    (* the members owe exactly the slots below the kids *)
    assert (Ow : owed ((k0, c0) :: kr) ms = kneed ((k0, c0) :: kr)).
    { apply owed_all; [exact NDk|exact NDm|]. intros k c Hin Pc.
      unfold need in Pc. destruct (slots c) as [|[q p] rest] eqn:Es; [cbn in Pc; lia|].
      assert (Hs : In (q, k :: p) (slots (Node o ((k0, c0) :: kr)))).
      { cbn [Many.slots]. apply in_or_app. right. apply (Many.kslots_in key _ k c (q, p) Hin). rewrite Es. left. reflexivity. }
      pose proof (Rv q (k :: p) Hs) as R. cbn [Many.lookup] in R. destruct (assoc ms k) as [x|] eqn:A; [|congruence].
      apply in_map_iff. exists (k, x). split; [reflexivity|exact (Many.assoc_in key keq _ _ _ _ A)]. }
    destruct (loop_complete _ IHk' ms out remain NDm Hres ltac:(lia)) as (f1 & o1 & L1 & K1 & F1).
    destruct (fold_keeps_fills o o1 (JObj ms)) as [K2 F2].
    exists (S f1), (fold_left (fun o2 p => upd o2 p (Some (JObj ms))) o o1).
    rewrite rec_unfold. destruct (Nat.eqb_spec remain 0) as [E | _]; [contradiction|].
    destruct ms as [|m mr]; [discriminate|]. rewrite L1. rewrite Ow.
    split; [f_equal; f_equal; lia|]. split; [exact (keeps_trans _ _ _ K1 K2)|].
    intros q path Hq. cbn [Many.slots] in Hq. apply in_app_or in Hq. destruct Hq as [Hq | Hq].
    + apply in_map_iff in Hq. destruct Hq as (p & E & Hp). injection E as -> _. exact (F2 q Hp).
    + (* a slot below a kid: the member with that key was visited *)
      fold (Many.kslots key ((k0, c0) :: kr)) in Hq.
      assert (G : exists k c p, path = k :: p /\ In (k, c) ((k0, c0) :: kr) /\ In (q, p) (slots c)).
      { clear -Hq. induction ((k0, c0) :: kr) as [|[k c] r IHr]; [destruct Hq|]. cbn [Many.kslots] in Hq. apply in_app_or in Hq. destruct Hq as [Hq | Hq].
        - apply in_map_iff in Hq. destruct Hq as ([q' p] & E & Hp). injection E as <- <-. exists k, c, p. split; [reflexivity|]. split; [left; reflexivity|exact Hp].
        - destruct (IHr Hq) as (k' & c' & p & E & Hin & Hp). exists k', c', p. split; [exact E|]. split; [right; exact Hin|exact Hp]. }
      destruct G as (k & c & p & -> & Hin & Hp).
      pose proof (Rv q (k :: p) ltac:(cbn [Many.slots]; apply in_or_app; right; exact Hq)) as R. cbn [Many.lookup] in R.
      destruct (assoc (m :: mr) k) as [x|] eqn:A; [|congruence].
      apply K2. apply (F1 k x c (Many.assoc_in key keq _ _ _ _ A) (Many.assoc_nodup key keq _ _ k c NDk Hin) q p Hp).
Qed.
End Complete.
Print Assumptions rec_complete.
