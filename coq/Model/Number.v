From Coq Require Import List ZArith Lia Bool.
Import ListNotations.
Open Scope Z_scope.

Definition W := 2 ^ 64.
Definition is_dig (d : Z) : Prop := 0 <= d <= 9.
Definition dvalue (ds : list Z) : Z := fold_left (fun a d => a * 10 + d) ds 0.      (* exact decimal value *)

(* ---------- Model: sonic-number parse_number, the plain-integer branch (first digit is not 0) ---------- *)
Inductive num := Unsigned (v : Z) | Signed (v : Z) | FloatOfInt (v : Z) (* -(v as f64) or v as f64: correctly rounded by the cast *)
               | FloatPath (sig exp10 : Z) (trunc : bool).                          (* handed to parse_float *)

Definition wrap_acc (ds : list Z) : Z := fold_left (fun a d => (a * 10 mod W + d) mod W) ds 0.   (* wrapping_mul(10).wrapping_add(d) *)

Definition parse_int (negative : bool) (ds : list Z) : num :=
  let cnt := Z.of_nat (length ds) in
  let '(sig, exp, trunc) :=
    if cnt <=? 19 then (wrap_acc ds, 0, false)
    else (dvalue (firstn 19 ds), cnt - 19, true) in                                  (* restart: 19 digits, exponent += 1 per extra digit *)
  if exp =? 0 then
    if negative then (if 2 ^ 63 <? sig then FloatOfInt sig else Signed ((0 - sig + W) mod W - (if sig =? 0 then 0 else W)))   (* 0i64.wrapping_sub(sig as i64) *)
    else Unsigned sig
  else if exp =? 1 then
    let last := nth 19 ds 0 in
    let m := sig * 10 in let ov0 := W <=? m in
    let out := m mod W + last in let ov1 := W <=? out in
    if negb ov0 && negb ov1 then (if negative then FloatOfInt (out mod W) else Unsigned (out mod W))
    else FloatPath sig exp true
  else FloatPath sig exp true.

(* ---------- facts about decimal values ---------- *)
Lemma fold_acc : forall ds a, fold_left (fun a d => a * 10 + d) ds a = a * 10 ^ Z.of_nat (length ds) + dvalue ds.
Proof.
  unfold dvalue. induction ds as [|d r IH]; intros a; cbn [fold_left length]; [cbn; lia|].
  rewrite IH. rewrite (IH (0 * 10 + d)). rewrite Nat2Z.inj_succ, Z.pow_succ_r by lia. ring.
Qed.
Lemma dvalue_app : forall a b, dvalue (a ++ b) = dvalue a * 10 ^ Z.of_nat (length b) + dvalue b.
Proof. intros. unfold dvalue at 1. rewrite fold_left_app. apply fold_acc. Qed.
Lemma dvalue_bounds : forall ds, Forall is_dig ds -> 0 <= dvalue ds < 10 ^ Z.of_nat (length ds).
Proof.
  induction ds as [|d r IH] using rev_ind; intros H; [cbn; lia|].
  apply Forall_app in H. destruct H as [Hr Hd]. inversion Hd as [|? ? Hd' _]; subst. unfold is_dig in Hd'.
  rewrite dvalue_app, app_length. cbn [length]. specialize (IH Hr).
  replace (Z.of_nat (length r + 1)) with (Z.succ (Z.of_nat (length r))) by lia. rewrite Z.pow_succ_r by lia.
  change (dvalue [d]) with (0 * 10 + d). cbn [Z.of_nat Z.pow Z.pow_pos Pos.iter]. lia.
Qed.
Lemma dvalue_lower : forall d ds, Forall is_dig ds -> 1 <= d -> 10 ^ Z.of_nat (length ds) <= dvalue (d :: ds).
Proof.
  intros d ds H Hd. change (d :: ds) with ([d] ++ ds). rewrite dvalue_app. change (dvalue [d]) with (0 * 10 + d).
  pose proof (dvalue_bounds ds H). assert (0 < 10 ^ Z.of_nat (length ds)) by (apply Z.pow_pos_nonneg; lia). nia.
Qed.

Lemma wrap_acc_exact : forall ds, Forall is_dig ds -> (length ds <= 19)%nat -> wrap_acc ds = dvalue ds.
Proof.
  intros ds H Hl. unfold wrap_acc, dvalue.
  induction ds as [|d r IH] using rev_ind; [reflexivity|].
  rewrite !fold_left_app. cbn [fold_left]. apply Forall_app in H. destruct H as [Hr Hd]. inversion Hd as [|? ? Hd' _]; subst. unfold is_dig in Hd'.
  rewrite app_length in Hl. cbn [length] in Hl. rewrite IH by (auto; lia).
  pose proof (dvalue_bounds r Hr) as B. fold (dvalue r).
  assert (10 ^ Z.of_nat (length r) <= 10 ^ 18) by (apply Z.pow_le_mono_r; lia).
  assert (10 ^ 19 < W) by (unfold W; vm_compute; reflexivity).
  assert (dvalue r * 10 + d < W) by lia.
  rewrite (Z.mod_small (dvalue r * 10)) by lia. rewrite Z.mod_small by lia. reflexivity.
Qed.

(* ---------- the classification theorem (C07, integers) ---------- *)
Definition spec_int (negative : bool) (v : Z) : num :=
  if negative then (if v <=? 2 ^ 63 then Signed (- v) else FloatOfInt v)      (* v > 0 here; -0 is handled before this branch *)
  else (if v <? W then Unsigned v else FloatOfInt v).                            (* FloatOfInt / FloatPath both mean: nearest f64 *)

Theorem int_exact_19 : forall negative d ds, Forall is_dig (d :: ds) -> 1 <= d -> (length (d :: ds) <= 19)%nat ->
  parse_int negative (d :: ds) = spec_int negative (dvalue (d :: ds)).
Proof.
  intros negative d ds H Hd Hl. unfold parse_int. set (l := d :: ds) in *.
  destruct (Z.leb_spec (Z.of_nat (length l)) 19); [|lia]. cbn [Z.eqb].
  rewrite wrap_acc_exact by auto. pose proof (dvalue_bounds l H) as B.
  assert (10 ^ Z.of_nat (length l) <= 10 ^ 19) by (apply Z.pow_le_mono_r; lia).
  assert (10 ^ 19 < W) by (unfold W; vm_compute; reflexivity).
  assert (1 <= dvalue l). { assert (Hds : Forall is_dig ds) by (inversion H; assumption). pose proof (dvalue_lower d ds Hds Hd). assert (0 < 10 ^ Z.of_nat (length ds)) by (apply Z.pow_pos_nonneg; lia). unfold l. lia. }
  unfold spec_int. destruct negative.
  - destruct (Z.ltb_spec (2 ^ 63) (dvalue l)); destruct (Z.leb_spec (dvalue l) (2 ^ 63)); try lia; [reflexivity|].
    f_equal. destruct (Z.eqb_spec (dvalue l) 0); [lia|]. rewrite Z.mod_small by (unfold W in *; lia). lia.
  - destruct (Z.ltb_spec (dvalue l) W); [reflexivity|lia].
Qed.

Theorem int_exact_20 : forall d ds, Forall is_dig (d :: ds) -> 1 <= d -> length (d :: ds) = 20%nat ->
  parse_int false (d :: ds) = (if dvalue (d :: ds) <? W then Unsigned (dvalue (d :: ds)) else FloatPath (dvalue (firstn 19 (d :: ds))) 1 true).
Proof.
  intros d ds H Hd Hl. unfold parse_int. set (l := d :: ds) in *. rewrite Hl. cbn [Z.of_nat Pos.of_succ_nat Pos.succ Z.leb Z.compare Pos.compare Pos.compare_cont Z.sub Z.add Z.opp Z.pos_sub Z.eqb Pos.eqb Z.succ_double Z.pred_double Pos.pred_double Z.double].
  assert (Hsplit : l = firstn 19 l ++ [nth 19 l 0]).
  { rewrite <- (firstn_skipn 19 l) at 1. f_equal. assert (length (skipn 19 l) = 1%nat) by (rewrite skipn_length; lia).
    destruct (skipn 19 l) as [|x [|? ?]] eqn:E; try discriminate. f_equal.
    rewrite <- (firstn_skipn 19 l) at 1. rewrite app_nth2 by (rewrite firstn_length; lia). rewrite firstn_length, E. replace (19 - Nat.min 19 (length l))%nat with 0%nat by lia. reflexivity. }
  assert (H19 : Forall is_dig (firstn 19 l)) by (rewrite <- (firstn_skipn 19 l) in H; apply Forall_app in H; tauto).
  assert (Hlast : is_dig (nth 19 l 0)) by (eapply Forall_forall; [exact H|apply nth_In; lia]).
  pose proof (dvalue_bounds _ H19) as B. rewrite firstn_length in B. replace (Nat.min 19 (length l)) with 19%nat in B by lia.
  assert (Hv : dvalue l = dvalue (firstn 19 l) * 10 + nth 19 l 0).
  { rewrite Hsplit at 1. rewrite dvalue_app. cbn [length Z.of_nat Pos.of_succ_nat]. change (dvalue [nth 19 l 0]) with (0 * 10 + nth 19 l 0). lia. }
  set (s := dvalue (firstn 19 l)) in *. set (q := nth 19 l 0) in *. unfold is_dig in Hlast.
  rewrite Hv.
  destruct (Z.leb_spec W (s * 10)) as [O0|N0]; cbn [negb andb].
  - destruct (Z.ltb_spec (s * 10 + q) W); [lia|reflexivity].
  - rewrite (Z.mod_small (s * 10)) by lia.
    destruct (Z.leb_spec W (s * 10 + q)) as [O1|N1]; cbn [negb andb].
    + destruct (Z.ltb_spec (s * 10 + q) W); [lia|reflexivity].
    + destruct (Z.ltb_spec (s * 10 + q) W); [|lia]. rewrite Z.mod_small by lia. reflexivity.
Qed.

(* more than 20 digits with a non-zero leading digit never fit: the float path is the right answer *)
Theorem int_over_20 : forall d ds, Forall is_dig ds -> 1 <= d -> (20 < length (d :: ds))%nat -> W <= dvalue (d :: ds).
Proof.
  intros d ds H Hd Hl. pose proof (dvalue_lower d ds H Hd). cbn [length] in Hl.
  assert (10 ^ 20 <= 10 ^ Z.of_nat (length ds)) by (apply Z.pow_le_mono_r; lia).
  assert (W < 10 ^ 20) by (unfold W; vm_compute; reflexivity). lia.
Qed.
Print Assumptions int_exact_19. Print Assumptions int_exact_20.
Example i64_min : parse_int true [9;2;2;3;3;7;2;0;3;6;8;5;4;7;7;5;8;0;8] = Signed (- 2 ^ 63). Proof. vm_compute. reflexivity. Qed.
Example u64_max : parse_int false [1;8;4;4;6;7;4;4;0;7;3;7;0;9;5;5;1;6;1;5] = Unsigned (2 ^ 64 - 1). Proof. vm_compute. reflexivity. Qed.
Example u64_max1 : parse_int false [1;8;4;4;6;7;4;4;0;7;3;7;0;9;5;5;1;6;1;6] = FloatPath 1844674407370955161 1 true. Proof. vm_compute. reflexivity. Qed.
