(* Model/TablesDefs.v -- readers of the regenerated tables and the specifications they are compared
   with (definitions only: extracted, and used by other models; the proofs are in TablesOk.v). *)
From Coq Require Import List NArith Arith Bool.
From SonicV Require Import Gen.Tables Spec.Ref.
Import ListNotations.
Open Scope N_scope.

Definition bytes256 : list N := map N.of_nat (seq 0 256).
Definition tab (t : list N) (i : N) : N := nth (N.to_nat i) t 0.
Definition hex_to_u32 (a b c d : N) : N :=
  N.lor (N.lor (N.lor (tab DIGIT_TO_VAL32 (630 + a)) (tab DIGIT_TO_VAL32 (420 + b))) (tab DIGIT_TO_VAL32 (210 + c))) (tab DIGIT_TO_VAL32 (0 + d)).
Definition need_spec (c : N) : bool := (c <? 32) || (c =? 34) || (c =? 92).
Definition hexdigit (v : N) : N := if v <? 10 then 48 + v else 87 + v.   (* lower case *)
Definition quote_spec (c : N) : list N :=
  if c =? 34 then [92; 34] else if c =? 92 then [92; 92]
  else if c =? 8 then [92; 98] else if c =? 9 then [92; 116] else if c =? 10 then [92; 110]
  else if c =? 12 then [92; 102] else if c =? 13 then [92; 114]
  else [92; 117; 48; 48; hexdigit (c / 16); hexdigit (c mod 16)].
Definition quote_entry (c : N) : list N :=
  let e := nth (N.to_nat c) QUOTE_TAB (0, []) in firstn (N.to_nat (fst e)) (snd e).
