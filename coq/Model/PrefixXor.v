From Coq Require Import List Bool Arith Lia.
Import ListNotations.

(* words as bit lists, LSB first *)
Fixpoint prefix_xor_spec (acc : bool) (x : list bool) : list bool :=      (* bit i = x_0 xor ... xor x_i (xor acc) *)
  match x with [] => [] | b :: t => xorb acc b :: prefix_xor_spec (xorb acc b) t end.

(* x << k, truncated to the width of x *)
Definition shl (k : nat) (x : list bool) : list bool := firstn (length x) (repeat false k ++ x).
Fixpoint xor_l (a b : list bool) : list bool := match a, b with x :: a', y :: b' => xorb x y :: xor_l a' b' | _, _ => [] end.
Definition stepk (k : nat) (x : list bool) : list bool := xor_l x (shl k x).        (* x ^= x << k *)

(* fallback.rs prefix_xor for a 64-bit word: shifts 1,2,4,8,16,32 *)
Definition prefix_xor_fallback (x : list bool) : list bool :=
  stepk 32 (stepk 16 (stepk 8 (stepk 4 (stepk 2 (stepk 1 x))))).

(* bit i of a word (false beyond the end), and the xor of the window x_{i-w+1..i} *)
Definition bit (x : list bool) (i : nat) : bool := nth i x false.
Fixpoint window (x : list bool) (i w : nat) {struct w} : bool :=     (* xor of w bits ending at i, going down; stops at bit 0 *)
  match w with O => false | S w' => xorb (bit x i) (match i with O => false | S i' => window x i' w' end) end.

Lemma xor_l_length : forall a b, length a = length b -> length (xor_l a b) = length a.
Proof. induction a as [|x a IH]; intros [|y b] H; cbn in *; try lia. f_equal. apply IH. lia. Qed.
Lemma shl_length : forall k x, length (shl k x) = length x.
Proof. intros. unfold shl. rewrite firstn_length, app_length, repeat_length. lia. Qed.
Lemma stepk_length : forall k x, length (stepk k x) = length x.
Proof. intros. unfold stepk. apply xor_l_length. now rewrite shl_length. Qed.

Lemma nth_firstn' : forall (l : list bool) n i d, nth i (firstn n l) d = if i <? n then nth i l d else d.
Proof.
  induction l as [|x l IH]; intros n i d.
  - assert (E : forall j, nth j (@nil bool) d = d) by (intros [|j]; reflexivity). destruct n; cbn [firstn]; rewrite !E; destruct (_ <? _); reflexivity.
  - destruct n as [|n]; [destruct i; reflexivity|]. destruct i as [|i]; [reflexivity|].
    cbn [firstn nth]. rewrite IH. reflexivity.
Qed.
Lemma bit_xor_l : forall a b i, length a = length b -> bit (xor_l a b) i = xorb (bit a i) (bit b i).
Proof. induction a as [|x a IH]; intros [|y b] [|i] H; cbn in *; try lia; try reflexivity. apply IH. lia. Qed.
Lemma bit_shl : forall k x i, i < length x -> bit (shl k x) i = if i <? k then false else bit x (i - k).
Proof.
  intros k x i Hi. unfold bit, shl. rewrite nth_firstn'. destruct (Nat.ltb_spec i (length x)); [|lia].
  destruct (Nat.ltb_spec i k).
  - rewrite app_nth1 by (rewrite repeat_length; lia). apply nth_repeat.
  - rewrite app_nth2 by (rewrite repeat_length; lia). now rewrite repeat_length.
Qed.
Lemma bit_beyond : forall x i, length x <= i -> bit x i = false.
Proof. intros. unfold bit. now apply nth_overflow. Qed.

(* windows compose: a window of 2w is two adjacent windows of w *)
Lemma window_add : forall x w1 w2 i, window x i (w1 + w2) = xorb (window x i w1) (if i <? w1 then false else window x (i - w1) w2).
Proof.
  intros x w1. induction w1 as [|w1 IH]; intros w2 i; cbn [window Nat.add].
  - rewrite Nat.sub_0_r. destruct (Nat.ltb_spec i 0); [lia|]. cbn [window]. now destruct (window x i w2).
  - destruct i as [|i]; cbn [Nat.ltb Nat.leb].
    + now rewrite !xorb_false_r.
    + rewrite IH. rewrite <- xorb_assoc. reflexivity.
Qed.

(* after x ^= x << w, if every bit was a window of width w it becomes a window of width 2w *)
Lemma stepk_doubles : forall x0 x w, length x = length x0 -> 0 < w ->
  (forall i, i < length x0 -> bit x i = window x0 i w) ->
  forall i, i < length x0 -> bit (stepk w x) i = window x0 i (w + w).
Proof.
  intros x0 x w Hl Hw H i Hi. unfold stepk. rewrite bit_xor_l by (now rewrite shl_length).
  rewrite bit_shl by lia. rewrite window_add, H by lia. f_equal.
  destruct (Nat.ltb_spec i w); [reflexivity|]. apply H. lia.
Qed.

Lemma window_full : forall x i w, i < w -> window x i w = window x i (S i).
Proof.
  intros x i. induction i as [|i IH]; intros w Hw; destruct w as [|w]; try lia; cbn [window]; [reflexivity|].
  f_equal. apply IH. lia.
Qed.
Lemma window_cons : forall b t j, window (b :: t) (S j) (S (S j)) = xorb b (window t j (S j)).
Proof.
  intros b t. induction j as [|j IH].
  - cbn [window]. change (bit (b :: t) 1) with (bit t 0). change (bit (b :: t) 0) with b. destruct (bit t 0), b; reflexivity.
  - change (window (b :: t) (S (S j)) (S (S (S j)))) with (xorb (bit t (S j)) (window (b :: t) (S j) (S (S j)))).
    change (window t (S j) (S (S j))) with (xorb (bit t (S j)) (window t j (S j))).
    rewrite IH. destruct (bit t (S j)), b, (window t j (S j)); reflexivity.
Qed.
Lemma spec_is_window : forall x acc i, i < length x -> bit (prefix_xor_spec acc x) i = xorb acc (window x i (S i)).
Proof.
  induction x as [|b t IH]; intros acc i Hi; cbn in Hi; [lia|]. destruct i as [|i].
  - cbn. now rewrite xorb_false_r.
  - change (bit (prefix_xor_spec acc (b :: t)) (S i)) with (bit (prefix_xor_spec (xorb acc b) t) i).
    rewrite IH by lia. rewrite window_cons. now rewrite xorb_assoc.
Qed.

Theorem prefix_xor_fallback_correct : forall x, length x = 64 -> 
  forall i, i < 64 -> bit (prefix_xor_fallback x) i = bit (prefix_xor_spec false x) i.
Proof.
  intros x Hx i Hi. unfold prefix_xor_fallback.
  assert (H1 : forall i, i < length x -> bit x i = window x i 1) by (intros j _; cbn [window]; destruct j; now rewrite xorb_false_r).
  assert (L1 : 0 < 1) by lia. assert (L2 : 0 < 2) by lia. assert (L4 : 0 < 4) by lia.
  assert (L8 : 0 < 8) by lia. assert (L16 : 0 < 16) by lia. assert (L32 : 0 < 32) by lia.
  pose proof (stepk_doubles x x 1 eq_refl L1 H1) as H2. cbn [Nat.add] in H2.
  pose proof (stepk_doubles x _ 2 (stepk_length _ _) L2 H2) as H4. cbn [Nat.add] in H4.
  assert (E4 : length (stepk 2 (stepk 1 x)) = length x) by (now rewrite !stepk_length).
  pose proof (stepk_doubles x _ 4 E4 L4 H4) as H8. cbn [Nat.add] in H8.
  assert (E8 : length (stepk 4 (stepk 2 (stepk 1 x))) = length x) by (now rewrite !stepk_length).
  pose proof (stepk_doubles x _ 8 E8 L8 H8) as H16. cbn [Nat.add] in H16.
  assert (E16 : length (stepk 8 (stepk 4 (stepk 2 (stepk 1 x)))) = length x) by (now rewrite !stepk_length).
  pose proof (stepk_doubles x _ 16 E16 L16 H16) as H32. cbn [Nat.add] in H32.
  assert (E32 : length (stepk 16 (stepk 8 (stepk 4 (stepk 2 (stepk 1 x))))) = length x) by (now rewrite !stepk_length).
  pose proof (stepk_doubles x _ 32 E32 L32 H32) as H64. cbn [Nat.add] in H64.
  assert (Hi' : i < length x) by (rewrite Hx; exact Hi).
  rewrite (H64 i Hi'). rewrite (spec_is_window x false i Hi'). rewrite xorb_false_l. apply window_full. exact Hi.
Qed.
Print Assumptions prefix_xor_fallback_correct.
