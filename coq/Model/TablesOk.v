(* Model/TablesOk.v -- the crate's lookup tables, as regenerated from /repo on this run
   (Gen/Tables.v), agree entry by entry with their specifications. Finite sweeps by vm_compute,
   lifted with forallb_forall; the bound is in each statement. A changed table entry breaks the
   sweep and its index is the failing input. *)
From Coq Require Import List NArith Arith Bool Lia.
From SonicV Require Import Gen.Tables Spec.Ref Model.TablesDefs.
Import ListNotations.
Open Scope N_scope.

Lemma in_bytes256 : forall c, c < 256 -> In c bytes256.
Proof.
  intros c H. unfold bytes256. apply in_map_iff. exists (N.to_nat c). split; [apply N2Nat.id|].
  apply in_seq. lia.
Qed.

(* ---- ESCAPED_TAB: the byte after a backslash -> the byte it denotes, 0 = not a simple escape ---- *)
Definition escaped_tab_ok (c : N) : bool :=
  tab ESCAPED_TAB c =? match simple_escape c with Some o => o | None => 0 end.
Lemma escaped_tab_sweep : forallb escaped_tab_ok bytes256 = true.
Proof. vm_compute. reflexivity. Qed.
Theorem escaped_tab_correct : forall c, c < 256 ->
  tab ESCAPED_TAB c = match simple_escape c with Some o => o | None => 0 end.
Proof.
  intros c H. apply N.eqb_eq. exact (proj1 (forallb_forall _ _) escaped_tab_sweep c (in_bytes256 c H)).
Qed.
Lemma escaped_tab_length : length ESCAPED_TAB = 256%nat. Proof. reflexivity. Qed.

(* ---- DIGIT_TO_VAL32: four 210-spaced sub-tables, hex digit value shifted by 12/8/4/0 bits, or
        0xFFFFFFFF for a byte that is not a hex digit ---- *)
Definition digit_entry_ok (off shift : N) (c : N) : bool :=
  tab DIGIT_TO_VAL32 (off + c) =? (if is_hex c then hexval c * shift else 4294967295).
Lemma digit_sweep : forallb (digit_entry_ok 630 4096) bytes256 && forallb (digit_entry_ok 420 256) bytes256
                 && forallb (digit_entry_ok 210 16) bytes256 && forallb (digit_entry_ok 0 1) bytes256 = true.
Proof. vm_compute. reflexivity. Qed.
Theorem digit_table_correct : forall c, c < 256 ->
  tab DIGIT_TO_VAL32 (630 + c) = (if is_hex c then hexval c * 4096 else 4294967295) /\
  tab DIGIT_TO_VAL32 (420 + c) = (if is_hex c then hexval c * 256 else 4294967295) /\
  tab DIGIT_TO_VAL32 (210 + c) = (if is_hex c then hexval c * 16 else 4294967295) /\
  tab DIGIT_TO_VAL32 (0 + c) = (if is_hex c then hexval c * 1 else 4294967295).
Proof.
  intros c H. pose proof digit_sweep as S.
  apply andb_true_iff in S. destruct S as [S S4]. apply andb_true_iff in S. destruct S as [S S3].
  apply andb_true_iff in S. destruct S as [S1 S2].
  pose proof (in_bytes256 c H) as I.
  repeat split; apply N.eqb_eq.
  - exact (proj1 (forallb_forall _ _) S1 c I).
  - exact (proj1 (forallb_forall _ _) S2 c I).
  - exact (proj1 (forallb_forall _ _) S3 c I).
  - exact (proj1 (forallb_forall _ _) S4 c I).
Qed.

(* hex_to_u32_nocheck: the bitwise or of the four entries *)
(* for four nibbles the or of the shifted values is their positional sum: 65536 cases *)
Definition nibbles : list N := map N.of_nat (seq 0 16).
Definition lor_is_sum_ok (p : N * N) : bool :=
  let (x, y) := p in
  forallb (fun z => forallb (fun w => N.lor (N.lor (N.lor (x * 4096) (y * 256)) (z * 16)) (w * 1) =? x * 4096 + y * 256 + z * 16 + w) nibbles) nibbles.
Lemma lor_is_sum_sweep : forallb lor_is_sum_ok (list_prod nibbles nibbles) = true.
Proof. vm_compute. reflexivity. Qed.
Lemma in_nibbles : forall v, v < 16 -> In v nibbles.
Proof. intros v H. unfold nibbles. apply in_map_iff. exists (N.to_nat v). split; [apply N2Nat.id|]. apply in_seq. lia. Qed.
Lemma lor_is_sum : forall x y z w, x < 16 -> y < 16 -> z < 16 -> w < 16 ->
  N.lor (N.lor (N.lor (x * 4096) (y * 256)) (z * 16)) (w * 1) = x * 4096 + y * 256 + z * 16 + w.
Proof.
  intros x y z w Hx Hy Hz Hw.
  pose proof (proj1 (forallb_forall _ _) lor_is_sum_sweep (x, y)) as P.
  assert (I : In (x, y) (list_prod nibbles nibbles)) by (apply in_prod; apply in_nibbles; assumption).
  specialize (P I). unfold lor_is_sum_ok in P.
  pose proof (proj1 (forallb_forall _ _) P z (in_nibbles z Hz)) as Q.
  pose proof (proj1 (forallb_forall _ _) Q w (in_nibbles w Hw)) as R.
  apply N.eqb_eq. exact R.
Qed.
Lemma hexval_lt16 : forall c, is_hex c = true -> hexval c < 16.
Proof.
  intros c H. unfold is_hex in H. unfold hexval.
  destruct ((48 <=? c) && (c <=? 57)) eqn:E1.
  - apply andb_true_iff in E1. destruct E1 as [A B]. apply N.leb_le in A. apply N.leb_le in B. lia.
  - destruct ((65 <=? c) && (c <=? 70)) eqn:E2.
    + apply andb_true_iff in E2. destruct E2 as [A B]. apply N.leb_le in A. apply N.leb_le in B. lia.
    + cbn [orb] in H. apply andb_true_iff in H. destruct H as [A B]. apply N.leb_le in A. apply N.leb_le in B. lia.
Qed.

(* four hex digits: the table lookup is the value the specification assigns *)
Theorem hex_table_valid : forall a b c d, a < 256 -> b < 256 -> c < 256 -> d < 256 ->
  forall v, hex4 a b c d = Some v -> hex_to_u32 a b c d = v.
Proof.
  intros a b c d Ha Hb Hc Hd v H. unfold hex4 in H.
  destruct (is_hex a && is_hex b && is_hex c && is_hex d) eqn:E; [|discriminate].
  injection H as <-.
  apply andb_true_iff in E. destruct E as [E Ed]. apply andb_true_iff in E. destruct E as [E Ec].
  apply andb_true_iff in E. destruct E as [Ea Eb].
  unfold hex_to_u32.
  destruct (digit_table_correct a Ha) as [A _]. destruct (digit_table_correct b Hb) as [_ [B _]].
  destruct (digit_table_correct c Hc) as [_ [_ [C _]]]. destruct (digit_table_correct d Hd) as [_ [_ [_ D]]].
  rewrite A, B, C, D, Ea, Eb, Ec, Ed.
  rewrite lor_is_sum by (apply hexval_lt16; assumption). reflexivity.
Qed.

(* ---- serializer tables: NEED_ESCAPED marks exactly quote, backslash and the C0 controls;
        QUOTE_TAB holds their escape sequences ---- *)
Definition need_ok (c : N) : bool := Bool.eqb (negb (tab NEED_ESCAPED c =? 0)) (need_spec c).
Lemma need_sweep : forallb need_ok bytes256 = true.
Proof. vm_compute. reflexivity. Qed.
Theorem need_escaped_correct : forall c, c < 256 -> negb (tab NEED_ESCAPED c =? 0) = need_spec c.
Proof.
  intros c H. apply Bool.eqb_prop. exact (proj1 (forallb_forall _ _) need_sweep c (in_bytes256 c H)).
Qed.
Definition quote_ok (c : N) : bool :=
  if need_spec c then (if list_eq_dec N.eq_dec (quote_entry c) (quote_spec c) then true else false) else true.
Lemma quote_sweep : forallb quote_ok bytes256 = true.
Proof. vm_compute. reflexivity. Qed.
Theorem quote_tab_correct : forall c, c < 256 -> need_spec c = true -> quote_entry c = quote_spec c.
Proof.
  intros c H N. pose proof (proj1 (forallb_forall _ _) quote_sweep c (in_bytes256 c H)) as P.
  unfold quote_ok in P. rewrite N in P. destruct (list_eq_dec N.eq_dec (quote_entry c) (quote_spec c)); [assumption|discriminate].
Qed.
