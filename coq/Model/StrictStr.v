(* Model/StrictStr.v -- the string grammar of the FULLY-DECODING entry points: an RFC 8259 string body
   in which every \u escape denotes a Unicode scalar value, i.e. surrogates occur only as a high
   surrogate immediately followed by a low surrogate.  The reference decoder in strict mode accepts
   exactly these bodies (C02, first clause). *)
From Coq Require Import List NArith Arith Lia Bool.
From SonicV Require Import Spec.Ref Model.SkipStr Model.RefSound.
Import ListNotations.
Open Scope N_scope.

Definition is_high (cp : N) : bool := (55296 <=? cp) && (cp <=? 56319).
Definition is_low (cp : N) : bool := (56320 <=? cp) && (cp <=? 57343).

Inductive sbody : list N -> Prop :=
| ss_nil : sbody []
| ss_char c r : 32 <= c -> c <> 34 -> c <> 92 -> sbody r -> sbody (c :: r)
| ss_esc e r : SkipStr.simple_escape e = true -> sbody r -> sbody (92 :: e :: r)
| ss_u h1 h2 h3 h4 cp r : hex4 h1 h2 h3 h4 = Some cp -> is_high cp = false -> is_low cp = false ->
    sbody r -> sbody (92 :: 117 :: h1 :: h2 :: h3 :: h4 :: r)
| ss_pair h1 h2 h3 h4 g1 g2 g3 g4 hi lo r : hex4 h1 h2 h3 h4 = Some hi -> is_high hi = true ->
    hex4 g1 g2 g3 g4 = Some lo -> is_low lo = true ->
    sbody r -> sbody (92 :: 117 :: h1 :: h2 :: h3 :: h4 :: 92 :: 117 :: g1 :: g2 :: g3 :: g4 :: r).

(* a strict body is in particular an RFC body *)
Lemma sbody_is_str_body : forall b, sbody b -> SkipStr.str_body b.
Proof.
  induction 1 as [|c r H1 H2 H3 _ IH|e r He _ IH|h1 h2 h3 h4 cp r Hx _ _ _ IH|h1 h2 h3 h4 g1 g2 g3 g4 hi lo r Hx _ Hy _ _ IH].
  - constructor.
  - apply sb_char; assumption.
  - apply sb_esc; assumption.
  - destruct (hex4_some _ _ _ _ _ Hx) as (A & B & C & D). apply sb_u; assumption.
  - destruct (hex4_some _ _ _ _ _ Hx) as (A & B & C & D). destruct (hex4_some _ _ _ _ _ Hy) as (A' & B' & C' & D').
    apply sb_u; try assumption. apply sb_u; assumption.
Qed.

Lemma simple_escape_of : forall e, SkipStr.simple_escape e = true -> exists o, Ref.simple_escape e = Some o.
Proof.
  intros e SE. unfold SkipStr.simple_escape in SE. unfold Ref.simple_escape.
  repeat match goal with |- context [if ?c then _ else _] => destruct c eqn:?; [eauto|] end.
  repeat match goal with E : (_ =? _) = false |- _ => rewrite E in SE; clear E end. discriminate.
Qed.
Lemma simple_escape_not_117 : forall e, SkipStr.simple_escape e = true -> (e =? 117) = false.
Proof. exact simple_escape_not_u. Qed.

(* ---------- soundness: what the strict decoder accepts is a strict body ---------- *)
Theorem strict_decoder_sound : forall fuel l d h rest, Ref.str_body true fuel l = Some (d, h, rest) ->
  exists body, l = body ++ 34 :: rest /\ sbody body.
Proof.
  induction fuel as [|f IH]; intros l d h rest H; [discriminate|].
  cbn [Ref.str_body] in H. destruct l as [|c r]; [discriminate|].
  destruct (N.eqb_spec c 34) as [-> | N1].
  { injection H as _ _ <-. exists []. split; [reflexivity|constructor]. }
  destruct (N.eqb_spec c 92) as [-> | N2].
  { destruct r as [|e r1]; [discriminate|].
    destruct (N.eqb_spec e 117) as [-> | N3].
    - destruct r1 as [|h1 [|h2 [|h3 [|h4 r2]]]]; try discriminate.
      destruct (hex4 h1 h2 h3 h4) as [cp|] eqn:Hx; [|discriminate].
      fold (is_high cp) in H. fold (is_low cp) in H.
      destruct (is_high cp) eqn:Hi.
      + destruct r2 as [|q1 [|q2 [|g1 [|g2 [|g3 [|g4 r3]]]]]]; try discriminate.
        destruct ((q1 =? 92) && (q2 =? 117)) eqn:QQ; [|discriminate].
        apply andb_true_iff in QQ. destruct QQ as [Q1 Q2]. apply N.eqb_eq in Q1. apply N.eqb_eq in Q2. subst q1 q2.
        destruct (hex4 g1 g2 g3 g4) as [lo|] eqn:Hy; [|discriminate].
        fold (is_low lo) in H. destruct (is_low lo) eqn:Lo; [|discriminate].
        destruct (Ref.str_body true f r3) as [[[d' h'] rest']|] eqn:SB; [|discriminate]. injection H as _ _ <-.
        destruct (IH _ _ _ _ SB) as (b3 & E3 & B3).
        exists (92 :: 117 :: h1 :: h2 :: h3 :: h4 :: 92 :: 117 :: g1 :: g2 :: g3 :: g4 :: b3). split; [rewrite E3; reflexivity|].
        eapply ss_pair; eassumption.
      + destruct (is_low cp) eqn:Lo; [discriminate|].
        destruct (Ref.str_body true f r2) as [[[d' h'] rest']|] eqn:SB; [|discriminate]. injection H as _ _ <-.
        destruct (IH _ _ _ _ SB) as (b2 & E2 & B2).
        exists (92 :: 117 :: h1 :: h2 :: h3 :: h4 :: b2). split; [rewrite E2; reflexivity|]. eapply ss_u; eassumption.
    - destruct (Ref.simple_escape e) as [o|] eqn:SE; [|discriminate].
      destruct (Ref.str_body true f r1) as [[[d' h'] rest']|] eqn:SB; [|discriminate]. injection H as _ _ <-.
      destruct (IH _ _ _ _ SB) as (b1 & E1 & B1). exists (92 :: e :: b1). split; [rewrite E1; reflexivity|].
      apply ss_esc; [exact (simple_escape_some _ _ SE)|exact B1]. }
  destruct (c <? 32) eqn:Lt; [discriminate|].
  destruct (Ref.str_body true f r) as [[[d' h'] rest']|] eqn:SB; [|discriminate]. injection H as _ _ <-.
  destruct (IH _ _ _ _ SB) as (b1 & E1 & B1). exists (c :: b1). split; [rewrite E1; reflexivity|].
  apply ss_char; try assumption. apply N.ltb_ge in Lt. exact Lt.
Qed.

(* ---------- completeness: every strict body, whatever follows its closing quote, is decoded ---------- *)
Theorem strict_decoder_complete : forall body, sbody body -> forall rest fuel, (length body < fuel)%nat ->
  exists d h, Ref.str_body true fuel (body ++ 34 :: rest) = Some (d, h, rest).
Proof.
  induction 1 as [|c r H1 H2 H3 _ IH|e r He _ IH|h1 h2 h3 h4 cp r Hx Hi Lo _ IH|h1 h2 h3 h4 g1 g2 g3 g4 hi lo r Hx Hi Hy Lo _ IH];
    intros rest fuel Hf; (destruct fuel as [|f]; [cbn [length] in Hf; lia|]); cbn [length] in Hf.
  - eexists. eexists. reflexivity.
  - cbn [app Ref.str_body]. destruct (N.eqb_spec c 34); [contradiction|]. destruct (N.eqb_spec c 92); [contradiction|].
    destruct (N.ltb_spec c 32); [lia|]. destruct (IH rest f ltac:(lia)) as (d & h & R). rewrite R. eauto.
  - cbn [app Ref.str_body]. change (92 =? 34) with false. change (92 =? 92) with true. cbv iota.
    rewrite (simple_escape_not_117 e He). destruct (simple_escape_of e He) as (o & Ho). rewrite Ho.
    destruct (IH rest f ltac:(lia)) as (d & h & R). rewrite R. eauto.
  - cbn [app Ref.str_body]. change (92 =? 34) with false. change (92 =? 92) with true. change (117 =? 117) with true. cbv iota.
    rewrite Hx. fold (is_high cp). fold (is_low cp). rewrite Hi, Lo.
    destruct (IH rest f ltac:(lia)) as (d & h & R). rewrite R. eauto.
  - cbn [app Ref.str_body]. change (92 =? 34) with false. change (92 =? 92) with true. change (117 =? 117) with true. cbv iota.
    rewrite Hx. fold (is_high hi). rewrite Hi. cbn [andb]. rewrite Hy. fold (is_low lo). rewrite Lo.
    destruct (IH rest f ltac:(lia)) as (d & h & R). rewrite R. eauto.
Qed.

Theorem strict_decoder_iff : forall r rest,
  (exists d h, Ref.str_body true (S (length r)) r = Some (d, h, rest)) <-> (exists body, r = body ++ 34 :: rest /\ sbody body).
Proof.
  intros r rest. split.
  - intros (d & h & H). exact (strict_decoder_sound _ _ _ _ _ H).
  - intros (body & -> & B). apply strict_decoder_complete; [exact B|]. rewrite app_length. cbn [length]. lia.
Qed.
Print Assumptions strict_decoder_iff.
