From Coq Require Import List ZArith Lia Bool.
Import ListNotations.
Open Scope Z_scope.

(* The bitmap container skipper looks at one bracket kind only and at bytes outside strings.
   Abstract a well-formed container text to the sequence of its relevant symbols:
   L / R = the bracket kind being counted, O = anything else (other brackets, scalars, separators;
   bytes inside strings are already masked out by the in-string bitmap). *)
Inductive sym := L | R | O.

(* well-formed nesting of one bracket kind with arbitrary other symbols in between *)
Inductive bal : list sym -> Prop :=
| b_nil : bal []
| b_other s : bal s -> bal (O :: s)
| b_nest a s : bal a -> bal s -> bal (L :: a ++ R :: s).

(* ---------- Model: the scalar reading of skip_container: after the opening bracket, stop at the first
   position where the number of R exceeds the number of L; return how many symbols were consumed ---------- *)
Fixpoint scan (l : list sym) (lefts rights : Z) (pos : nat) : option nat :=
  match l with
  | [] => None                                                   (* EofWhileParsing *)
  | L :: t => scan t (lefts + 1) rights (S pos)
  | R :: t => if lefts <? rights + 1 then Some (S pos) else scan t lefts (rights + 1) (S pos)
  | O :: t => scan t lefts rights (S pos)
  end.

Fixpoint cl (a : list sym) : Z := match a with [] => 0 | L :: t => 1 + cl t | _ :: t => cl t end.
Fixpoint cr (a : list sym) : Z := match a with [] => 0 | R :: t => 1 + cr t | _ :: t => cr t end.
Lemma cl_app : forall a b, cl (a ++ b) = cl a + cl b.
Proof. induction a as [|[| |] a IH]; intros b; cbn [app cl]; rewrite ?IH. all: lia. Qed.
Lemma cr_app : forall a b, cr (a ++ b) = cr a + cr b.
Proof. induction a as [|[| |] a IH]; intros b; cbn [app cr]; rewrite ?IH. all: lia. Qed.
Lemma cl_nonneg : forall a, 0 <= cl a. Proof. induction a as [|[| |] a IH]; cbn [cl]; lia. Qed.

(* scanning a balanced stretch never stops inside it and leaves the surplus unchanged *)
Lemma scan_bal : forall a, bal a -> cl a = cr a /\ forall rest l r pos, r <= l ->
  scan (a ++ rest) l r pos = scan rest (l + cl a) (r + cr a) (pos + length a).
Proof.
  intros a H. induction H as [|s Hs [E IH]|a s Ha [Ea IHa] Hs [Es IHs]].
  - split; [reflexivity|]. intros. cbn. now rewrite !Z.add_0_r, Nat.add_0_r.
  - split; [exact E|]. intros rest l r pos Hle. cbn [app scan cl cr length]. rewrite IH by lia. f_equal. lia.
  - split; [cbn [cl cr]; rewrite cl_app, cr_app; cbn [cl cr]; lia|].
    intros rest l r pos Hle. cbn [app scan]. rewrite <- app_assoc. cbn [app].
    rewrite IHa by lia. cbn [scan]. pose proof (cl_nonneg a).
    destruct (Z.ltb_spec (l + 1 + cl a) (r + cr a + 1)); [lia|].
    rewrite IHs by lia. cbn [cl cr length]. rewrite cl_app, cr_app, app_length. cbn [cl cr length]. f_equal; lia.
Qed.

(* the container body (everything after the opening bracket) is a balanced stretch followed by the closing bracket *)
Theorem scan_finds_matching : forall body rest, bal body ->
  scan (body ++ R :: rest) 0 0 0 = Some (S (length body)).
Proof.
  intros body rest H. destruct (scan_bal body H) as [E IH]. rewrite IH by lia. cbn [scan].
  destruct (Z.ltb_spec (0 + cl body) (0 + cr body + 1)); [reflexivity|lia].
Qed.
Print Assumptions scan_finds_matching.
Example ex : scan [O; L; O; R; O; R; O; O] 0 0 0 = Some 6%nat. Proof. reflexivity. Qed.     (*  a { b } c } ...  *)
