(* Model/InplaceClosed.v -- the in-place string decoder closed over the concrete escape decoder of the
   reference (Spec/Ref.v, strict mode): every escape form shrinks (simple escape 2 -> 1 bytes, \uXXXX
   6 -> 1..3, surrogate pair 12 -> 4), the copying decoder instantiated with it IS the reference
   string decoder, hence decoding in place over the padded buffer produces exactly the reference
   decoding, writes only behind its read position and leaves the unread bytes intact (C09, C03, C01). *)
From Coq Require Import List NArith Arith Lia Bool.
From SonicV Require Import Spec.Ref Model.Inplace.
Import ListNotations.
Open Scope N_scope.

Definition is_high (cp : N) : bool := (55296 <=? cp) && (cp <=? 56319).
Definition is_low (cp : N) : bool := (56320 <=? cp) && (cp <=? 57343).

Definition pair_cp (cp lo : N) : N := 65536 + (cp - 55296) * 1024 + (lo - 56320).

(* one escape, positioned after the backslash: (decoded bytes, bytes consumed after the backslash) *)
Definition esc_strict (l : list N) : option (list N * nat) :=
  match l with
  | [] => None
  | e :: r1 =>
    if e =? 117 then
      match r1 with
      | h1 :: h2 :: h3 :: h4 :: r2 =>
        match hex4 h1 h2 h3 h4 with
        | None => None
        | Some cp =>
          if is_high cp then
            match r2 with
            | q1 :: q2 :: g1 :: g2 :: g3 :: g4 :: _ =>
              if (q1 =? 92) && (q2 =? 117) then
                match hex4 g1 g2 g3 g4 with
                | Some lo => if is_low lo then Some (utf8_encode (pair_cp cp lo), 11%nat) else None
                | None => None
                end
              else None
            | _ => None
            end
          else if is_low cp then None
          else Some (utf8_encode cp, 5%nat)
        end
      | _ => None
      end
    else match Ref.simple_escape e with Some o => Some ([o], 1%nat) | None => None end
  end.

Lemma utf8_encode_len : forall cp, (1 <= length (utf8_encode cp) <= 4)%nat.
Proof. intros cp. unfold utf8_encode. repeat match goal with |- context [if ?b then _ else _] => destruct b end; cbn [length]; lia. Qed.
Lemma utf8_encode_len_bmp : forall cp, cp < 65536 -> (length (utf8_encode cp) <= 3)%nat.
Proof. intros cp H. unfold utf8_encode. destruct (cp <? 128); [cbn; lia|]. destruct (cp <? 2048); [cbn; lia|].
  destruct (N.ltb_spec cp 65536); [cbn; lia|lia]. Qed.
Lemma hex4_lt : forall a b c d cp, hex4 a b c d = Some cp -> cp < 65536.
Proof.
  intros a b c d cp H. unfold hex4 in H. destruct (Ref.is_hex a && Ref.is_hex b && Ref.is_hex c && Ref.is_hex d) eqn:E; [|discriminate].
  injection H as <-.
  assert (V : forall x, Ref.is_hex x = true -> hexval x < 16).
  { intros x Hx. unfold Ref.is_hex in Hx. unfold hexval.
    repeat match goal with |- context [if ?b then _ else _] => destruct b eqn:? end;
    repeat match goal with H : (_ && _) = true |- _ => apply andb_true_iff in H; destruct H end;
    repeat match goal with H : (_ <=? _) = true |- _ => apply N.leb_le in H end;
    repeat match goal with H : (_ || _) = true |- _ => apply orb_true_iff in H; destruct H end;
    repeat match goal with H : (_ && _) = true |- _ => apply andb_true_iff in H; destruct H end;
    repeat match goal with H : (_ <=? _) = true |- _ => apply N.leb_le in H end;
    repeat match goal with H : (_ && _) = false |- _ => apply andb_false_iff in H end;
    try lia. }
  apply andb_true_iff in E. destruct E as [E Hd]. apply andb_true_iff in E. destruct E as [E Hc]. apply andb_true_iff in E. destruct E as [Ha Hb].
  pose proof (V a Ha). pose proof (V b Hb). pose proof (V c Hc). pose proof (V d Hd). lia.
Qed.

Theorem esc_strict_shrinks : forall l o n, esc_strict l = Some (o, n) -> (1 <= n /\ n <= length l /\ length o <= n)%nat.
Proof.
  intros l o n H. unfold esc_strict in H. destruct l as [|e r1]; [discriminate|].
  destruct (e =? 117).
  - destruct r1 as [|h1 [|h2 [|h3 [|h4 r2]]]]; try discriminate.
    destruct (hex4 h1 h2 h3 h4) as [cp|] eqn:Hx; [|discriminate].
    destruct (is_high cp).
    + destruct r2 as [|q1 [|q2 [|g1 [|g2 [|g3 [|g4 r3]]]]]]; try discriminate.
      destruct ((q1 =? 92) && (q2 =? 117)); [|discriminate].
      destruct (hex4 g1 g2 g3 g4) as [lo|]; [|discriminate]. destruct (is_low lo); [|discriminate].
      injection H as <- <-. pose proof (utf8_encode_len (pair_cp cp lo)). cbn [length]. lia.
    + destruct (is_low cp); [discriminate|]. injection H as <- <-.
      pose proof (utf8_encode_len_bmp cp (hex4_lt _ _ _ _ _ Hx)). pose proof (utf8_encode_len cp). cbn [length]. lia.
  - destruct (Ref.simple_escape e); [|discriminate]. injection H as <- <-. cbn [length]. lia.
Qed.

Definition proj_dr (x : option (list N * bool * list N)) : option (list N * list N) :=
  match x with Some (d, _, rest) => Some (d, rest) | None => None end.

(* the copying decoder of Model/Inplace.v, instantiated with esc_strict, is the reference decoder *)
Theorem dec_is_reference : forall fuel l, dec esc_strict fuel l = proj_dr (Ref.str_body true fuel l).
Proof.
  induction fuel as [|f IH]; intros l; [reflexivity|].
  cbn [dec Ref.str_body]. destruct l as [|c r]; [reflexivity|].
  unfold quote, bslash.
  destruct (c =? 34); [reflexivity|].
  destruct (c =? 92).
  - unfold esc_strict. destruct r as [|e r1]; [reflexivity|].
    destruct (e =? 117).
    + destruct r1 as [|h1 [|h2 [|h3 [|h4 r2]]]]; try reflexivity.
      destruct (hex4 h1 h2 h3 h4) as [cp|]; [|reflexivity].
      fold (is_high cp). fold (is_low cp).
      destruct (is_high cp).
      * destruct r2 as [|q1 [|q2 [|g1 [|g2 [|g3 [|g4 r3]]]]]]; try reflexivity.
        destruct ((q1 =? 92) && (q2 =? 117)); [|reflexivity].
        destruct (hex4 g1 g2 g3 g4) as [lo|]; [|reflexivity].
        fold (is_low lo). destruct (is_low lo); [|reflexivity].
        cbn [skipn]. rewrite IH. destruct (Ref.str_body true f r3) as [[[d h] rest]|]; reflexivity.
      * destruct (is_low cp); [reflexivity|]. cbn [skipn]. rewrite IH.
        destruct (Ref.str_body true f r2) as [[[d h] rest]|]; reflexivity.
    + destruct (Ref.simple_escape e) as [o|]; [|reflexivity]. cbn [skipn]. rewrite IH.
      destruct (Ref.str_body true f r1) as [[[d h] rest]|]; reflexivity.
  - replace (c <=? 31) with (c <? 32) by (destruct (N.ltb_spec c 32), (N.leb_spec c 31); (reflexivity || lia)).
    destruct (c <? 32); [reflexivity|]. rewrite IH. destruct (Ref.str_body true f r) as [[[d h] rest]|]; reflexivity.
Qed.

(* decoding in place over the buffer gives the reference decoding of the unread bytes, behind the read
   position, with the unread bytes (and whatever lies behind them) untouched *)
Theorem inplace_decodes_reference : forall fuel b0 b src dst out h rest,
  (dst <= src)%nat -> skipn src b = skipn src b0 -> length b = length b0 ->
  Ref.str_body true fuel (skipn src b0) = Some (out, h, rest) ->
  exists b' src', inplace esc_strict fuel b src dst = Done (dst + length out) b' src' /\
     firstn (dst + length out) b' = firstn dst b ++ out /\
     skipn src' b' = rest /\ skipn src' b' = skipn src' b0 /\
     (dst + length out < src')%nat /\ length b' = length b0.
Proof.
  intros fuel b0 b src dst out h rest H1 H2 H3 H4.
  apply (inplace_correct esc_strict esc_strict_shrinks fuel b0 b src dst out rest H1 H2 H3).
  rewrite dec_is_reference, H4. reflexivity.
Qed.
Print Assumptions inplace_decodes_reference.
