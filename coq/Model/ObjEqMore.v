(* Model/ObjEqMore.v -- more of C19's last sentence about Object equality (Model/ObjEq.v): it is reflexive,
   and for objects without duplicate names it does not depend on the order of the members of either side. *)
From Coq Require Import List Arith Lia Bool Permutation.
From SonicV Require Import Model.ObjEq.
Import ListNotations.

Section More.
Variable key val : Type.
Variable keq : forall a b : key, {a = b} + {a <> b}.
Variable veq : val -> val -> bool.
Hypothesis veq_refl : forall a, veq a a = true.
Notation get := (ObjEq.get key val keq).
Notation oeq := (ObjEq.oeq val veq).
Notation obj_eq := (ObjEq.obj_eq key val keq veq).

Lemma oeq_refl : forall x, oeq x x = true.
Proof. intros [x|]; [apply veq_refl|reflexivity]. Qed.

Theorem obj_eq_refl : forall a, obj_eq a a = true.
Proof.
  intros a. unfold ObjEq.obj_eq. rewrite Nat.eqb_refl. cbn [andb]. apply forallb_forall. intros p _. apply oeq_refl.
Qed.

Lemma get_not_in : forall ps k, ~ In k (map fst ps) -> get ps k = None.
Proof.
  induction ps as [|[k' v] r IH]; intros k H; [reflexivity|]. cbn [ObjEq.get]. cbn [map fst In] in H.
  destruct (keq k' k) as [-> | NE]; [exfalso; apply H; left; reflexivity|]. apply IH. intros Hin. apply H. right. exact Hin.
Qed.

Lemma get_perm : forall a a', Permutation a a' -> NoDup (map fst a) -> forall k, get a k = get a' k.
Proof.
  induction 1 as [|[k0 v0] l l' P IH|[k1 v1] [k2 v2] l|l l' l'' P1 IH1 P2 IH2]; intros ND k.
  - reflexivity.
  - cbn [ObjEq.get]. inversion ND; subst. destruct (keq k0 k); [reflexivity|]. apply IH. assumption.
  - cbn [ObjEq.get]. inversion ND as [|? ? N1 ND']; subst. cbn [map fst In] in N1.
    destruct (keq k2 k) as [-> | NE2]; destruct (keq k1 k) as [-> | NE1]; try reflexivity.
    exfalso. apply N1. left. reflexivity.
  - rewrite IH1 by exact ND. apply IH2. apply (Permutation_NoDup (Permutation_map fst P1)). exact ND.
Qed.

Lemma forallb_perm : forall (A : Type) (f : A -> bool) l l', Permutation l l' -> forallb f l = forallb f l'.
Proof.
  induction 1 as [|x l l' P IH|x y l|l l' l'' P1 IH1 P2 IH2]; cbn [forallb]; [reflexivity|rewrite IH; reflexivity| |congruence].
  destruct (f x), (f y); reflexivity.
Qed.

Lemma forallb_ext' : forall (A : Type) (f g : A -> bool) l, (forall x, f x = g x) -> forallb f l = forallb g l.
Proof. intros A f g l H. induction l as [|x r IH]; [reflexivity|]. cbn [forallb]. rewrite H, IH. reflexivity. Qed.

(* the order of the members of the left operand does not matter *)
Theorem obj_eq_perm_l : forall a a' b, Permutation a a' -> NoDup (map fst a) -> obj_eq a b = obj_eq a' b.
Proof.
  intros a a' b P ND. unfold ObjEq.obj_eq. rewrite (Permutation_length P). f_equal.
  rewrite (forallb_perm _ _ _ _ P). apply forallb_ext'. intros p. rewrite (get_perm a a' P ND). reflexivity.
Qed.
(* ... nor that of the right operand *)
Theorem obj_eq_perm_r : forall a b b', Permutation b b' -> NoDup (map fst b) -> obj_eq a b = obj_eq a b'.
Proof.
  intros a b b' P ND. unfold ObjEq.obj_eq. rewrite (Permutation_length P). f_equal.
  apply forallb_ext'. intros p. rewrite (get_perm b b' P ND). reflexivity.
Qed.
Theorem obj_eq_perm : forall a a' b b', Permutation a a' -> NoDup (map fst a) -> Permutation b b' -> NoDup (map fst b) ->
  obj_eq a b = obj_eq a' b'.
Proof. intros a a' b b' Pa Na Pb Nb. rewrite (obj_eq_perm_l a a' b Pa Na). exact (obj_eq_perm_r a' b b' Pb Nb). Qed.
End More.
Print Assumptions obj_eq_perm_l.
