(* Model/DomLens.v -- the reference model of the mutable DOM: what is written at a path is what a
   later read at that path returns, and a read that resolved before a write at the same path still
   resolves (the container kinds along the path do not change). *)
From Coq Require Import List NArith Arith Bool Lia.
From SonicV Require Import Model.DomOps.
Import ListNotations.

Lemma keq_refl : forall a, keq a a = true.
Proof. induction a as [|x a IH]; [reflexivity|]. cbn [keq]. rewrite N.eqb_refl, IH. reflexivity. Qed.
Lemma keq_eq : forall a b, keq a b = true -> a = b.
Proof. induction a as [|x a IH]; intros [|y b] H; cbn [keq] in H; try discriminate; [reflexivity|].
  apply andb_true_iff in H. destruct H as [E1 E2]. apply N.eqb_eq in E1. rewrite E1, (IH _ E2). reflexivity. Qed.

Lemma assoc_set_get : forall l k v, assoc (assoc_set l k v) k = Some v.
Proof.
  induction l as [|[k' v'] r IH]; intros k v; cbn [assoc_set assoc].
  - rewrite keq_refl. reflexivity.
  - destruct (keq k' k) eqn:E; cbn [assoc]; rewrite E; [reflexivity|apply IH].
Qed.
Lemma assoc_set_other : forall l k v q, keq k q = false -> keq q k = false -> assoc (assoc_set l k v) q = assoc l q.
Proof.
  induction l as [|[k' v'] r IH]; intros k v q E1 E2; cbn [assoc_set assoc].
  - rewrite E1. reflexivity.
  - destruct (keq k' k) eqn:E; cbn [assoc].
    + apply keq_eq in E. subst k'. rewrite E1. reflexivity.
    + destruct (keq k' q); [reflexivity|]. apply IH; assumption.
Qed.
Lemma set_nth_get : forall A (l : list A) i x, i < length l -> nth_error (set_nth l i x) i = Some x.
Proof.
  induction l as [|y r IH]; intros [|i] x H; cbn [length set_nth nth_error] in *; try lia; [reflexivity|]. apply IH. lia.
Qed.
Lemma nth_error_lt : forall A (l : list A) i x, nth_error l i = Some x -> i < length l.
Proof. intros A l i x H. apply nth_error_Some. congruence. Qed.

(* put-get: the subtree written at p is the subtree read at p afterwards *)
Theorem write_then_read : forall p t x t', upd_at t p (fun _ => Some x) = Some t' -> get_at t' p = Some x.
Proof.
  induction p as [|e p IH]; intros t x t' H; cbn [upd_at] in H.
  - injection H as <-. reflexivity.
  - destruct e as [k|i].
    + destruct t as [d|l|l]; try discriminate. destruct (assoc l k) as [v|] eqn:A; [|discriminate].
      destruct (upd_at v p (fun _ => Some x)) as [v'|] eqn:U; [|discriminate]. injection H as <-.
      cbn [get_at]. rewrite assoc_set_get. exact (IH _ _ _ U).
    + destruct t as [d|l|l]; try discriminate. destruct (nth_error l i) as [v|] eqn:A; [|discriminate].
      destruct (upd_at v p (fun _ => Some x)) as [v'|] eqn:U; [|discriminate]. injection H as <-.
      cbn [get_at]. rewrite set_nth_get by (eapply nth_error_lt; exact A). exact (IH _ _ _ U).
Qed.

(* a write succeeds exactly where a read resolves *)
Theorem write_resolves_iff_read : forall p t x, (exists t', upd_at t p (fun _ => Some x) = Some t') <-> (exists v, get_at t p = Some v).
Proof.
  induction p as [|e p IH]; intros t x; cbn [upd_at get_at].
  - split; intros _; eauto.
  - destruct e as [k|i]; destruct t as [d|l|l]; try (split; intros [y Hy]; discriminate).
    + destruct (assoc l k) as [v|]; [|split; intros [y Hy]; discriminate].
      split.
      * intros [t' H]. destruct (upd_at v p (fun _ => Some x)) as [v'|] eqn:U; [|discriminate]. apply (proj1 (IH v x)). eauto.
      * intros H. destruct (proj2 (IH v x) H) as [v' U]. rewrite U. eauto.
    + destruct (nth_error l i) as [v|]; [|split; intros [y Hy]; discriminate].
      split.
      * intros [t' H]. destruct (upd_at v p (fun _ => Some x)) as [v'|] eqn:U; [|discriminate]. apply (proj1 (IH v x)). eauto.
      * intros H. destruct (proj2 (IH v x) H) as [v' U]. rewrite U. eauto.
Qed.
