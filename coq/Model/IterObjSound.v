(* Model/IterObjSound.v -- the reference object iterator: every member value it yields is a
   well-formed value located exactly at its span inside the input; the transcript has the shape
   items* terminal. *)
From Coq Require Import List NArith Arith Lia Bool.
From SonicV Require Import Spec.Ref Model.Skip Model.SkipAll Model.RefSound Model.IterSound.
Import ListNotations.
Open Scope N_scope.

Ltac term := split; [reflexivity|intros ? ? ? [H|[]]; discriminate].

Lemma obj_items_sound : forall fuel first pos l orig pre0, orig = pre0 ++ l -> pos = length pre0 ->
  shape (obj_items fuel first pos l) = true /\
  forall k a b, In (IOk k a b) (obj_items fuel first pos l) -> located orig a b.
Proof.
  induction fuel as [|f IH]; intros first pos l orig pre0 Eo Ep; [term|].
  cbn [obj_items]. rewrite ws_same. destruct (ws_split_len l) as (A & _ & L).
  destruct (Skip.ws l) as [|c r] eqn:Ew; [term|].
  destruct (c =? 125); [term|].
  set (p1 := (pos + (length l - length (c :: r)))%nat).
  (* a member starting with its key at (p2, l2) *)
  assert (Step : forall p2 l2 pre2, orig = pre2 ++ l2 -> p2 = length pre2 ->
     let R := match l2 with
        | 34 :: kr =>
          match Ref.str_body true (S (length kr)) kr with
          | None => [IErr]
          | Some (k, _, rest) =>
            let pk := (p2 + (length l2 - length rest))%nat in
            let r1 := Ref.ws rest in
            let pc := (pk + (length rest - length r1))%nat in
            match r1 with
            | 58 :: r2 =>
              match pvalue false (fuel_for r2) (S pc) r2 with
              | None => [IErr]
              | Some (_, a, b, r3) => IOk k a b :: obj_items f false b r3
              end
            | _ => [IErr]
            end
          end
        | _ => [IErr]
        end in
     shape R = true /\ forall k a b, In (IOk k a b) R -> located orig a b).
  { intros p2 l2 pre2 E2 P2. cbv zeta.
    destruct l2 as [|q kr]; [term|].
    destruct (N.eqb_spec q 34) as [->|Nq]; [|destruct q as [|p]; [term|]; repeat (destruct p as [p|p|]; try term); contradiction].
    destruct (Ref.str_body true (S (length kr)) kr) as [[[key hk] rest]|] eqn:SK; [|term].
    destruct (str_body_sound _ _ _ _ _ _ SK) as (body & Eb & _).
    rewrite ws_same. destruct (ws_split_len rest) as (A1 & _ & L1). destruct (Skip.ws rest) as [|c2 r2] eqn:Er; [term|].
    destruct (N.eqb_spec c2 58) as [->|Nc]; [|destruct c2 as [|p]; [term|]; repeat (destruct p as [p|p|]; try term); contradiction].
    match goal with |- context [pvalue false ?F ?P r2] => destruct (pvalue false F P r2) as [[[[v a] b] r3]|] eqn:PV; [|term] end.
    destruct (proj1 (pvalue_sound false _) _ _ _ _ _ _ PV) as (w & tok & E & _ & Hv & Ea & Eb2).
    set (pre3 := pre2 ++ 34 :: body ++ 34 :: take_ws rest ++ [58]).
    assert (E3 : orig = pre3 ++ r2).
    { unfold pre3. rewrite E2, Eb. rewrite A1 at 1. repeat (first [rewrite <- app_assoc | progress (cbn [app])]); reflexivity. }
    assert (L3 : (S (p2 + (length (34%N :: kr) - length rest) + (length rest - length (58%N :: r2))) = length pre3)%nat).
    { unfold pre3. pose proof (f_equal (@length N) Eb) as LEb. pose proof (f_equal (@length N) A1) as LA1.
      repeat (rewrite app_length in LEb, LA1 |- * ; cbn [length] in LEb, LA1 |- * ).
      repeat (rewrite app_length; cbn [length]). lia. }
    rewrite L3 in Ea.
    assert (Loc : located orig a b).
    { exists (pre3 ++ w), tok, r3. repeat split; try assumption.
      - rewrite E3, E. rewrite <- app_assoc. reflexivity.
      - rewrite Ea, app_length. reflexivity. }
    destruct (IH false b r3 orig (pre3 ++ w ++ tok)) as [Sh In'].
    { rewrite E3, E. repeat rewrite <- app_assoc. reflexivity. }
    { rewrite Eb2, Ea. rewrite !app_length. lia. }
    split.
    - cbn [shape is_item andb]. destruct (obj_items f false b r3) as [|x xs] eqn:AI; [discriminate|exact Sh].
    - intros k a' b' [H|H]; [injection H as _ <- <-; exact Loc|exact (In' _ _ _ H)]. }
  destruct first.
  - apply (Step p1 (c :: r) (pre0 ++ take_ws l)).
    + rewrite Eo. rewrite A at 1. rewrite <- app_assoc. reflexivity.
    + unfold p1. rewrite app_length, Ep, L. reflexivity.
  - destruct (N.eqb_spec c 44) as [->|Nc]; [|term].
    rewrite ws_same. destruct (ws_split_len r) as (A2 & _ & L2).
    apply (Step (S p1 + (length r - length (Skip.ws r)))%nat (Skip.ws r) (pre0 ++ take_ws l ++ 44 :: take_ws r)).
    + rewrite Eo. rewrite A at 1. rewrite A2 at 1. repeat (first [rewrite <- app_assoc | progress (cbn [app])]); reflexivity.
    + unfold p1. repeat (rewrite app_length; cbn [length]). rewrite Ep, L, L2. cbn [length]. lia.
Qed.

Theorem object_iterator_items_located : forall l k a b, In (IOk k a b) (ref_object_iter l) -> located l a b.
Proof.
  intros l k a b H. unfold ref_object_iter in H. destruct (utf8_valid l); [|destruct H as [H|[]]; discriminate].
  rewrite ws_same in H. destruct (ws_split_len l) as (A & _ & L). destruct (Skip.ws l) as [|c r] eqn:Ew; [destruct H as [H|[]]; discriminate|].
  destruct (N.eqb_spec c 123) as [->|Nc]; [|exfalso; destruct c as [|p]; [destruct H as [H|[]]; discriminate|]; repeat (destruct p as [p|p|]; try (destruct H as [H|[]]; discriminate)); contradiction].
  refine (proj2 (obj_items_sound _ true _ r l (take_ws l ++ [123]) _ _) k a b H).
  - rewrite A at 1. rewrite <- app_assoc. reflexivity.
  - rewrite app_length, L. cbn [length]. lia.
Qed.

Theorem object_iterator_shape : forall l, shape (ref_object_iter l) = true.
Proof.
  intros l. unfold ref_object_iter. destruct (utf8_valid l); [|reflexivity].
  rewrite ws_same. destruct (ws_split_len l) as (A & _ & L). destruct (Skip.ws l) as [|c r] eqn:Ew; [reflexivity|].
  destruct (N.eqb_spec c 123) as [->|Nc]; [|destruct c as [|p]; [reflexivity|]; repeat (destruct p as [p|p|]; try reflexivity); contradiction].
  refine (proj1 (obj_items_sound _ true _ r l (take_ws l ++ [123]) _ _)).
  - rewrite A at 1. rewrite <- app_assoc. reflexivity.
  - rewrite app_length, L. cbn [length]. lia.
Qed.

Lemma iterators_items_located : forall l k a b,
  (In (IOk k a b) (ref_array_iter l) \/ In (IOk k a b) (ref_object_iter l)) -> located l a b.
Proof. intros l k a b [H|H]; [exact (array_iterator_items_located l k a b H)|exact (object_iterator_items_located l k a b H)]. Qed.
