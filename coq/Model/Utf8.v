(* Model/Utf8.v -- UTF-8 validity as a byte-wise automaton, its equality with the reference validator
   of Spec/Ref.v, and the fact the decoders rely on when they build a &str without re-validating:
   strict decoding of a string literal taken from valid UTF-8 input yields valid UTF-8 (raw bytes are
   copied in order, every escape is ASCII and is replaced by the encoding of a scalar value). *)
From Coq Require Import List NArith ZArith Arith Lia Bool ZifyN ZifyBool ZifyNat.
From SonicV Require Import Spec.Ref.
Import ListNotations.
Open Scope N_scope.
Ltac Zify.zify_post_hook ::= Z.div_mod_to_equations.
Local Arguments N.add : simpl never.
Local Arguments N.mul : simpl never.
Local Arguments N.sub : simpl never.

Inductive ust := S0 | T1 | T2 | E0 | ED | T3 | F0 | F4.

Definition step (s : ust) (c : N) : option ust :=
  match s with
  | S0 => if c <? 128 then Some S0
          else if (194 <=? c) && (c <=? 223) then Some T1
          else if c =? 224 then Some E0
          else if c =? 237 then Some ED
          else if (225 <=? c) && (c <=? 239) then Some T2
          else if c =? 240 then Some F0
          else if c =? 244 then Some F4
          else if (241 <=? c) && (c <=? 243) then Some T3
          else None
  | T1 => if cont c then Some S0 else None
  | T2 => if cont c then Some T1 else None
  | E0 => if (160 <=? c) && (c <=? 191) then Some T1 else None
  | ED => if (128 <=? c) && (c <=? 159) then Some T1 else None
  | T3 => if cont c then Some T2 else None
  | F0 => if (144 <=? c) && (c <=? 191) then Some T2 else None
  | F4 => if (128 <=? c) && (c <=? 143) then Some T2 else None
  end.

Fixpoint run (s : ust) (l : list N) : option ust :=
  match l with [] => Some s | c :: r => match step s c with Some s' => run s' r | None => None end end.

Definition accepts (l : list N) : bool := match run S0 l with Some S0 => true | _ => false end.

Ltac brk := repeat (match goal with
  | |- context [?a <? ?b] => destruct (N.ltb_spec a b)
  | |- context [?a <=? ?b] => destruct (N.leb_spec a b)
  | |- context [?a =? ?b] => destruct (N.eqb_spec a b)
  end; cbn [andb orb negb]; try lia).

Lemma run_app : forall a b s, run s (a ++ b) = match run s a with Some s' => run s' b | None => None end.
Proof. induction a as [|c a IH]; intros b s; [reflexivity|]. cbn [app run]. destruct (step s c); [apply IH|reflexivity]. Qed.

(* an ASCII byte is accepted only between characters *)
Lemma step_ascii : forall s c s', c < 128 -> step s c = Some s' -> s = S0 /\ s' = S0.
Proof.
  intros s c s' Hc HH. destruct s; cbn [step] in HH; unfold cont in HH; revert HH; brk; intros HH; try discriminate.
  injection HH as <-. split; reflexivity.
Qed.
Lemma step_ascii_ok : forall c, c < 128 -> step S0 c = Some S0.
Proof. intros c H. cbn [step]. brk. reflexivity. Qed.

(* ---------- the reference validator is the automaton ---------- *)
Definition is_S0 (x : option ust) : bool := match x with Some S0 => true | _ => false end.

Ltac brk1 := match goal with
  | |- context [?a <? ?b] => destruct (N.ltb_spec a b)
  | |- context [?a <=? ?b] => destruct (N.leb_spec a b)
  | |- context [?a =? ?b] => destruct (N.eqb_spec a b)
  end; try (exfalso; lia).
Ltac go := repeat (cbn [run step is_S0 andb orb negb]; unfold cont; brk1); cbn [run step is_S0 andb orb negb]; try reflexivity.

Lemma acc1 : forall c r, c < 128 -> is_S0 (run S0 (c :: r)) = is_S0 (run S0 r).
Proof. intros c r H. go. Qed.
Lemma acc2 : forall c r, 194 <= c <= 223 ->
  is_S0 (run S0 (c :: r)) = match r with c1 :: r1 => cont c1 && is_S0 (run S0 r1) | _ => false end.
Proof. intros c r H. destruct r as [|c1 r1]; go. Qed.
Lemma acc3 : forall c r, 224 <= c <= 239 ->
  is_S0 (run S0 (c :: r)) =
  match r with
  | c1 :: c2 :: r2 => cont c1 && cont c2 && (if c =? 224 then 160 <=? c1 else true) && (if c =? 237 then c1 <=? 159 else true) && is_S0 (run S0 r2)
  | _ => false end.
Proof. intros c r H. destruct r as [|c1 [|c2 r2]]; go. Qed.
Lemma acc4 : forall c r, 240 <= c <= 244 ->
  is_S0 (run S0 (c :: r)) =
  match r with
  | c1 :: c2 :: c3 :: r3 => cont c1 && cont c2 && cont c3 && (if c =? 240 then 144 <=? c1 else true) && (if c =? 244 then c1 <=? 143 else true) && is_S0 (run S0 r3)
  | _ => false end.
Proof. intros c r H. destruct r as [|c1 [|c2 [|c3 r3]]]; go. Qed.
Lemma acc_bad : forall c r, (128 <= c < 194 \/ 245 <= c) -> is_S0 (run S0 (c :: r)) = false.
Proof. intros c r H. go. Qed.

Lemma valid_is_run : forall fuel l, (length l < fuel)%nat -> utf8_valid_f fuel l = is_S0 (run S0 l).
Proof.
  induction fuel as [|f IH]; intros l Hl; [lia|].
  destruct l as [|c r]; [reflexivity|]. cbn [length] in Hl. cbn [utf8_valid_f].
  destruct (N.ltb_spec c 128) as [A|A]; [rewrite acc1 by exact A; apply IH; lia|].
  destruct (N.leb_spec 194 c) as [B|B]; [|cbn [andb]; destruct (N.leb_spec 224 c); [lia|]; destruct (N.leb_spec 240 c); [lia|]; cbn [andb]; rewrite acc_bad by lia; reflexivity].
  destruct (N.leb_spec c 223) as [C|C]; cbn [andb].
  { rewrite acc2 by lia. destruct r as [|c1 r1]; [reflexivity|]. cbn [length] in Hl. rewrite IH by lia. reflexivity. }
  destruct (N.leb_spec 224 c) as [D|D]; [|lia].
  destruct (N.leb_spec c 239) as [E|E]; cbn [andb].
  { rewrite acc3 by lia. destruct r as [|c1 [|c2 r2]]; try reflexivity. cbn [length] in Hl. rewrite IH by lia. reflexivity. }
  destruct (N.leb_spec 240 c) as [F|F]; [|lia].
  destruct (N.leb_spec c 244) as [G|G]; cbn [andb].
  { rewrite acc4 by lia. destruct r as [|c1 [|c2 [|c3 r3]]]; try reflexivity. cbn [length] in Hl. rewrite IH by lia. reflexivity. }
  rewrite acc_bad by lia. reflexivity.
Qed.

Theorem utf8_valid_is_automaton : forall l, utf8_valid l = is_S0 (run S0 l).
Proof. intros l. unfold utf8_valid. apply valid_is_run. lia. Qed.

(* ---------- encodings of scalar values are accepted ---------- *)
Definition is_scalar (cp : N) : Prop := cp < 55296 \/ (57344 <= cp /\ cp < 1114112).

Lemma run_encode : forall cp, is_scalar cp -> run S0 (utf8_encode cp) = Some S0.
Proof.
  intros cp H. unfold is_scalar in H. unfold utf8_encode.
  destruct (N.ltb_spec cp 128); [go|]. destruct (N.ltb_spec cp 2048).
  { assert (2 <= cp / 64 < 32) by (split; [apply N.div_le_lower_bound; lia|apply N.div_lt_upper_bound; lia]).
    pose proof (N.mod_lt cp 64 ltac:(lia)). go. }
  destruct (N.ltb_spec cp 65536).
  { assert (cp / 4096 < 16) by (apply N.div_lt_upper_bound; lia).
    pose proof (N.mod_lt (cp / 64) 64 ltac:(lia)). pose proof (N.mod_lt cp 64 ltac:(lia)).
    (* the second byte decides overlong / surrogate *)
    assert (K : cp / 64 = 64 * (cp / 4096) + (cp / 64) mod 64).
    { rewrite (N.div_mod (cp / 64) 64) at 1 by lia. rewrite N.div_div by lia. reflexivity. }
    assert (L : 64 * (cp / 64) <= cp < 64 * (cp / 64) + 64).
    { pose proof (N.div_mod cp 64 ltac:(lia)). lia. }
    go. }
  assert (cp / 262144 < 5) by (apply N.div_lt_upper_bound; lia).
  assert (1 <= cp / 65536) by (apply N.div_le_lower_bound; lia).
  pose proof (N.mod_lt (cp / 4096) 64 ltac:(lia)). pose proof (N.mod_lt (cp / 64) 64 ltac:(lia)). pose proof (N.mod_lt cp 64 ltac:(lia)).
  assert (K : cp / 4096 = 64 * (cp / 262144) + (cp / 4096) mod 64).
  { rewrite (N.div_mod (cp / 4096) 64) at 1 by lia. rewrite N.div_div by lia. reflexivity. }
  assert (L : 4096 * (cp / 4096) <= cp < 4096 * (cp / 4096) + 4096).
  { pose proof (N.div_mod cp 4096 ltac:(lia)). pose proof (N.mod_lt cp 4096 ltac:(lia)). lia. }
  go.
Qed.

(* ---------- strict decoding keeps validity ---------- *)
Lemma run_ascii_inv : forall s c r s', c < 128 -> run s (c :: r) = Some s' -> s = S0 /\ run S0 r = Some s'.
Proof.
  intros s c r s' Hc H. cbn [run] in H. destruct (step s c) as [s1|] eqn:E; [|discriminate].
  destruct (step_ascii _ _ _ Hc E) as [-> ->]. split; [reflexivity|exact H].
Qed.
Lemma run_ascii_cons : forall c r, c < 128 -> run S0 (c :: r) = run S0 r.
Proof. intros c r H. cbn [run]. rewrite (step_ascii_ok c H). reflexivity. Qed.

Lemma is_hex_ascii : forall c, Ref.is_hex c = true -> c < 128.
Proof. intros c H. unfold Ref.is_hex in H. revert H. brk; intros; (lia || discriminate). Qed.
Lemma hex4_ascii : forall a b c d cp, hex4 a b c d = Some cp -> a < 128 /\ b < 128 /\ c < 128 /\ d < 128.
Proof.
  intros a b c d cp H. unfold hex4 in H. destruct (Ref.is_hex a && Ref.is_hex b && Ref.is_hex c && Ref.is_hex d) eqn:E; [|discriminate].
  apply andb_true_iff in E. destruct E as [E Hd]. apply andb_true_iff in E. destruct E as [E Hc]. apply andb_true_iff in E. destruct E as [Ha Hb].
  repeat split; apply is_hex_ascii; assumption.
Qed.
Lemma hexval_lt : forall x, Ref.is_hex x = true -> hexval x < 16.
Proof. intros x H. unfold Ref.is_hex in H. unfold hexval. revert H. brk; intros; (lia || discriminate). Qed.
Lemma hex4_range : forall a b c d cp, hex4 a b c d = Some cp -> cp < 65536.
Proof.
  intros a b c d cp H. unfold hex4 in H. destruct (Ref.is_hex a && Ref.is_hex b && Ref.is_hex c && Ref.is_hex d) eqn:E; [|discriminate].
  injection H as <-.
  apply andb_true_iff in E. destruct E as [E Hd]. apply andb_true_iff in E. destruct E as [E Hc]. apply andb_true_iff in E. destruct E as [Ha Hb].
  pose proof (hexval_lt a Ha). pose proof (hexval_lt b Hb). pose proof (hexval_lt c Hc). pose proof (hexval_lt d Hd). lia.
Qed.
Lemma simple_escape_ascii : forall e o, Ref.simple_escape e = Some o -> e < 128 /\ o < 128.
Proof.
  intros e o H. unfold Ref.simple_escape in H. revert H. brk; intros H; try discriminate; injection H as <-; lia.
Qed.

Theorem strict_decode_keeps_utf8 : forall fuel l d h rest s s',
  Ref.str_body true fuel l = Some (d, h, rest) -> run s l = Some s' ->
  run s d = Some S0 /\ run S0 rest = Some s'.
Proof.
  induction fuel as [|f IH]; intros l d h rest s s' H R; [discriminate|].
  cbn [Ref.str_body] in H. destruct l as [|c r]; [discriminate|].
  destruct (N.eqb_spec c 34) as [-> | N1].
  { injection H as <- _ <-. destruct (run_ascii_inv _ 34 _ _ ltac:(lia) R) as [-> R1]. split; [reflexivity|exact R1]. }
  destruct (N.eqb_spec c 92) as [-> | N2].
  { destruct (run_ascii_inv _ 92 _ _ ltac:(lia) R) as [-> R1]. clear R.
    destruct r as [|e r1]; [discriminate|].
    destruct (N.eqb_spec e 117) as [-> | N3].
    - destruct (run_ascii_inv _ 117 _ _ ltac:(lia) R1) as [_ R2]. clear R1.
      destruct r1 as [|h1 [|h2 [|h3 [|h4 r2]]]]; try discriminate.
      destruct (hex4 h1 h2 h3 h4) as [cp|] eqn:Hx; [|discriminate].
      destruct (hex4_ascii _ _ _ _ _ Hx) as (A1 & A2 & A3 & A4). pose proof (hex4_range _ _ _ _ _ Hx) as Rg.
      destruct (run_ascii_inv _ _ _ _ A1 R2) as [_ R3]. destruct (run_ascii_inv _ _ _ _ A2 R3) as [_ R4].
      destruct (run_ascii_inv _ _ _ _ A3 R4) as [_ R5]. destruct (run_ascii_inv _ _ _ _ A4 R5) as [_ R6]. clear R2 R3 R4 R5.
      destruct ((55296 <=? cp) && (cp <=? 56319)) eqn:Hi.
      + (* high surrogate: strict mode accepts only a pair *)
        destruct r2 as [|q1 [|q2 [|g1 [|g2 [|g3 [|g4 r3]]]]]]; try discriminate.
        destruct ((q1 =? 92) && (q2 =? 117)) eqn:QQ; [|discriminate].
        apply andb_true_iff in QQ. destruct QQ as [Q1 Q2]. apply N.eqb_eq in Q1. apply N.eqb_eq in Q2. subst q1 q2.
        destruct (hex4 g1 g2 g3 g4) as [lo|] eqn:Hy; [|discriminate].
        destruct ((56320 <=? lo) && (lo <=? 57343)) eqn:Lo; [|discriminate].
        destruct (hex4_ascii _ _ _ _ _ Hy) as (B1 & B2 & B3 & B4).
        destruct (run_ascii_inv _ 92 _ _ ltac:(lia) R6) as [_ R7]. destruct (run_ascii_inv _ 117 _ _ ltac:(lia) R7) as [_ R8].
        destruct (run_ascii_inv _ _ _ _ B1 R8) as [_ R9]. destruct (run_ascii_inv _ _ _ _ B2 R9) as [_ R10].
        destruct (run_ascii_inv _ _ _ _ B3 R10) as [_ R11]. destruct (run_ascii_inv _ _ _ _ B4 R11) as [_ R12].
        destruct (Ref.str_body true f r3) as [[[d' h'] rest']|] eqn:SB; [|discriminate]. injection H as <- _ <-.
        destruct (IH _ _ _ _ _ _ SB R12) as [D1 D2]. split; [|exact D2].
        rewrite run_app. rewrite run_encode; [exact D1|].
        apply andb_true_iff in Hi. destruct Hi as [I1 I2]. apply N.leb_le in I1. apply N.leb_le in I2.
        apply andb_true_iff in Lo. destruct Lo as [L1 L2]. apply N.leb_le in L1. apply N.leb_le in L2.
        right. lia.
      + destruct ((56320 <=? cp) && (cp <=? 57343)) eqn:Lo; [discriminate|].
        destruct (Ref.str_body true f r2) as [[[d' h'] rest']|] eqn:SB; [|discriminate]. injection H as <- _ <-.
        destruct (IH _ _ _ _ _ _ SB R6) as [D1 D2]. split; [|exact D2].
        rewrite run_app. rewrite run_encode; [exact D1|].
        unfold is_scalar. revert Hi Lo. brk; intros; try discriminate; lia.
    - destruct (Ref.simple_escape e) as [o|] eqn:SE; [|discriminate].
      destruct (simple_escape_ascii _ _ SE) as [Ae Ao].
      destruct (run_ascii_inv _ _ _ _ Ae R1) as [_ R2].
      destruct (Ref.str_body true f r1) as [[[d' h'] rest']|] eqn:SB; [|discriminate]. injection H as <- _ <-.
      destruct (IH _ _ _ _ _ _ SB R2) as [D1 D2]. split; [|exact D2]. rewrite run_ascii_cons by exact Ao. exact D1. }
  destruct (c <? 32); [discriminate|].
  destruct (Ref.str_body true f r) as [[[d' h'] rest']|] eqn:SB; [|discriminate]. injection H as <- _ <-.
  cbn [run] in R. destruct (step s c) as [s1|] eqn:St; [|discriminate].
  destruct (IH _ _ _ _ _ _ SB R) as [D1 D2]. split; [|exact D2]. cbn [run]. rewrite St. exact D1.
Qed.

(* a string literal inside valid UTF-8 input decodes to valid UTF-8: what from_utf8_unchecked relies on *)
Theorem decoded_string_is_valid_utf8 : forall fuel l d h rest,
  utf8_valid l = true -> Ref.str_body true fuel l = Some (d, h, rest) -> utf8_valid d = true /\ utf8_valid rest = true.
Proof.
  intros fuel l d h rest V H. rewrite utf8_valid_is_automaton in V.
  destruct (run S0 l) as [s'|] eqn:R; [|discriminate]. destruct s'; try discriminate.
  destruct (strict_decode_keeps_utf8 _ _ _ _ _ _ _ H R) as [D1 D2].
  rewrite !utf8_valid_is_automaton, D1, D2. split; reflexivity.
Qed.
Print Assumptions decoded_string_is_valid_utf8.
