From Coq Require Import List Arith Lia Bool.
Import ListNotations.

Section GetMany.
Variable key : Type.
Variable keq : forall a b : key, {a = b} + {a <> b}.

(* documents and paths (objects only in this spike; arrays are the same argument with indices) *)
Inductive jv := JS (id : nat) | JObj (ms : list (key * jv)).
Fixpoint assoc {A} (l : list (key * A)) (k : key) : option A :=
  match l with [] => None | (k', a) :: r => if keq k' k then Some a else assoc r k end.
Fixpoint lookup (v : jv) (p : list key) : option jv :=       (* Spec/Lookup.v: first member wins *)
  match p with [] => Some v | k :: p' => match v with JObj ms => match assoc ms k with Some x => lookup x p' | None => None end | JS _ => None end end.

(* PointerTree: every node carries the result slots of the paths that end there *)
Inductive trie := Node (order : list nat) (kids : list (key * trie)).
Fixpoint slots (t : trie) : list (nat * list key) :=
  match t with Node order kids =>
    map (fun p => (p, [])) order ++
    (fix go (l : list (key * trie)) := match l with [] => [] | (k, c) :: r => map (fun s => (fst s, k :: snd s)) (slots c) ++ go r end) kids end.
Definition kslots := (fix go (l : list (key * trie)) := match l with [] => [] | (k, c) :: r => map (fun s => (fst s, k :: snd s)) (slots c) ++ go r end).

Definition outs := nat -> option jv.
Definition upd (o : outs) (p : nat) (v : option jv) : outs := fun q => if Nat.eqb q p then v else o q.

(* ---------- Model: Parser::get_many_rec / get_many_keys on the document tree ---------- *)
Fixpoint rec (fuel : nat) (t : trie) (v : jv) (out : outs) (remain : nat) : option (outs * nat) :=
  match fuel with O => None | S f =>
  if Nat.eqb remain 0 then Some (out, 0) else
  match t with Node order kids =>
    let r1 := match kids with
              | [] => Some (out, remain)                       (* PointerTreeInner::Empty: skip_one *)
              | _ => match v with
                     | JObj [] => None                         (* GetInEmptyObject *)
                     | JObj ms => loop f kids ms out remain
                     | JS _ => None                            (* type mismatch *)
                     end
              end in
    match r1 with
    | None => None
    | Some (out1, rem1) => Some (fold_left (fun o p => upd o p (Some v)) order out1, rem1 - length order)
    end end end
with loop (fuel : nat) (kids : list (key * trie)) (ms : list (key * jv)) (out : outs) (remain : nat) : option (outs * nat) :=
  match fuel with O => None | S f =>
  match ms with
  | [] => Some (out, remain)                                   (* reached the closing brace *)
  | (k, x) :: r =>
      match assoc kids k with
      | Some child => match rec f child x out remain with
                      | None => None
                      | Some (o', r') => if Nat.eqb r' 0 then Some (o', 0) (* all found: stop early *) else loop f kids r o' r' end
      | None => loop f kids r out remain
      end
  end end.

(* ---------- facts ---------- *)
Lemma assoc_in : forall A (l : list (key * A)) k a, assoc l k = Some a -> In (k, a) l.
Proof. induction l as [|[k' b] r IH]; intros k a H; cbn in H; [discriminate|]. destruct (keq k' k) as [->|]; [inversion H; now left|right; auto]. Qed.
Lemma assoc_nodup : forall A (l : list (key * A)) k a, NoDup (map fst l) -> In (k, a) l -> assoc l k = Some a.
Proof.
  induction l as [|[k' b] r IH]; intros k a N H; [contradiction|]. inversion N as [|? ? Hn Hr]; subst. cbn [assoc].
  destruct H as [H|H].
  - inversion H; subst. destruct (keq k k); [reflexivity|contradiction].
  - destruct (keq k' k) as [->|]; [exfalso; apply Hn, in_map_iff; exists (k, a); auto|]. now apply IH.
Qed.
Lemma kslots_in : forall kids k c s, In (k, c) kids -> In s (slots c) -> In (fst s, k :: snd s) (kslots kids).
Proof.
  induction kids as [|[k' c'] r IH]; intros k c s H Hs; [contradiction|]. cbn [kslots]. apply in_or_app. destruct H as [H|H].
  - inversion H; subst. left. apply in_map_iff. exists s. auto.
  - right. eapply IH; eauto.
Qed.
Lemma fold_upd : forall order (o : outs) v q, fold_left (fun o p => upd o p (Some v)) order o q = if existsb (Nat.eqb q) order then Some v else o q.
Proof.
  induction order as [|p r IH]; intros o v q; cbn [fold_left existsb]; [reflexivity|]. rewrite IH. unfold upd.
  destruct (existsb (Nat.eqb q) r); [now rewrite orb_true_r|]. rewrite orb_false_r. reflexivity.
Qed.

(* a document without duplicate names, at every level *)
Inductive dupfree : jv -> Prop :=
| df_s id : dupfree (JS id)
| df_o ms : NoDup (map fst ms) -> (forall k x, In (k, x) ms -> dupfree x) -> dupfree (JObj ms).

(* every slot is either untouched or holds exactly what single-path get finds for its path *)
Definition sound (t_slots : list (nat * list key)) (v : jv) (out out' : outs) : Prop :=
  forall q, out' q = out q \/ exists path, In (q, path) t_slots /\ out' q = lookup v path /\ out' q <> None.

Theorem get_many_sound : forall fuel,
  (forall t v out remain out' rem', dupfree v -> rec fuel t v out remain = Some (out', rem') -> sound (slots t) v out out') /\
  (forall kids ms0 ms out remain out' rem', dupfree (JObj ms0) -> (exists pre, ms0 = pre ++ ms) ->
      loop fuel kids ms out remain = Some (out', rem') -> sound (kslots kids) (JObj ms0) out out').
Proof.
  induction fuel as [|f [IHr IHl]]; [split; intros; discriminate|]. split.
  - intros t v out remain out' rem' Hd H. cbn [rec] in H.
    destruct (Nat.eqb remain 0); [inversion H; subst; intros q; now left|].
    destruct t as [order kids].
    assert (Hr1 : forall out1 rem1, (match kids with [] => Some (out, remain) | _ => match v with JObj [] => None | JObj ms => loop f kids ms out remain | JS _ => None end end) = Some (out1, rem1) ->
                  sound (kslots kids) v out out1).
    { intros out1 rem1 E. destruct kids as [|kc kr]; [inversion E; subst; intros q; now left|].
      destruct v as [id|ms]; [discriminate|]. destruct ms as [|m mr]; [discriminate|].
      eapply IHl; [exact Hd|exists []; reflexivity|exact E]. }
    destruct (match kids with [] => Some (out, remain) | _ => _ end) as [[out1 rem1]|] eqn:E; [|discriminate].
    inversion H; subst. specialize (Hr1 _ _ eq_refl). intros q. rewrite fold_upd.
    destruct (existsb (Nat.eqb q) order) eqn:Ex.
    + right. exists []. split; [|split; [reflexivity|discriminate]].
      cbn [slots]. apply in_or_app. left. apply existsb_exists in Ex. destruct Ex as (p & Hp & Eq). apply Nat.eqb_eq in Eq. subst. apply in_map_iff. exists p. auto.
    + destruct (Hr1 q) as [Hq|(path & Hin & Hv & Hn)]; [now left|]. right. exists path. split; [|split; assumption].
      cbn [slots]. apply in_or_app. now right.
  - intros kids ms0 ms out remain out' rem' Hd Hpre H. cbn [loop] in H.
    destruct ms as [|[k x] r]; [inversion H; subst; intros q; now left|].
    destruct Hpre as [pre Epre]. subst ms0.
    assert (Hsuf : exists pre', pre ++ (k, x) :: r = pre' ++ r) by (exists (pre ++ [(k, x)]); now rewrite <- app_assoc).
    inversion Hd as [|ms' Hnd Hkids E']; subst ms'.
    assert (Hin : In (k, x) (pre ++ (k, x) :: r)) by (apply in_or_app; right; now left).
    destruct (assoc kids k) as [child|] eqn:Ea.
    + destruct (rec f child x out remain) as [[o1 r1]|] eqn:Er; [|discriminate].
      pose proof (IHr child x out remain o1 r1 (Hkids k x Hin) Er) as S1.
      assert (Lift : sound (kslots kids) (JObj (pre ++ (k, x) :: r)) out o1).
      { intros q. destruct (S1 q) as [Hq|(path & Hp & Hv & Hn)]; [now left|]. right. exists (k :: path). split; [|split; [|exact Hn]].
        - apply (kslots_in kids k child (q, path)); [now apply assoc_in|exact Hp].
        - cbn [lookup]. rewrite (assoc_nodup _ _ k x Hnd Hin). exact Hv. }
      destruct (Nat.eqb r1 0); [inversion H; subst; exact Lift|].
      pose proof (IHl kids _ r o1 r1 out' rem' Hd Hsuf H) as S2.
      intros q. destruct (S2 q) as [Hq|Hq]; [|now right]. rewrite Hq. apply Lift.
    + eapply IHl; [exact Hd|exact Hsuf|exact H].
Qed.
End GetMany.
Print Assumptions get_many_sound.
