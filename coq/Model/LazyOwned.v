(* Model/LazyOwned.v -- an owned lazy container after its one-level load (lazyvalue/owned.rs:
   LazyRaw::load -> Parsed::LazyArray / LazyObject): a list of children that are raw texts or
   loaded containers; the three mutations the API offers on an element, and the frame property:
   every other element is untouched. *)
From Coq Require Import List Arith Lia.
Import ListNotations.

Section Frame.
Variable A : Type.
Fixpoint replace (i : nat) (x : A) (l : list A) : list A :=
  match l, i with
  | [], _ => []
  | _ :: r, O => x :: r
  | y :: r, S j => y :: replace j x r
  end.
Definition push (x : A) (l : list A) : list A := l ++ [x].

Lemma replace_length : forall i x l, length (replace i x l) = length l.
Proof. induction i as [|i IH]; intros x [|y r]; cbn [replace length]; try reflexivity. f_equal. apply IH. Qed.
Theorem replace_frame : forall i j x l, j <> i -> nth_error (replace i x l) j = nth_error l j.
Proof.
  induction i as [|i IH]; intros j x [|y r] NE; cbn [replace]; try reflexivity.
  - destruct j as [|j]; [congruence | reflexivity].
  - destruct j as [|j]; [reflexivity | cbn [nth_error]; apply IH; congruence].
Qed.
Theorem replace_hit : forall i x l, i < length l -> nth_error (replace i x l) i = Some x.
Proof.
  induction i as [|i IH]; intros x [|y r] H; cbn [replace length] in *; try lia; [reflexivity|].
  cbn [nth_error]. apply IH. lia.
Qed.
Theorem push_frame : forall j x l, j < length l -> nth_error (push x l) j = nth_error l j.
Proof. intros j x l H. unfold push. apply nth_error_app1. exact H. Qed.
Theorem push_hit : forall x l, nth_error (push x l) (length l) = Some x.
Proof. intros x l. unfold push. rewrite nth_error_app2 by lia. rewrite Nat.sub_diag. reflexivity. Qed.
End Frame.
