From Coq Require Import List NArith Arith Lia Bool.
From SonicV Require Import Base.Blocks.
Import ListNotations.

Section Fmt.
(* NEED_ESCAPED / escaped_mask as one per-byte predicate, QUOTE_TAB as a per-byte expansion
   (both come from Gen/Tables.v in the real development and are related to the spec by a 256-entry sweep) *)
Variable need : N -> bool.
Variable quote : N -> list N.

Definition esc1 (c : N) : list N := if need c then quote c else [c].
Definition spec_escape (s : list N) : list N := flat_map esc1 s.

(* escape_unchecked: emit the expansion of s[i], advance, repeat while bytes remain and NEED_ESCAPED[s[i]] *)
Fixpoint esc_run (l : list N) : list N * list N :=
  match l with
  | c :: r => if need c then let (o, rest) := esc_run r in (quote c ++ o, rest) else ([], l)
  | [] => ([], [])
  end.

(* format_string body: 32-byte blocks while >= 32 remain, then one masked partial block at a time *)
Fixpoint fmt (fuel : nat) (s : list N) : list N :=
  match fuel with O => [] | S f =>
      let full := 32 <=? length s in
      let blk := if full then firstn 32 s else s in
      match find_first need blk with
      | None => blk ++ (if full then fmt f (skipn 32 s) else [])
      | Some cn => firstn cn s ++ (let (o, rest) := esc_run (skipn cn s) in o ++ fmt f rest)
      end
  end.

Lemma ff_none : forall l, find_first need l = None -> spec_escape l = l.
Proof.
  induction l as [|c r IH]; cbn [find_first]; intros H; [reflexivity|].
  destruct (need c) eqn:Hc; [discriminate|]. destruct (find_first need r); [discriminate|].
  unfold spec_escape in *. cbn [flat_map]. unfold esc1 at 1. rewrite Hc. cbn. now rewrite IH.
Qed.

Lemma ff_some : forall l cn, find_first need l = Some cn ->
  spec_escape (firstn cn l) = firstn cn l /\ (exists c r, skipn cn l = c :: r /\ need c = true) /\ cn < length l.
Proof.
  induction l as [|c r IH]; cbn [find_first]; intros cn H; [discriminate|].
  destruct (need c) eqn:Hc.
  - inversion H; subst. cbn. repeat split; [eexists _, _; eauto | lia].
  - destruct (find_first need r) as [k|] eqn:Hk; [|discriminate]. inversion H; subst.
    destruct (IH k eq_refl) as (A & B & C). cbn [firstn skipn length]. repeat split; [|exact B|lia].
    unfold spec_escape in *. cbn [flat_map]. unfold esc1 at 1. rewrite Hc. cbn. now rewrite A.
Qed.

Lemma esc_run_spec : forall l o rest, esc_run l = (o, rest) ->
  spec_escape l = o ++ spec_escape rest /\ length rest <= length l.
Proof.
  induction l as [|c r IH]; cbn [esc_run]; intros o rest H.
  - inversion H; subst. split; [reflexivity|lia].
  - destruct (need c) eqn:Hc.
    + destruct (esc_run r) as [o' rest'] eqn:Hr. inversion H; subst. destruct (IH _ _ eq_refl) as [A B].
      split; [|cbn; lia]. unfold spec_escape in *. cbn [flat_map]. unfold esc1 at 1. rewrite Hc, A. now rewrite app_assoc.
    + inversion H; subst. split; [reflexivity|lia].
Qed.

Lemma spec_app : forall a b, spec_escape (a ++ b) = spec_escape a ++ spec_escape b.
Proof. intros. unfold spec_escape. apply flat_map_app. Qed.

Lemma find_first_firstn : forall n l cn, find_first need (firstn n l) = Some cn -> find_first need l = Some cn.
Proof.
  induction n as [|n IH]; intros [|c r] cn H; cbn in *; try discriminate.
  destruct (need c); [exact H|]. destruct (find_first need (firstn n r)) as [k|] eqn:Hk; [|discriminate].
  rewrite (IH _ _ Hk). exact H.
Qed.

Theorem fmt_correct : forall fuel s, length s < fuel -> fmt fuel s = spec_escape s.
Proof.
  induction fuel as [|f IH]; intros s Hf; [lia|]. cbn [fmt].
  destruct (Nat.leb_spec 32 (length s)) as [Hfull|Htail]; cbv zeta.
  - destruct (find_first need (firstn 32 s)) as [cn|] eqn:Hff.
    + apply find_first_firstn in Hff. destruct (ff_some _ _ Hff) as (A & (c & r & Hsk & Hc) & Hlt).
      destruct (esc_run (skipn cn s)) as [o rest] eqn:Hr. destruct (esc_run_spec _ _ _ Hr) as [B Hlen].
      assert (Hrest : length rest < length s).
      { rewrite Hsk in Hr. cbn [esc_run] in Hr. rewrite Hc in Hr. destruct (esc_run r) as [o' rest'] eqn:Hr'. inversion Hr; subst.
        destruct (esc_run_spec _ _ _ Hr') as [_ L]. assert (length (skipn cn s) = S (length r)) by now rewrite Hsk. rewrite skipn_length in H. lia. }
      rewrite IH by lia. rewrite <- B, <- A, <- spec_app, firstn_skipn. reflexivity.
    + rewrite IH by (rewrite skipn_length; lia). rewrite <- (ff_none _ Hff) at 1. rewrite <- spec_app, firstn_skipn. reflexivity.
  - destruct (find_first need s) as [cn|] eqn:Hff.
    + destruct (ff_some _ _ Hff) as (A & (c & r & Hsk & Hc) & Hlt).
      destruct (esc_run (skipn cn s)) as [o rest] eqn:Hr. destruct (esc_run_spec _ _ _ Hr) as [B Hlen].
      assert (Hrest : length rest < length s).
      { rewrite Hsk in Hr. cbn [esc_run] in Hr. rewrite Hc in Hr. destruct (esc_run r) as [o' rest'] eqn:Hr'. inversion Hr; subst.
        destruct (esc_run_spec _ _ _ Hr') as [_ L]. assert (length (skipn cn s) = S (length r)) by now rewrite Hsk. rewrite skipn_length in H. lia. }
      rewrite IH by lia. rewrite <- B, <- A, <- spec_app, firstn_skipn. reflexivity.
    + rewrite app_nil_r. symmetry. now apply ff_none.
Qed.
End Fmt.
Print Assumptions fmt_correct.
