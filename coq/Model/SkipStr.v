From Coq Require Import List NArith Arith Lia Bool.
Import ListNotations.
Open Scope N_scope.

(* ---------- specification: RFC 8259 string body (bytes between the quotes) ---------- *)
Definition is_hex (c : N) : bool := ((48 <=? c) && (c <=? 57)) || ((65 <=? c) && (c <=? 70)) || ((97 <=? c) && (c <=? 102)).
Definition simple_escape (c : N) : bool :=   (* quote backslash slash b f n r t *)
  (c =? 34) || (c =? 92) || (c =? 47) || (c =? 98) || (c =? 102) || (c =? 110) || (c =? 114) || (c =? 116).
Inductive str_body : list N -> Prop :=
| sb_nil : str_body []
| sb_char c r : 32 <= c -> c <> 34 -> c <> 92 -> str_body r -> str_body (c :: r)
| sb_esc e r : simple_escape e = true -> str_body r -> str_body (92 :: e :: r)
| sb_u h1 h2 h3 h4 r : is_hex h1 = true -> is_hex h2 = true -> is_hex h3 = true -> is_hex h4 = true ->
    str_body r -> str_body (92 :: 117 :: h1 :: h2 :: h3 :: h4 :: r).

(* ---------- model: scalar loop of Parser::skip_string + skip_escaped_chars ----------
   [strict = false] is the code as it is today (the four bytes after \u are not looked at),
   [strict = true] is the repaired code. The reader is positioned after the opening quote. *)
Fixpoint skip_str (strict : bool) (fuel : nat) (l : list N) : option (list N) :=
  match fuel with O => None | S f =>
  match l with
  | [] => None                                              (* EofWhileParsing *)
  | c :: r =>
    if c =? 92 then
      match r with
      | [] => None
      | e :: r' =>
        if e =? 117 then
          if (6 <=? length r)%nat then                      (* remain() >= 6, counted from 'u' *)
            match r' with
            | h1 :: h2 :: h3 :: h4 :: r'' =>
                if strict && negb (is_hex h1 && is_hex h2 && is_hex h3 && is_hex h4) then None
                else skip_str strict f r''
            | _ => None
            end
          else None
        else if simple_escape e then skip_str strict f r' else None   (* ESCAPED_TAB[e] != 0 *)
      end
    else if c =? 34 then Some r
    else if c <=? 31 then None                              (* ControlCharacterWhileParsingString *)
    else skip_str strict f r
  end end.

Lemma simple_escape_not_u : forall e, simple_escape e = true -> (e =? 117) = false.
Proof. intros e H. unfold simple_escape in H. repeat rewrite orb_true_iff in H. rewrite ?N.eqb_eq in H. apply N.eqb_neq. lia. Qed.

(* completeness: every RFC string (followed by anything) is skipped exactly *)
Theorem skip_complete : forall strict body rest fuel, str_body body -> (length body + 1 < fuel)%nat ->
  skip_str strict fuel (body ++ 34 :: rest) = Some rest.
Proof.
  intros strict body rest fuel H. revert fuel. induction H as [|c r H1 H2 H3 Hb IH|e r He Hb IH|h1 h2 h3 h4 r A B C D Hb IH]; intros fuel Hf.
  - destruct fuel; [lia|]. cbn. reflexivity.
  - destruct fuel; [cbn in Hf; lia|]. cbn [app skip_str].
    destruct (N.eqb_spec c 92); [contradiction|]. destruct (N.eqb_spec c 34); [contradiction|].
    destruct (N.leb_spec c 31); [lia|]. apply IH. cbn in Hf. lia.
  - destruct fuel; [cbn in Hf; lia|]. cbn [app skip_str]. rewrite N.eqb_refl.
    rewrite (simple_escape_not_u e He), He. apply IH. cbn in Hf. lia.
  - destruct fuel; [cbn in Hf; lia|]. cbn [app skip_str]. rewrite N.eqb_refl. change (117 =? 117) with true. cbv iota.
    match goal with |- context [Nat.leb 6 ?n] => replace (Nat.leb 6 n) with true
      by (symmetry; apply Nat.leb_le; cbn [length]; rewrite app_length; cbn; lia) end.
    rewrite A, B, C, D. cbn [andb negb]. rewrite andb_false_r. apply IH. cbn in Hf. lia.
Qed.

(* soundness of the repaired skipper: what it skips is an RFC string body followed by a quote *)
Theorem skip_sound_strict : forall fuel l rest, skip_str true fuel l = Some rest ->
  exists body, l = body ++ 34 :: rest /\ str_body body.
Proof.
  induction fuel as [|f IH]; intros l rest H; [discriminate|]. cbn [skip_str] in H.
  destruct l as [|c r]; [discriminate|].
  destruct (N.eqb_spec c 92) as [->|Hc92].
  - destruct r as [|e r']; [discriminate|].
    destruct (N.eqb_spec e 117) as [->|He].
    + match type of H with (if ?c then _ else _) = _ => destruct c; [|discriminate] end.
      destruct r' as [|h1 [|h2 [|h3 [|h4 r'']]]]; try discriminate.
      destruct (is_hex h1 && is_hex h2 && is_hex h3 && is_hex h4) eqn:Hh; cbn [andb negb] in H; [|discriminate].
      repeat rewrite andb_true_iff in Hh. destruct Hh as (((A & B) & C) & D).
      destruct (IH _ _ H) as (body & -> & Hb). exists (92 :: 117 :: h1 :: h2 :: h3 :: h4 :: body). split; [reflexivity|now constructor].
    + destruct (simple_escape e) eqn:Hs; [|discriminate].
      destruct (IH _ _ H) as (body & -> & Hb). exists (92 :: e :: body). split; [reflexivity|now constructor].
  - destruct (N.eqb_spec c 34) as [->|Hc34].
    + inversion H; subst. exists []. split; [reflexivity|constructor].
    + destruct (N.leb_spec c 31); [discriminate|].
      destruct (IH _ _ H) as (body & -> & Hb). exists (c :: body). split; [reflexivity|]. constructor; auto; lia.
Qed.

(* the code as it is today: accepts a body that is not an RFC string body *)
Definition witness : list N := [92; 117; 90; 90; 90; 90].        (* \uZZZZ *)
Lemma witness_not_body : ~ str_body witness.
Proof. intros H. inversion H; subst; try (cbn in *; discriminate); try lia. Qed.
Theorem skip_sound_refuted : exists body rest, skip_str false 100 (body ++ 34 :: rest) = Some rest /\ ~ str_body body.
Proof. exists witness, []. split; [reflexivity|exact witness_not_body]. Qed.
Print Assumptions skip_sound_strict.
Print Assumptions skip_complete.
