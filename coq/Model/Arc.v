From Coq Require Import List Arith Lia Bool.
Import ListNotations.

(* ---------- Model: manual reference counting of parsed arenas (value/node.rs) ----------
   An arena has a strong count (Arc<Shared>) and a freed flag. A handle is a live root-kind Value
   (or the deserializer's own Arc): it points into one arena, or into none (static / owned scalar). *)
Record st := { count : nat -> nat; freed : nat -> bool; nxt : nat; handles : list (option nat) }.

Definition upd {A} (f : nat -> A) (a : nat) (v : A) : nat -> A := fun b => if Nat.eqb b a then v else f b.
Fixpoint set_nth (l : list (option nat)) (i : nat) (v : option nat) : list (option nat) :=
  match l, i with [], _ => [] | _ :: r, 0 => v :: r | x :: r, S j => x :: set_nth r j v end.

Inductive op :=
| Parse                                 (* new arena; the returned Value holds the only count *)
| Clone (i : nat)                       (* clone of a value / of a subtree: pack_shared increments *)
| Promote (i n : nat)                   (* to_mut: n children become root-kind values (+n), the old root handle is dropped (-1) *)
| Drop (i : nat).                       (* Arc::from_raw + drop: decrement, free at zero *)

Inductive res := Next (s : st) | UseAfterFree | DoubleFree.

Definition dec (s : st) (a : nat) (hs : list (option nat)) : res :=
  if freed s a then DoubleFree
  else match count s a with
       | 0 => DoubleFree
       | 1 => Next {| count := upd (count s) a 0; freed := upd (freed s) a true; nxt := nxt s; handles := hs |}
       | S c => Next {| count := upd (count s) a c; freed := freed s; nxt := nxt s; handles := hs |}
       end.

Definition step (s : st) (o : op) : res :=
  match o with
  | Parse => Next {| count := upd (count s) (nxt s) 1; freed := freed s; nxt := S (nxt s); handles := handles s ++ [Some (nxt s)] |}
  | Clone i =>
      match nth_error (handles s) i with
      | Some (Some a) => if freed s a then UseAfterFree
                         else Next {| count := upd (count s) a (S (count s a)); freed := freed s; nxt := nxt s; handles := handles s ++ [Some a] |}
      | _ => Next s end
  | Promote i n =>
      match nth_error (handles s) i with
      | Some (Some a) => if freed s a then UseAfterFree
                         else dec {| count := upd (count s) a (n + count s a); freed := freed s; nxt := nxt s; handles := handles s |} a
                                  (set_nth (handles s) i None ++ repeat (Some a) n)
      | _ => Next s end
  | Drop i =>
      match nth_error (handles s) i with
      | Some (Some a) => dec s a (set_nth (handles s) i None)
      | _ => Next s end
  end.

Fixpoint refs (hs : list (option nat)) (a : nat) : nat :=
  match hs with [] => 0 | Some b :: r => (if Nat.eqb b a then 1 else 0) + refs r a | None :: r => refs r a end.

Record Inv (s : st) : Prop := {
  i_live  : forall a, freed s a = false -> count s a = refs (handles s) a;         (* the count is the number of live handles *)
  i_freed : forall a, freed s a = true -> refs (handles s) a = 0 /\ count s a = 0; (* nothing points into freed memory *)
  i_fresh : forall a, nxt s <= a -> refs (handles s) a = 0 /\ count s a = 0 /\ freed s a = false;
  i_noleak: forall a, a < nxt s -> count s a = 0 -> freed s a = true                (* an arena nobody holds has been released *)
}.

Lemma refs_app : forall h1 h2 a, refs (h1 ++ h2) a = refs h1 a + refs h2 a.
Proof. induction h1 as [|[b|] r IH]; intros; cbn [app refs]; rewrite ?IH; lia. Qed.
Lemma refs_repeat : forall n a b, refs (repeat (Some a) n) b = if Nat.eqb a b then n else 0.
Proof. induction n as [|n IH]; intros; cbn [repeat refs]; [destruct (Nat.eqb a b); reflexivity|]. rewrite IH. destruct (Nat.eqb a b); lia. Qed.
Lemma refs_set_none : forall hs i a b, nth_error hs i = Some (Some a) ->
  refs (set_nth hs i None) b + (if Nat.eqb a b then 1 else 0) = refs hs b.
Proof.
  induction hs as [|x r IH]; intros [|i] a b H; cbn in H; try discriminate.
  - inversion H; subst. cbn [set_nth refs]. lia.
  - cbn [set_nth]. destruct x as [c|]; cbn [refs]; rewrite <- (IH i a b H); lia.
Qed.
Lemma refs_pos : forall hs i a, nth_error hs i = Some (Some a) -> 1 <= refs hs a.
Proof. intros. pose proof (refs_set_none hs i a a H). rewrite Nat.eqb_refl in H0. lia. Qed.

Lemma init_inv : Inv {| count := fun _ => 0; freed := fun _ => false; nxt := 0; handles := [] |}.
Proof. split; cbn; intros; auto; lia. Qed.

Lemma dec_ok : forall s a hs, freed s a = false -> 1 <= count s a ->
  exists s', dec s a hs = Next s' /\ handles s' = hs /\ nxt s' = nxt s /\
    count s' a = count s a - 1 /\ (forall b, b <> a -> count s' b = count s b /\ freed s' b = freed s b) /\
    freed s' a = Nat.eqb (count s a) 1.
Proof.
  intros s a hs Hf Hc. unfold dec. rewrite Hf. destruct (count s a) as [|[|c]] eqn:E; [lia| |].
  - eexists. split; [reflexivity|]. cbn [handles nxt count freed]. unfold upd. rewrite Nat.eqb_refl.
    repeat split; auto; try lia; try (match goal with H : ?q <> a |- _ => destruct (Nat.eqb_spec q a); [contradiction|reflexivity] end).
  - eexists. split; [reflexivity|]. cbn [handles nxt count freed]. unfold upd. rewrite Nat.eqb_refl.
    repeat split; auto; try lia; try (match goal with H : ?q <> a |- _ => destruct (Nat.eqb_spec q a); [contradiction|reflexivity] end).
Qed.

Theorem step_safe : forall s o, Inv s -> exists s', step s o = Next s' /\ Inv s'.
Proof.
  intros s o I. destruct o as [|i|i n|i]; cbn [step].
  - (* Parse *) eexists. split; [reflexivity|]. destruct (i_fresh s I (nxt s) (le_n _)) as (F1 & F2 & F3).
    split; cbn [count freed nxt handles]; unfold upd; intros a.
    + intros Hf. rewrite refs_app. cbn [refs]. destruct (Nat.eqb_spec a (nxt s)) as [->|Hne].
      * rewrite F1, Nat.eqb_refl. lia.
      * rewrite (i_live s I a Hf). destruct (Nat.eqb_spec (nxt s) a); [congruence|lia].
    + intros Hf. destruct (i_freed s I a Hf) as [R C]. rewrite refs_app. cbn [refs].
      destruct (Nat.eqb_spec a (nxt s)) as [->|Hne]; [congruence|]. destruct (Nat.eqb_spec (nxt s) a); [congruence|]. split; lia.
    + intros Ha. destruct (i_fresh s I a ltac:(lia)) as (R & C & F). rewrite refs_app. cbn [refs].
      destruct (Nat.eqb_spec a (nxt s)); [lia|]. destruct (Nat.eqb_spec (nxt s) a); [lia|]. repeat split; auto; lia.
    + intros Ha Hc. destruct (Nat.eqb_spec a (nxt s)); [discriminate|]. apply (i_noleak s I); [lia|exact Hc].
  - (* Clone *) destruct (nth_error (handles s) i) as [[a|]|] eqn:Hi; try (exists s; split; [reflexivity|exact I]).
    destruct (freed s a) eqn:Hf; [destruct (i_freed s I a Hf) as [R _]; pose proof (refs_pos _ _ _ Hi); lia|].
    eexists. split; [reflexivity|]. split; cbn [count freed nxt handles]; unfold upd; intros b.
    + intros Hb. rewrite refs_app. cbn [refs]. destruct (Nat.eqb_spec b a) as [->|Hne].
      * rewrite Nat.eqb_refl, (i_live s I a Hf). lia.
      * rewrite (i_live s I b Hb). destruct (Nat.eqb_spec a b); [congruence|lia].
    + intros Hb. destruct (i_freed s I b Hb) as [R C]. rewrite refs_app. cbn [refs].
      destruct (Nat.eqb_spec b a) as [->|Hne]; [congruence|]. destruct (Nat.eqb_spec a b); [congruence|]. split; lia.
    + intros Hb. destruct (i_fresh s I b Hb) as (R & C & F). rewrite refs_app. cbn [refs].
      destruct (Nat.eqb_spec b a) as [->|Hne]; [pose proof (refs_pos _ _ _ Hi); lia|]. destruct (Nat.eqb_spec a b); [congruence|]. repeat split; auto; lia.
    + intros Hb Hc. destruct (Nat.eqb_spec b a); [discriminate|]. apply (i_noleak s I); assumption.
  - (* Promote *) destruct (nth_error (handles s) i) as [[a|]|] eqn:Hi; try (exists s; split; [reflexivity|exact I]).
    destruct (freed s a) eqn:Hf; [destruct (i_freed s I a Hf) as [R _]; pose proof (refs_pos _ _ _ Hi); lia|].
    pose proof (refs_pos _ _ _ Hi) as Hpos. pose proof (i_live s I a Hf) as Hcnt.
    set (s1 := {| count := upd (count s) a (n + count s a); freed := freed s; nxt := nxt s; handles := handles s |}).
    destruct (dec_ok s1 a (set_nth (handles s) i None ++ repeat (Some a) n)) as (s' & E & Hh & Hn & Hca & Hoth & Hfa).
    { exact Hf. } { cbn. unfold upd. rewrite Nat.eqb_refl. lia. }
    exists s'. split; [exact E|]. assert (C1 : count s1 a = n + count s a) by (cbn; unfold upd; now rewrite Nat.eqb_refl).
    split; rewrite ?Hh, ?Hn; intros b.
    + intros Hb. rewrite refs_app, refs_repeat. pose proof (refs_set_none _ _ _ b Hi) as RS. destruct (Nat.eqb_spec b a) as [->|Hne].
      * rewrite Nat.eqb_refl in *. rewrite Hca, C1. lia.
      * destruct (Hoth b Hne) as [Cb Fb]. rewrite Cb. cbn [s1 count]. unfold upd. destruct (Nat.eqb_spec b a); [contradiction|].
        destruct (Nat.eqb_spec a b); [congruence|]. rewrite Fb in Hb. cbn in Hb. rewrite (i_live s I b Hb). lia.
    + intros Hb. rewrite refs_app, refs_repeat. pose proof (refs_set_none _ _ _ b Hi) as RS. destruct (Nat.eqb_spec b a) as [->|Hne].
      * rewrite Nat.eqb_refl in *. rewrite Hfa, C1 in Hb. apply Nat.eqb_eq in Hb. rewrite Hca, C1. split; lia.
      * destruct (Hoth b Hne) as [Cb Fb]. rewrite Fb in Hb. cbn in Hb. destruct (i_freed s I b Hb) as [R C].
        destruct (Nat.eqb_spec a b); [congruence|]. rewrite Cb. cbn [s1 count]. unfold upd. destruct (Nat.eqb_spec b a); [contradiction|]. split; lia.
    + intros Hb. cbn [s1 nxt] in Hb. destruct (i_fresh s I b Hb) as (R & C & F).
      assert (b <> a) by (intro; subst; lia). destruct (Hoth b H) as [Cb Fb]. rewrite refs_app, refs_repeat.
      pose proof (refs_set_none _ _ _ b Hi) as RS. destruct (Nat.eqb_spec a b); [congruence|].
      rewrite Cb, Fb. cbn [s1 count freed]. unfold upd. destruct (Nat.eqb_spec b a); [contradiction|]. repeat split; auto; lia.
    + intros Hb Hc. cbn [s1 nxt] in Hb. destruct (Nat.eq_dec b a) as [->|Hne].
      * rewrite Hfa, C1. apply Nat.eqb_eq. rewrite Hca, C1 in Hc. lia.
      * destruct (Hoth b Hne) as [Cb Fb]. rewrite Fb. cbn [s1 freed]. apply (i_noleak s I b Hb).
        rewrite Cb in Hc. cbn [s1 count] in Hc. unfold upd in Hc. destruct (Nat.eqb_spec b a); [contradiction|exact Hc].
  - (* Drop *) destruct (nth_error (handles s) i) as [[a|]|] eqn:Hi; try (exists s; split; [reflexivity|exact I]).
    destruct (freed s a) eqn:Hf; [destruct (i_freed s I a Hf) as [R _]; pose proof (refs_pos _ _ _ Hi); lia|].
    pose proof (refs_pos _ _ _ Hi) as Hpos. pose proof (i_live s I a Hf) as Hcnt.
    destruct (dec_ok s a (set_nth (handles s) i None)) as (s' & E & Hh & Hn & Hca & Hoth & Hfa); [exact Hf|lia|].
    exists s'. split; [exact E|]. split; rewrite ?Hh, ?Hn; intros b.
    + intros Hb. pose proof (refs_set_none _ _ _ b Hi) as RS. destruct (Nat.eqb_spec b a) as [->|Hne].
      * rewrite Nat.eqb_refl in RS. rewrite Hca. lia.
      * destruct (Hoth b Hne) as [Cb Fb]. destruct (Nat.eqb_spec a b); [congruence|]. rewrite Cb. rewrite Fb in Hb. rewrite (i_live s I b Hb). lia.
    + intros Hb. pose proof (refs_set_none _ _ _ b Hi) as RS. destruct (Nat.eqb_spec b a) as [->|Hne].
      * rewrite Nat.eqb_refl in RS. rewrite Hfa in Hb. apply Nat.eqb_eq in Hb. rewrite Hca. split; lia.
      * destruct (Hoth b Hne) as [Cb Fb]. rewrite Fb in Hb. destruct (i_freed s I b Hb) as [R C]. destruct (Nat.eqb_spec a b); [congruence|]. rewrite Cb. split; lia.
    + intros Hb. destruct (i_fresh s I b Hb) as (R & C & F). assert (b <> a) by (intro; subst; lia). destruct (Hoth b H) as [Cb Fb].
      pose proof (refs_set_none _ _ _ b Hi) as RS. destruct (Nat.eqb_spec a b); [congruence|]. rewrite Cb, Fb. repeat split; auto; lia.
    + intros Hb Hc. destruct (Nat.eq_dec b a) as [->|Hne].
      * rewrite Hfa. apply Nat.eqb_eq. rewrite Hca in Hc. lia.
      * destruct (Hoth b Hne) as [Cb Fb]. rewrite Fb. apply (i_noleak s I b Hb). now rewrite <- Cb.
Qed.

(* every history: never a use-after-free or a double free; counts are handle counts; unheld arenas are released *)
Fixpoint runh (s : st) (os : list op) : res := match os with [] => Next s | o :: r => match step s o with Next s' => runh s' r | e => e end end.
Theorem history_safe : forall os s, Inv s -> exists s', runh s os = Next s' /\ Inv s'.
Proof. induction os as [|o r IH]; intros s I; cbn [runh]; [eauto|]. destruct (step_safe s o I) as (s' & E & I'). rewrite E. now apply IH. Qed.
Print Assumptions history_safe.
