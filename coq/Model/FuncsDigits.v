(* Model/FuncsDigits.v -- is_8digits of sonic-number/src/common.rs as translated (T2): for the little-endian
   word of any eight bytes it answers "are all eight ASCII digits", by induction over the bytes: a digit byte
   neither carries into nor borrows from its neighbour, and the lowest non-digit byte sets a high bit. *)
From Coq Require Import ZArith List Bool Lia.
From SonicV Require Import Base.RustInt Gen.Funcs Model.FuncsEsc Model.FuncsMisc.
Import ListNotations.
Open Scope Z_scope.

Fixpoint le_word (l : list Z) : Z := match l with [] => 0 | b :: t => b + 256 * le_word t end.
Fixpoint rep (c : Z) (n : nat) : Z := match n with O => 0 | S k => c + 256 * rep c k end.
Definition is_digit (b : Z) : bool := (48 <=? b) && (b <=? 57).

Lemma testbit_split8 : forall x y i, 0 <= x < 256 -> 0 <= i ->
  Z.testbit (x + 256 * y) i = if i <? 8 then Z.testbit x i else Z.testbit y (i - 8).
Proof.
  intros x y i Hx Hi. replace (x + 256 * y) with (x + y * 2 ^ 8) by (change (2 ^ 8) with 256; lia).
  rewrite <- (lor_disjoint x y 8) by (change (2 ^ 8) with 256; lia).
  rewrite Z.lor_spec. destruct (Z.ltb_spec i 8).
  - rewrite Z.mul_pow2_bits_low by lia. apply orb_false_r.
  - rewrite (testbit_above 8 x i) by (change (2 ^ 8) with 256; lia). rewrite Z.mul_pow2_bits by lia. reflexivity.
Qed.

Lemma land_lor_split8 : forall a0 ra b0 rb m0 rm, 0 <= a0 < 256 -> 0 <= b0 < 256 -> 0 <= m0 < 256 ->
  Z.land (Z.lor (a0 + 256 * ra) (b0 + 256 * rb)) (m0 + 256 * rm) = Z.land (Z.lor a0 b0) m0 + 256 * Z.land (Z.lor ra rb) rm.
Proof.
  intros a0 ra b0 rb m0 rm Ha Hb Hm.
  assert (R : 0 <= Z.land (Z.lor a0 b0) m0 < 256).
  { change 256 with (2 ^ 8). apply land_range; [lia|change (2 ^ 8) with 256; lia]. }
  apply Z.bits_inj'. intros i Hi.
  rewrite Z.land_spec, Z.lor_spec, !testbit_split8 by lia.
  destruct (i <? 8); rewrite Z.land_spec, Z.lor_spec; reflexivity.
Qed.

(* one byte: a digit neither carries nor borrows and shows no high bit; a non-digit shows one *)
Definition byte_ok (x : Z) : bool :=
  if is_digit x then ((x + 70) / 256 =? 0) && (48 <=? x) && (Z.land (Z.lor ((x + 70) mod 256) ((x - 48) mod 256)) 128 =? 0)
  else negb (Z.land (Z.lor ((x + 70) mod 256) ((x - 48) mod 256)) 128 =? 0).
Lemma byte_sweep : forallb byte_ok (map Z.of_nat (seq 0 256)) = true.
Proof. vm_compute. reflexivity. Qed.
Lemma byte_fact : forall x, 0 <= x < 256 -> byte_ok x = true.
Proof.
  intros x H. apply (proj1 (forallb_forall _ _) byte_sweep). apply in_map_iff. exists (Z.to_nat x). split; [lia|]. apply in_seq. lia.
Qed.

Lemma mod_split : forall u v P', 0 < P' -> (u + 256 * v) mod (256 * P') = u mod 256 + 256 * ((v + u / 256) mod P').
Proof.
  intros u v P' HP. rewrite Z.rem_mul_r by lia.
  replace (u + 256 * v) with (u + v * 256) by lia. rewrite Z_mod_plus_full, Z.div_add by lia.
  f_equal. f_equal. f_equal. lia.
Qed.

Lemma rep_nonneg : forall c n, 0 <= c -> 0 <= rep c n.
Proof. intros c n Hc. induction n as [|k IH]; cbn [rep]; lia. Qed.

Lemma digits_ind : forall l, Forall (fun b => 0 <= b < 256) l ->
  let n := length l in
  (Z.land (Z.lor ((le_word l + rep 70 n) mod 256 ^ Z.of_nat n) ((le_word l - rep 48 n) mod 256 ^ Z.of_nat n)) (rep 128 n) =? 0)
  = forallb is_digit l.
Proof.
  induction l as [|x t IH]; intros HB; [reflexivity|].
  inversion HB as [|? ? Hx Ht]; subst. specialize (IH Ht). cbv zeta in IH |- *.
  cbn [length le_word rep forallb]. rewrite Nat2Z.inj_succ, Z.pow_succ_r by lia.
  set (k := length t) in *. set (P' := 256 ^ Z.of_nat k) in *.
  assert (HP : 0 < P') by (apply Z.pow_pos_nonneg; lia).
  replace (x + 256 * le_word t + (70 + 256 * rep 70 k)) with ((x + 70) + 256 * (le_word t + rep 70 k)) by lia.
  replace (x + 256 * le_word t - (48 + 256 * rep 48 k)) with ((x - 48) + 256 * (le_word t - rep 48 k)) by lia.
  rewrite !mod_split by exact HP.
  rewrite land_lor_split8 by (try (apply Z.mod_pos_bound; lia); lia).
  pose proof (byte_fact x Hx) as BF. unfold byte_ok in BF.
  set (low := Z.land (Z.lor ((x + 70) mod 256) ((x - 48) mod 256)) 128) in *.
  assert (Rlow : 0 <= low < 256).
  { unfold low. change 256 with (2 ^ 8). apply land_range; [lia|change (2 ^ 8) with 256; lia]. }
  destruct (is_digit x) eqn:D.
  - apply andb_true_iff in BF. destruct BF as [BF L0]. apply andb_true_iff in BF. destruct BF as [C0 X48].
    apply Z.eqb_eq in C0. apply Z.eqb_eq in L0. apply Z.leb_le in X48.
    assert (B0 : (x - 48) / 256 = 0) by (apply Z.div_small; lia).
    rewrite C0, B0, L0, !Z.add_0_r. cbn [andb]. rewrite <- IH.
    set (r := Z.land _ (rep 128 k)).
    assert (Rr : 0 <= r) by (unfold r; apply Z.land_nonneg; right; apply rep_nonneg; lia).
    destruct (Z.eqb_spec r 0) as [->|N]; [reflexivity|]. apply Z.eqb_neq. lia.
  - cbn [andb]. apply negb_true_iff in BF. apply Z.eqb_neq in BF.
    set (r := Z.land _ (rep 128 k)).
    assert (Rr : 0 <= r) by (unfold r; apply Z.land_nonneg; right; apply rep_nonneg; lia).
    apply Z.eqb_neq. lia.
Qed.

Theorem is_8digits_translated : forall l, length l = 8%nat -> Forall (fun b => 0 <= b < 256) l ->
  is_8digits (le_word l) = Some (forallb is_digit l).
Proof.
  intros l L HB. unfold is_8digits. f_equal. pose proof (digits_ind l HB) as D. cbv zeta in D. rewrite L in D.
  change (rep 70 8) with 5063812098665367110 in D. change (rep 48 8) with 3472328296227680304 in D.
  change (rep 128 8) with 9259542123273814144 in D. change (256 ^ Z.of_nat 8) with 18446744073709551616 in D. exact D.
Qed.
