From Coq Require Import List NArith Arith Lia Bool.
Import ListNotations.

(* ---------- Spec/Pos.v : line and column of a byte offset ---------- *)
Definition nl : N := 10%N.
Fixpoint count_nl (l : list N) : nat := match l with [] => 0 | c :: r => (if N.eqb c nl then 1 else 0) + count_nl r end.
(* bytes after the last newline of l *)
Fixpoint col_of (l : list N) (acc : nat) : nat := match l with [] => acc | c :: r => col_of r (if N.eqb c nl then 0 else S acc) end.
Definition pos_of (input : list N) (off : nat) : nat * nat :=
  let p := firstn off input in (1 + count_nl p, col_of p 0).

(* ---------- Model: reader.rs Position::from_index ---------- *)
Fixpoint from_index_loop (l : list N) (line col : nat) : nat * nat :=
  match l with [] => (line, col) | c :: r => if N.eqb c nl then from_index_loop r (S line) 0 else from_index_loop r line (S col) end.
Definition from_index (i : nat) (data : list N) : nat * nat := from_index_loop (firstn (Nat.min i (length data)) data) 1 0.

Lemma loop_spec : forall l line col, from_index_loop l line col = (line + count_nl l, col_of l col).
Proof.
  induction l as [|c r IH]; intros line col; cbn [from_index_loop count_nl col_of]; [f_equal; lia|].
  destruct (N.eqb c nl); rewrite IH; f_equal; lia.
Qed.
Theorem from_index_is_pos_of : forall i data, i <= length data -> from_index i data = pos_of data i.
Proof. intros i data H. unfold from_index, pos_of. rewrite Nat.min_l by lia. apply loop_spec. Qed.

(* ---------- Model: error.rs Error::syntax — the slice arithmetic, every partial operation checked ---------- *)
Inductive res (A : Type) := Ok (a : A) | Crash.
Arguments Ok {A}. Arguments Crash {A}.
Definition cont (b : N) : bool := N.eqb (N.land b 192) 128.            (* (b & 0b1100_0000) == 0b1000_0000 *)
Definition at_ (json : list N) (i : nat) : res N := match nth_error json i with Some b => Ok b | None => Crash end.   (* json[i] panics when out of range *)
Definition sub (a b : nat) : res nat := if b <=? a then Ok (a - b) else Crash.                                        (* usize subtraction *)

Fixpoint back (fuel : nat) (json : list N) (index start : nat) : res nat :=
  match fuel with O => Ok start | S f =>
    if 0 <? start then
      match sub index start with Crash => Crash | Ok d =>
        if d <=? 16 then match at_ json start with Crash => Crash | Ok b => if cont b then back f json index (start - 1) else Ok start end
        else Ok start end
    else Ok start end.
Fixpoint fwd (fuel : nat) (json : list N) (index e : nat) : res nat :=
  match fuel with O => Ok e | S f =>
    if e <? length json then
      match sub e index with Crash => Crash | Ok d =>
        if d <=? 16 then match sub e 1 with Crash => Crash | Ok e1 => match at_ json e1 with Crash => Crash | Ok b => if cont b then fwd f json index (S e) else Ok e end end
        else Ok e end
    else Ok e end.

(* returns (start, end, left, right) *)
Definition syntax_bounds (json : list N) (index : nat) : res (nat * nat * nat * nat) :=
  let len := length json in
  let start0 := index - 8 in                                   (* saturating_sub *)
  let end0 := if len <? index + 8 then len else index + 8 in
  match back 40 json index start0 with Crash => Crash | Ok start =>
  match fwd 40 json index end0 with Crash => Crash | Ok e =>
    if (start <=? e) && (e <=? len) then                       (* &json[start..end] *)
      match sub index start with Crash => Crash | Ok lft =>
      match sub e index with Crash => Crash | Ok d =>
        if 1 <? d then match sub e (index + 1) with Crash => Crash | Ok rgt => Ok (start, e, lft, rgt) end
        else Ok (start, e, lft, 0) end end
    else Crash end end.

Lemma back_ok : forall fuel json index start, start <= index -> index <= length json -> (start < length json \/ start = 0) ->
  exists s, back fuel json index start = Ok s /\ s <= start.
Proof.
  induction fuel as [|f IH]; intros json index start H1 H2 H3; cbn [back]; [eauto|].
  destruct (Nat.ltb_spec 0 start) as [Hp|Hz]; [|eauto].
  unfold sub. destruct (Nat.leb_spec start index); [|lia].
  destruct (Nat.leb_spec (index - start) 16); [|eauto].
  unfold at_. destruct (nth_error json start) eqn:Hn; [|apply nth_error_None in Hn; lia].
  destruct (cont n); [|eauto].
  destruct (IH json index (start - 1)) as (s & Hs & Hle); try lia. exists s. split; [exact Hs|lia].
Qed.

Lemma fwd_ok : forall fuel json index e, index <= e -> e <= length json -> (1 <= e \/ length json = 0) ->
  exists e', fwd fuel json index e = Ok e' /\ e <= e' <= length json.
Proof.
  induction fuel as [|f IH]; intros json index e H1 H2 H3; cbn [fwd]; [exists e; split; [reflexivity|lia]|].
  destruct (Nat.ltb_spec e (length json)) as [Hl|Hg]; [|exists e; split; [reflexivity|lia]].
  unfold sub. destruct (Nat.leb_spec index e); [|lia].
  destruct (Nat.leb_spec (e - index) 16); [|exists e; split; [reflexivity|lia]].
  destruct (Nat.leb_spec 1 e); [|lia].
  unfold at_. destruct (nth_error json (e - 1)) eqn:Hn; [|apply nth_error_None in Hn; lia].
  destruct (cont n); [|exists e; split; [reflexivity|lia]].
  destruct (IH json index (S e)) as (e' & He & Hle); try lia. exists e'. split; [exact He|lia].
Qed.

Theorem syntax_never_crashes : forall json index, index <= length json ->
  exists s e l r, syntax_bounds json index = Ok (s, e, l, r) /\ s <= index <= e /\ e <= length json /\ l = index - s.
Proof.
  intros json index H. unfold syntax_bounds.
  destruct (back_ok 40 json index (index - 8)) as (s & Hs & Hsl); try lia.
  rewrite Hs.
  set (e0 := if length json <? index + 8 then length json else index + 8).
  assert (He0 : index <= e0 /\ e0 <= length json /\ (1 <= e0 \/ length json = 0)).
  { unfold e0. destruct (Nat.ltb_spec (length json) (index + 8)); lia. }
  destruct (fwd_ok 40 json index e0) as (e & He & Hel); try lia. rewrite He.
  destruct (Nat.leb_spec s e); [|lia]. destruct (Nat.leb_spec e (length json)); [|lia]. cbn [andb].
  unfold sub. destruct (Nat.leb_spec s index); [|lia]. destruct (Nat.leb_spec index e); [|lia].
  destruct (Nat.ltb_spec 1 (e - index)).
  - destruct (Nat.leb_spec (index + 1) e); [|lia]. do 4 eexists. split; [reflexivity|lia].
  - do 4 eexists. split; [reflexivity|lia].
Qed.

(* Parser::error: the index handed to Error::syntax is always within the input *)
Definition parser_error_index (error_index reader_index len : nat) : nat :=
  let i := Nat.min error_index (reader_index - 1) in if len <? i then len else i.
Lemma parser_error_index_le : forall a b len, parser_error_index a b len <= len.
Proof. intros. unfold parser_error_index. cbv zeta. destruct (Nat.ltb_spec len (Nat.min a (b - 1))); lia. Qed.
Print Assumptions syntax_never_crashes.
Print Assumptions from_index_is_pos_of.
