(* Model/IterComplete.v -- the reference iterators on well-formed containers: on a text the strict
   reference parser accepts as an array (object), the reference array (object) iterator yields, in order,
   exactly one item per element (member) of the parsed tree, with that element's span (and the member's
   decoded key), and then the end marker (C12, first sentence; the oracle of C12 tied to the tree). *)
From Coq Require Import List NArith Arith Lia Bool.
From SonicV Require Import Spec.Ref Model.Skip Model.SkipAll Model.RefSound Model.ValueEdges Model.SkipComplete Model.GetLookup.
Import ListNotations.
Open Scope N_scope.

Definition arr_item (x : nat * nat * Ref.jv) : item := IOk [] (fst (fst x)) (snd (fst x)).
Definition obj_item (m : list N * nat * nat * Ref.jv) : item := IOk (fst (fst (fst m))) (snd (fst (fst m))) (snd (fst m)).

Local Ltac nb c := exfalso; let q := fresh "q" in destruct c as [|q]; [discriminate|]; repeat (destruct q as [q|q|]; try discriminate); contradiction.

(* leading whitespace only shifts the position (any fuel) *)
Lemma pvalue_at_ws : forall strict fuel pos l, pvalue strict fuel pos l = pvalue strict fuel (pos + (length l - length (Ref.ws l))) (Ref.ws l).
Proof.
  intros strict fuel pos l. destruct fuel as [|f]; [reflexivity|]. cbn [pvalue].
  assert (I : Ref.ws (Ref.ws l) = Ref.ws l).
  { induction l as [|c r IH]; [reflexivity|]. cbn [Ref.ws]. destruct (Ref.is_ws c) eqn:E; [exact IH|]. cbn [Ref.ws]. rewrite E. reflexivity. }
  rewrite I. rewrite Nat.sub_diag, Nat.add_0_r. reflexivity.
Qed.

(* the first non-space byte of an accepted value is not a closing bracket, a brace or a comma *)
Lemma accepted_head : forall fuel pos l v a b rest, pvalue true fuel pos l = Some (v, a, b, rest) ->
  exists c t, Ref.ws l = c :: t /\ c <> 93 /\ c <> 125 /\ c <> 44.
Proof.
  intros fuel pos l v a b rest H.
  destruct (proj1 (pvalue_sound true fuel) _ _ _ _ _ _ H) as (w & tok & -> & Hw & Hv & _ & _).
  destruct (value_head tok Hv) as (c & t & -> & Hc). destruct (vhead_facts c Hc) as (Wc & N1 & N2 & N3).
  exists c, (t ++ rest). change Ref.ws with Skip.ws. rewrite ws_app by exact Hw. cbn [app]. rewrite ws_head by exact Wc. auto.
Qed.

(* ---------- arrays ---------- *)
Lemma arr_items_tail : forall fuel F b r1 r2 xs final, Ref.ws r1 = 44 :: r2 ->
  pelems true fuel (S (b + (length r1 - length (44%N :: r2)))) r2 = Some (xs, final) -> (length xs < F)%nat ->
  arr_items F false b r1 = map arr_item xs ++ [IEnd].
Proof.
  induction fuel as [|f IH]; intros F b r1 r2 xs final W H HF; [discriminate|].
  cbn [pelems] in H.
  match type of H with match pvalue true f ?P r2 with _ => _ end = _ => destruct (pvalue true f P r2) as [[[[v a'] b'] r1']|] eqn:PV; [|discriminate] end.
  destruct F as [|F']; [lia|]. cbn [arr_items]. rewrite W. change (44 =? 93) with false. change (44 =? 44) with true. cbv iota beta.
  rewrite (lax_step _ _ _ _ _ _ _ PV).
  destruct (Ref.ws r1') as [|c r2'] eqn:E1; [discriminate|].
  destruct (N.eqb_spec c 93) as [-> | N1].
  { injection H as <- _. cbn [map app arr_item fst snd]. f_equal.
    destruct F' as [|F'']; [cbn [length] in HF; lia|]. cbn [arr_items]. rewrite E1. reflexivity. }
  destruct (N.eqb_spec c 44) as [-> | N2]; [|nb c].
  match type of H with match pelems true f ?P r2' with _ => _ end = _ => destruct (pelems true f P r2') as [[xs' r3]|] eqn:PE; [|discriminate] end.
  injection H as <- <-. cbn [map app arr_item fst snd length] in *. f_equal.
  apply (IH F' b' r1' r2' xs' _ E1 PE). lia.
Qed.

Lemma arr_items_first : forall fuel F pos l xs final, pelems true fuel pos l = Some (xs, final) -> (length xs < F)%nat ->
  arr_items F true pos l = map arr_item xs ++ [IEnd].
Proof.
  intros fuel F pos l xs final H HF. destruct fuel as [|f]; [discriminate|]. cbn [pelems] in H.
  destruct (pvalue true f pos l) as [[[[v a] b] r1]|] eqn:PV; [|discriminate].
  destruct (accepted_head _ _ _ _ _ _ _ PV) as (c & t & Ew & N93 & _ & _).
  destruct F as [|F']; [lia|]. cbn [arr_items]. rewrite Ew.
  destruct (N.eqb_spec c 93) as [E | _]; [contradiction|]. cbv iota beta.
  (* the element is parsed at the first non-space byte *)
  assert (PV' : pvalue false (fuel_for (c :: t)) (pos + (length l - length (c :: t))) (c :: t) = Some (v, a, b, r1)).
  { apply (fuel_for_enough false f). rewrite <- Ew. rewrite <- pvalue_at_ws. apply (proj1 (pvalue_true_false f)). exact PV. }
  rewrite PV'.
  destruct (Ref.ws r1) as [|c2 r2] eqn:E1; [discriminate|].
  destruct (N.eqb_spec c2 93) as [-> | N1].
  { injection H as <- _. cbn [map app arr_item fst snd]. f_equal.
    destruct F' as [|F'']; [cbn [length] in HF; lia|]. cbn [arr_items]. rewrite E1. reflexivity. }
  destruct (N.eqb_spec c2 44) as [-> | N2]; [|nb c2].
  match type of H with match pelems true f ?P r2 with _ => _ end = _ => destruct (pelems true f P r2) as [[xs' r3]|] eqn:PE; [|discriminate] end.
  injection H as <- <-. cbn [map app arr_item fst snd length] in *. f_equal.
  apply (arr_items_tail f F' b r1 r2 xs' _ E1 PE). lia.
Qed.

Lemma pelems_count : forall fuel pos l xs rest, pelems true fuel pos l = Some (xs, rest) -> (length xs <= length l)%nat.
Proof.
  induction fuel as [|f IH]; intros pos l xs rest H; [discriminate|]. cbn [pelems] in H.
  destruct (pvalue true f pos l) as [[[[v a] b] r1]|] eqn:PV; [|discriminate].
  pose proof (pvalue_rest_len _ _ _ _ _ _ _ _ PV) as L1. pose proof (ws_len' r1) as W1.
  destruct (Ref.ws r1) as [|c r2] eqn:Ew; [discriminate|]. cbn [length] in W1.
  destruct (N.eqb_spec c 93) as [-> | N1]; [injection H as <- _; cbn [length]; lia|].
  destruct (N.eqb_spec c 44) as [-> | N2]; [|nb c].
  destruct (pelems true f _ r2) as [[xs' r3]|] eqn:PE; [|discriminate]. injection H as <- _. cbn [length]. specialize (IH _ _ _ _ PE). lia.
Qed.

(* an empty array value: the closing bracket follows the opening one after whitespace *)
Lemma arr_empty_inv : forall fuel pos l a b rest r, pvalue true fuel pos l = Some (Ref.JArr [], a, b, rest) -> Ref.ws l = 91 :: r ->
  exists r5, Ref.ws r = 93 :: r5.
Proof.
  intros fuel pos l a b rest r H Ew. destruct fuel as [|f]; [discriminate|]. cbn [pvalue] in H. rewrite Ew in H.
  change (91 =? 34) with false in H. change (91 =? 91) with true in H. cbv iota in H.
  destruct (Ref.ws r) as [|c2 t2] eqn:E2.
  - destruct (pelems true f _ r) as [[xs rest']|] eqn:PE; [|discriminate]. injection H as -> _ _ _.
    exfalso. destruct f as [|f']; [discriminate|]. cbn [pelems] in PE.
    destruct (pvalue true f' _ r) as [[[[v0 a0] b0] r1]|] eqn:PV; [|discriminate].
    destruct f' as [|f'']; [discriminate|]. cbn [pvalue] in PV. rewrite E2 in PV. discriminate.
  - destruct (N.eqb_spec c2 93) as [-> | N4]; [eauto|]. exfalso.
    assert (H' : match pelems true f (S (pos + (length l - length (91%N :: r)))) r with
        | Some (xs0, rest0) => Some (Ref.JArr xs0, (pos + (length l - length (91%N :: r)))%nat, (pos + (length l - length (91%N :: r)) + (length (91%N :: r) - length rest0))%nat, rest0)
        | None => None end = Some (Ref.JArr [], a, b, rest)).
    { destruct c2 as [|q]; [exact H|]. repeat (destruct q as [q|q|]; try exact H); contradiction. }
    destruct (pelems true f _ r) as [[xs rest']|] eqn:PE; [|discriminate]. injection H' as -> _ _ _.
    destruct f as [|f']; [discriminate|]. cbn [pelems] in PE.
    destruct (pvalue true f' _ r) as [[[[v0 a0] b0] r1]|]; [|discriminate].
    destruct (Ref.ws r1) as [|c3 r2]; [discriminate|].
    destruct (N.eqb_spec c3 93) as [-> | N5]; [discriminate|]. destruct (N.eqb_spec c3 44) as [-> | N6]; [|nb c3].
    destruct (pelems true f' _ r2) as [[xs' r3]|]; discriminate.
Qed.

Theorem array_iterator_complete : forall l xs a b, utf8_valid l = true -> ref_text true l = Some (Ref.JArr xs, a, b) ->
  ref_array_iter l = map arr_item xs ++ [IEnd].
Proof.
  intros l xs a b U H. unfold ref_text in H.
  destruct (pvalue true (fuel_for l) 0 l) as [[[[v0 a0] b0] rest]|] eqn:PV; [|discriminate].
  destruct (Ref.ws rest); [|discriminate]. injection H as -> <- <-.
  unfold ref_array_iter. rewrite U.
  destruct (pvalue_arr_inv _ _ _ _ _ _ _ PV) as (f & r & Ef & Ew & Cs). rewrite Ew.
  destruct Cs as [-> | PE].
  - destruct (arr_empty_inv _ _ _ _ _ _ _ PV Ew) as (r5 & E5). cbn [arr_items]. rewrite E5. reflexivity.
  - apply (arr_items_first f _ _ _ _ _ PE). pose proof (pelems_count _ _ _ _ _ PE). pose proof (ws_len' l). rewrite Ew in *. cbn [length] in *. lia.
Qed.
Print Assumptions array_iterator_complete.

(* ---------- objects ---------- *)
Lemma obj_items_tail : forall fuel F b r3 r5 ms final, Ref.ws r3 = 44 :: r5 ->
  pmembers true fuel (S (b + (length r3 - length (44%N :: r5)))) r5 = Some (ms, final) -> (length ms < F)%nat ->
  obj_items F false b r3 = map obj_item ms ++ [IEnd].
Proof.
  induction fuel as [|f IH]; intros F b r3 r5 ms final W H HF; [discriminate|].
  cbn [pmembers] in H.
  destruct (Ref.ws r5) as [|q kr] eqn:E5; [discriminate|].
  destruct (N.eqb_spec q 34) as [-> | Nq]; [|nb q].
  destruct (Ref.str_body true (S (length kr)) kr) as [[[key hk] r0]|] eqn:SK; [|discriminate].
  destruct (Ref.ws r0) as [|c r2] eqn:E0; [discriminate|].
  destruct (N.eqb_spec c 58) as [-> | Nc]; [|nb c].
  match type of H with match pvalue true f ?P r2 with _ => _ end = _ => destruct (pvalue true f P r2) as [[[[v a'] b'] r3']|] eqn:PV; [|discriminate] end.
  destruct F as [|F']; [lia|]. cbn [obj_items]. rewrite W. change (44 =? 125) with false. change (44 =? 44) with true. cbv iota beta.
  rewrite E5. rewrite SK. cbv iota beta. rewrite E0.
  rewrite (lax_step _ _ _ _ _ _ _ PV).
  destruct (Ref.ws r3') as [|c2 r5'] eqn:E3; [discriminate|].
  destruct (N.eqb_spec c2 125) as [-> | N1].
  { injection H as <- _. cbn [map app obj_item fst snd]. f_equal.
    destruct F' as [|F'']; [cbn [length] in HF; lia|]. cbn [obj_items]. rewrite E3. reflexivity. }
  destruct (N.eqb_spec c2 44) as [-> | N2]; [|nb c2].
  match type of H with match pmembers true f ?P r5' with _ => _ end = _ => destruct (pmembers true f P r5') as [[ms' r6]|] eqn:PM; [|discriminate] end.
  injection H as <- <-. cbn [map app obj_item fst snd length] in *. f_equal.
  apply (IH F' b' r3' r5' ms' _ E3 PM). lia.
Qed.

Lemma obj_items_first : forall fuel F pos l ms final, pmembers true fuel pos l = Some (ms, final) -> (length ms < F)%nat ->
  obj_items F true pos l = map obj_item ms ++ [IEnd].
Proof.
  intros fuel F pos l ms final H HF. destruct fuel as [|f]; [discriminate|]. cbn [pmembers] in H.
  destruct (Ref.ws l) as [|q kr] eqn:El; [discriminate|].
  destruct (N.eqb_spec q 34) as [-> | Nq]; [|nb q].
  destruct (Ref.str_body true (S (length kr)) kr) as [[[key hk] r0]|] eqn:SK; [|discriminate].
  destruct (Ref.ws r0) as [|c r2] eqn:E0; [discriminate|].
  destruct (N.eqb_spec c 58) as [-> | Nc]; [|nb c].
  match type of H with match pvalue true f ?P r2 with _ => _ end = _ => destruct (pvalue true f P r2) as [[[[v a'] b'] r3']|] eqn:PV; [|discriminate] end.
  destruct F as [|F']; [lia|]. cbn [obj_items]. rewrite El. change (34 =? 125) with false. cbv iota beta.
  rewrite SK. cbv iota beta. rewrite E0.
  rewrite (lax_step _ _ _ _ _ _ _ PV).
  destruct (Ref.ws r3') as [|c2 r5'] eqn:E3; [discriminate|].
  destruct (N.eqb_spec c2 125) as [-> | N1].
  { injection H as <- _. cbn [map app obj_item fst snd]. f_equal.
    destruct F' as [|F'']; [cbn [length] in HF; lia|]. cbn [obj_items]. rewrite E3. reflexivity. }
  destruct (N.eqb_spec c2 44) as [-> | N2]; [|nb c2].
  match type of H with match pmembers true f ?P r5' with _ => _ end = _ => destruct (pmembers true f P r5') as [[ms' r6]|] eqn:PM; [|discriminate] end.
  injection H as <- <-. cbn [map app obj_item fst snd length] in *. f_equal.
  apply (obj_items_tail f F' b' r3' r5' ms' _ E3 PM). lia.
Qed.

Lemma obj_empty_inv : forall fuel pos l a b rest r, pvalue true fuel pos l = Some (Ref.JObj [], a, b, rest) -> Ref.ws l = 123 :: r ->
  exists r5, Ref.ws r = 125 :: r5.
Proof.
  intros fuel pos l a b rest r H Ew. destruct fuel as [|f]; [discriminate|]. cbn [pvalue] in H. rewrite Ew in H.
  change (123 =? 34) with false in H. change (123 =? 91) with false in H. change (123 =? 123) with true in H. cbv iota in H.
  destruct (Ref.ws r) as [|c2 t2] eqn:E2.
  - destruct (pmembers true f _ r) as [[ms rest']|] eqn:PM; [|discriminate]. injection H as -> _ _ _.
    exfalso. destruct f as [|f']; [discriminate|]. cbn [pmembers] in PM. rewrite E2 in PM. discriminate.
  - destruct (N.eqb_spec c2 125) as [-> | N4]; [eauto|]. exfalso.
    assert (H' : match pmembers true f (S (pos + (length l - length (123%N :: r)))) r with
        | Some (ms0, rest0) => Some (Ref.JObj ms0, (pos + (length l - length (123%N :: r)))%nat, (pos + (length l - length (123%N :: r)) + (length (123%N :: r) - length rest0))%nat, rest0)
        | None => None end = Some (Ref.JObj [], a, b, rest)).
    { destruct c2 as [|q]; [exact H|]. repeat (destruct q as [q|q|]; try exact H); contradiction. }
    destruct (pmembers true f _ r) as [[ms rest']|] eqn:PM; [|discriminate]. injection H' as -> _ _ _.
    destruct f as [|f']; [discriminate|]. cbn [pmembers] in PM. rewrite E2 in PM.
    destruct (N.eqb_spec c2 34) as [-> | Nq]; [|nb c2].
    destruct (Ref.str_body true (S (length t2)) t2) as [[[key hk] r0]|]; [|discriminate].
    destruct (Ref.ws r0) as [|c3 r2]; [discriminate|]. destruct (N.eqb_spec c3 58) as [-> | N5]; [|nb c3].
    match type of PM with match pvalue true f' ?P r2 with _ => _ end = _ => destruct (pvalue true f' P r2) as [[[[v0 a0] b0] r3]|]; [|discriminate] end.
    destruct (Ref.ws r3) as [|c4 r5]; [discriminate|].
    destruct (N.eqb_spec c4 125) as [-> | N6]; [discriminate|]. destruct (N.eqb_spec c4 44) as [-> | N7]; [|nb c4].
    match type of PM with match pmembers true f' ?P r5 with _ => _ end = _ => destruct (pmembers true f' P r5) as [[ms' r6]|]; discriminate end.
Qed.

Theorem object_iterator_complete : forall l ms a b, utf8_valid l = true -> ref_text true l = Some (Ref.JObj ms, a, b) ->
  ref_object_iter l = map obj_item ms ++ [IEnd].
Proof.
  intros l ms a b U H. unfold ref_text in H.
  destruct (pvalue true (fuel_for l) 0 l) as [[[[v0 a0] b0] rest]|] eqn:PV; [|discriminate].
  destruct (Ref.ws rest); [|discriminate]. injection H as -> <- <-.
  unfold ref_object_iter. rewrite U.
  destruct (pvalue_obj_inv _ _ _ _ _ _ _ PV) as (f & r & Ef & Ew & Cs). rewrite Ew.
  destruct Cs as [-> | PM].
  - destruct (obj_empty_inv _ _ _ _ _ _ _ PV Ew) as (r5 & E5). cbn [obj_items]. rewrite E5. reflexivity.
  - apply (obj_items_first f _ _ _ _ _ PM). pose proof (pmembers_count _ _ _ _ _ PM). pose proof (ws_len' l). rewrite Ew in *. cbn [length] in *. lia.
Qed.
Print Assumptions object_iterator_complete.
