(* Model/ValueEdges.v -- a well-formed JSON value neither starts nor ends with whitespace and is not
   empty: a span that is "exactly one value" therefore carries no surrounding whitespace (C10, C13). *)
From Coq Require Import List NArith Arith Lia Bool.
From SonicV Require Import Model.SkipStr Model.SkipNum Model.Skip Model.SkipAll.
Import ListNotations.
Open Scope N_scope.

Definition edge_ok (v : list N) : Prop :=
  exists c r, v = c :: r /\ is_ws c = false /\ is_ws (last v 0) = false.

Lemma last_app_single : forall (l : list N) x d, last (l ++ [x]) d = x.
Proof. induction l as [|y r IH]; intros x d; [reflexivity|]. cbn [app]. destruct (r ++ [x]) eqn:E; [destruct r; discriminate|]. rewrite <- E. cbn [last]. rewrite E. rewrite <- E. apply IH. Qed.

Lemma last_cons_app_single : forall c (l : list N) x d, last (c :: l ++ [x]) d = x.
Proof. intros c l x d. change (c :: l ++ [x]) with ((c :: l) ++ [x]). apply last_app_single. Qed.

Lemma digit_not_ws : forall c, digit c = true -> is_ws c = false.
Proof.
  intros c H. unfold digit in H. apply andb_true_iff in H. destruct H as [A B]. apply N.leb_le in A. apply N.leb_le in B.
  unfold is_ws. repeat (apply orb_false_iff; split); apply N.eqb_neq; lia.
Qed.

Lemma all_digits_last : forall ds d0, all_digits ds -> ds <> [] -> digit (last ds d0) = true.
Proof.
  induction ds as [|d r IH]; intros d0 H NE; [congruence|]. inversion H as [|? ? Hd Hr]; subst.
  destruct r as [|d2 r2]; [exact Hd|]. change (last (d :: d2 :: r2) d0) with (last (d2 :: r2) d0). apply IH; [exact Hr|discriminate].
Qed.

Lemma last_app_nonempty : forall (a b : list N) d, b <> [] -> last (a ++ b) d = last b d.
Proof.
  induction a as [|x a IH]; intros b d NE; [reflexivity|]. cbn [app]. destruct (a ++ b) eqn:E.
  - destruct a; [cbn in E; congruence|discriminate].
  - rewrite <- E. cbn [last]. rewrite E. rewrite <- E. apply IH. exact NE.
Qed.

(* numbers end with a digit and start with '-' or a digit *)
Lemma number_edges : forall n, is_number n -> edge_ok n.
Proof.
  intros n (sg & i & f & e & E & Hsg & Hi & Hf & He).
  assert (Ilast : i <> [] /\ digit (last i 0) = true /\ exists c r, i = c :: r /\ digit c = true).
  { destruct Hi as [-> | (d & ds & -> & Hd & _ & Hds)].
    - split; [discriminate|]. split; [reflexivity|]. exists 48, []. split; reflexivity.
    - split; [discriminate|]. split; [|exists d, ds; split; [reflexivity|exact Hd]].
      destruct ds as [|d2 r2]; [exact Hd|]. change (last (d :: d2 :: r2) 0) with (last (d2 :: r2) 0). apply all_digits_last; [exact Hds|discriminate]. }
  destruct Ilast as (Ine & Il & ci & ri & Ei & Hci).
  (* the last byte is a digit in every combination of fraction / exponent *)
  assert (Last : digit (last n 0) = true).
  { rewrite E.
    destruct He as [-> | (ec & sgn & ds & -> & _ & _ & Dne & Dall)].
    - rewrite app_nil_r. destruct Hf as [-> | (ds & -> & Dne & Dall)].
      + rewrite app_nil_r. rewrite last_app_nonempty by exact Ine. exact Il.
      + rewrite app_assoc. rewrite last_app_nonempty by discriminate.
        change (46 :: ds) with ([46] ++ ds). rewrite last_app_nonempty by exact Dne. apply all_digits_last; assumption.
    - rewrite !app_assoc. change (ec :: sgn ++ ds) with ((ec :: sgn) ++ ds). rewrite app_assoc.
      rewrite last_app_nonempty by exact Dne. apply all_digits_last; assumption. }
  destruct Hsg as [-> | ->].
  - exists ci, (ri ++ f ++ e). split; [rewrite E, Ei; reflexivity|]. split; [apply digit_not_ws; exact Hci|apply digit_not_ws; exact Last].
  - exists 45, (i ++ f ++ e). split; [rewrite E; reflexivity|]. split; [reflexivity|apply digit_not_ws; exact Last].
Qed.

Theorem value_edges : forall v, Value v -> edge_ok v.
Proof.
  intros v H. destruct H as [s (body & -> & _)|n Hn| | | |w Hw|es He|w Hw|ms Hm].
  - exists 34, (body ++ [34]). split; [reflexivity|]. split; [reflexivity|]. rewrite last_cons_app_single. reflexivity.
  - apply number_edges. exact Hn.
  - exists 116, [114; 117; 101]. repeat split; reflexivity.
  - exists 102, [97; 108; 115; 101]. repeat split; reflexivity.
  - exists 110, [117; 108; 108]. repeat split; reflexivity.
  - exists 91, (w ++ [93]). split; [reflexivity|]. split; [reflexivity|]. rewrite last_cons_app_single. reflexivity.
  - exists 91, (es ++ [93]). split; [reflexivity|]. split; [reflexivity|]. rewrite last_cons_app_single. reflexivity.
  - exists 123, (w ++ [125]). split; [reflexivity|]. split; [reflexivity|]. rewrite last_cons_app_single. reflexivity.
  - exists 123, (ms ++ [125]). split; [reflexivity|]. split; [reflexivity|]. rewrite last_cons_app_single. reflexivity.
Qed.
