From Coq Require Import List Arith Lia.
Import ListNotations.

(* A parsed document as a tree; [slen] is the byte length of a scalar token (>= 1),
   [klen] the byte length of a key token including its quotes (>= 2). Whitespace only adds bytes. *)
Inductive t := Scalar (slen : nat) | Arr (xs : list t) | Obj (ms : list (nat * t)).

Fixpoint seps (n : nat) := pred n.                      (* commas between n members *)
Fixpoint len (v : t) : nat :=
  match v with
  | Scalar n => S n                                      (* n+1 >= 1 bytes *)
  | Arr xs => 2 + (fix go l := match l with [] => 0 | x :: r => len x + go r end) xs + pred (length xs)
  | Obj ms => 2 + (fix go l := match l with [] => 0 | (k, x) :: r => (2 + k) + 1 + len x + go r end) ms + pred (length ms)
  end.

(* DocumentVisitor: nodes live on the stack while [v] is being parsed, above the stack height at
   its start; once finished every value leaves exactly one node (children are copied to the arena). *)
Fixpoint peak (v : t) : nat :=
  match v with
  | Scalar _ => 1
  | Arr xs => (fix go done l := match l with [] => 1 + done | x :: r => Nat.max (1 + done + peak x) (go (S done) r) end) 0 xs
  | Obj ms => (fix go done l := match l with [] => 1 + done | (_, x) :: r => Nat.max (1 + done + 1 + peak x) (go (2 + done) r) end) 0 ms
  end.

Section Ind.
Variable P : t -> Prop.
Hypothesis HS : forall n, P (Scalar n).
Hypothesis HA : forall xs, Forall P xs -> P (Arr xs).
Hypothesis HO : forall ms, Forall (fun m => P (snd m)) ms -> P (Obj ms).
Fixpoint t_ind' (v : t) : P v :=
  match v with
  | Scalar n => HS n
  | Arr xs => HA xs ((fix go l : Forall P l := match l with [] => Forall_nil _ | x :: r => Forall_cons _ (t_ind' x) (go r) end) xs)
  | Obj ms => HO ms ((fix go l : Forall (fun m => P (snd m)) l := match l with [] => Forall_nil _ | (k, x) :: r => Forall_cons (k, x) (t_ind' x) (go r) end) ms)
  end.
End Ind.

Definition alen := (fix go l := match l with [] => 0 | x :: r => len x + go r end).
Definition apeak := (fix go done l := match l with [] => 1 + done | x :: r => Nat.max (1 + done + peak x) (go (S done) r) end).
Definition olen := (fix go (l : list (nat * t)) := match l with [] => 0 | (k, x) :: r => (2 + k) + 1 + len x + go r end).
Definition opeak := (fix go done (l : list (nat * t)) := match l with [] => 1 + done | (_, x) :: r => Nat.max (1 + done + 1 + peak x) (go (2 + done) r) end).

Lemma len_pos : forall v, 1 <= len v. Proof. destruct v; cbn; lia. Qed.

(* elements already finished: [done] nodes, each cost >= 1 byte + 1 comma *)
Lemma apeak_bound : forall xs done, Forall (fun x => 2 * peak x <= len x + 1) xs ->
  2 * apeak done xs <= 2 * done + alen xs + length xs + 2.
Proof.
  induction xs as [|x r IH]; intros done H; cbn [apeak alen length].
  - lia.
  - inversion H as [|? ? Hx Hr]; subst. specialize (IH (S done) Hr). pose proof (len_pos x).
    apply Nat.max_case_strong; intros _; lia.
Qed.

Lemma opeak_bound : forall ms done, Forall (fun m => 2 * peak (snd m) <= len (snd m) + 1) ms ->
  2 * opeak done ms <= 2 * done + olen ms + length ms + 2.
Proof.
  induction ms as [|[k x] r IH]; intros done H; cbn [opeak olen length].
  - lia.
  - inversion H as [|? ? Hx Hr]; subst. cbn [snd] in Hx. specialize (IH (2 + done) Hr). pose proof (len_pos x).
    apply Nat.max_case_strong; intros _; lia.
Qed.

Theorem peak_le_len : forall v, 2 * peak v <= len v + 1.
Proof.
  induction v using t_ind'.
  - cbn. lia.
  - change (peak (Arr xs)) with (apeak 0 xs). change (len (Arr xs)) with (2 + alen xs + pred (length xs)).
    pose proof (apeak_bound xs 0 H). destruct xs; cbn [length pred] in *; [cbn; lia | lia].
  - change (peak (Obj ms)) with (opeak 0 ms). change (len (Obj ms)) with (2 + olen ms + pred (length ms)).
    pose proof (opeak_bound ms 0 H). destruct ms; cbn [length pred] in *; [cbn; lia | lia].
Qed.

(* the visitor's buffer: one meta node + peak, against capacity len/2 + 2 *)
Corollary node_budget_sufficient : forall v total, len v <= total -> 1 + peak v <= total / 2 + 2.
Proof.
  intros v total H. pose proof (peak_le_len v).
  assert (peak v <= (total + 1) / 2) by (apply Nat.div_le_lower_bound; lia).
  assert ((total + 1) / 2 <= total / 2 + 1).
  { replace (total + 1) with (total + 1) by lia. pose proof (Nat.div_mod_eq total 2). pose proof (Nat.div_mod_eq (total+1) 2).
    pose proof (Nat.mod_upper_bound total 2). pose proof (Nat.mod_upper_bound (total+1) 2). lia. }
  lia.
Qed.
Example tight : 1 + peak (Arr [Scalar 0; Scalar 0; Scalar 0]) = len (Arr [Scalar 0; Scalar 0; Scalar 0]) / 2 + 2.
Proof. reflexivity. Qed.
Print Assumptions node_budget_sufficient.
