(* Model/FuncsEsc.v -- theorems about the code as translated (T2, Gen/Funcs.v): the branchless
   escape scanner of src/parser.rs (get_escaped_branchless_u32 / _u64), on every word and carry, is
   the bit-list model of Model/Bitmap.v, hence (get_escaped_correct) marks exactly the bytes that
   follow an unescaped backslash; the portable prefix_xor of src/util/arch/fallback.rs is the
   running parity of Model/PrefixXor.v. *)
From Coq Require Import ZArith List Bool Lia.
From SonicV Require Import Base.RustInt Base.BitsZ Model.Bitmap Model.PrefixXor Gen.Funcs.
Import ListNotations.
Open Scope Z_scope.

(* ---------- generic form of the translated function ---------- *)
Definition esc_generic (n : nat) (EV OD : Z) (prev_escaped backslash : Z) : Z * Z :=
  let W := 2 ^ Z.of_nat n in
  let backslash := Z.land backslash (W - 1 - prev_escaped) in
  let follows_escape := Z.lor ((backslash * 2) mod W) prev_escaped in
  let odd_sequence_starts := Z.land (Z.land backslash OD) (W - 1 - follows_escape) in
  let s := (odd_sequence_starts + backslash) mod W in
  let overflow := negb (in_u (Z.of_nat n) (odd_sequence_starts + backslash)) in
  let invert_mask := (s * 2) mod W in
  (Z.land (Z.lxor EV invert_mask) follows_escape, b2z overflow).

Lemma u64_is_generic : forall p b, get_escaped_branchless_u64 p b = Some (esc_generic 64 6148914691236517205 12297829382473034410 p b).
Proof. intros p b. reflexivity. Qed.
Lemma u32_is_generic : forall p b, get_escaped_branchless_u32 p b = Some (esc_generic 32 1431655765 2863311530 p b).
Proof. intros p b. reflexivity. Qed.

(* ---------- list facts ---------- *)
Lemma shl1_same : forall x c, BitsZ.shl1 x c = Bitmap.shl1 x c.
Proof. reflexivity. Qed.
Lemma add_same : forall a b c, BitsZ.addb a b c = Bitmap.add a b c.
Proof. reflexivity. Qed.

Lemma testbit_above : forall n b i, 0 <= b < 2 ^ n -> n <= i -> Z.testbit b i = false.
Proof.
  intros n b i [H0 H1] Hi. destruct (Z.eq_dec b 0) as [->|Hz]; [apply Z.bits_0|].
  apply Z.bits_above_log2; [lia|]. assert (Z.log2 b < n) by (apply Z.log2_lt_pow2; lia). lia.
Qed.
Lemma bounded_by_bits : forall n z, 0 <= n -> 0 <= z -> (forall i, n <= i -> Z.testbit z i = false) -> z < 2 ^ n.
Proof.
  intros n z Hn Hz H. destruct (Z.eq_dec z 0) as [->|Hnz]; [apply Z.pow_pos_nonneg; lia|].
  apply Z.log2_lt_pow2; [lia|]. destruct (Z_lt_le_dec (Z.log2 z) n) as [L|L]; [exact L|].
  specialize (H (Z.log2 z) L). rewrite Z.bit_log2 in H by lia. discriminate.
Qed.
Lemma land_range : forall n a b, 0 <= n -> 0 <= b < 2 ^ n -> 0 <= Z.land a b < 2 ^ n.
Proof.
  intros n a b Hn Hb. assert (P : 0 <= Z.land a b) by (apply Z.land_nonneg; lia). split; [exact P|].
  apply bounded_by_bits; [lia|exact P|]. intros i Hi. rewrite Z.land_spec, (testbit_above n b i) by lia. apply andb_false_r.
Qed.
Lemma lor_range : forall n a b, 0 <= n -> 0 <= a < 2 ^ n -> 0 <= b < 2 ^ n -> 0 <= Z.lor a b < 2 ^ n.
Proof.
  intros n a b Hn Ha Hb. assert (P : 0 <= Z.lor a b) by (apply Z.lor_nonneg; lia). split; [exact P|].
  apply bounded_by_bits; [lia|exact P|]. intros i Hi. rewrite Z.lor_spec, (testbit_above n a i), (testbit_above n b i) by lia. reflexivity.
Qed.
Lemma lxor_range : forall n a b, 0 <= n -> 0 <= a < 2 ^ n -> 0 <= b < 2 ^ n -> 0 <= Z.lxor a b < 2 ^ n.
Proof.
  intros n a b Hn Ha Hb. assert (P : 0 <= Z.lxor a b) by (apply Z.lxor_nonneg; lia). split; [exact P|].
  apply bounded_by_bits; [lia|exact P|]. intros i Hi. rewrite Z.lxor_spec, (testbit_above n a i), (testbit_above n b i) by lia. reflexivity.
Qed.

Lemma bitsZ_bool : forall n p, bitsZ (S n) (b2z p) = p :: repeat false n.
Proof.
  intros n p. cbn [bitsZ]. f_equal; [destruct p; reflexivity|].
  replace (b2z p / 2) with 0 by (destruct p; reflexivity).
  induction n as [|k IH]; cbn [bitsZ repeat]; [reflexivity|]. rewrite Z.div_0_l by lia. cbn [Z.odd]. f_equal. exact IH.
Qed.

(* ---------- the generic correctness statement ---------- *)
Lemma map2b_to_map3_a : forall a e f,
  map2b andb (map2b andb a (map negb e)) (map negb f) = map3 (fun bi ev fi => bi && negb ev && negb fi) a e f.
Proof. induction a as [|x a IH]; intros [|y e] [|z f]; cbn; try reflexivity. rewrite IH. reflexivity. Qed.
Lemma map2b_to_map3_b : forall e i f,
  map2b andb (map2b xorb e i) f = map3 (fun ev iv fi => xorb ev iv && fi) e i f.
Proof. induction e as [|x e IH]; intros [|y i] [|z f]; cbn; try reflexivity. rewrite IH. reflexivity. Qed.
Lemma and_not_bool : forall k l p, length l = S k -> map2b andb l (map negb (p :: repeat false k)) = clear0 p l.
Proof.
  intros k [|x l] p L; cbn [length] in L; [lia|]. cbn [map map2b clear0]. f_equal.
  assert (G : forall (l : list bool) m, (length l <= m)%nat -> map2b andb l (map negb (repeat false m)) = l).
  { induction l0 as [|y l0 IH]; intros m Hm; [reflexivity|]. destruct m as [|m]; cbn [length] in Hm; [lia|].
    cbn [repeat map map2b negb]. rewrite andb_true_r, IH by lia. reflexivity. }
  apply G. lia.
Qed.
Lemma evens_length : forall k par, length (evens k par) = k.
Proof. induction k as [|j IH]; intros par; cbn [evens length]; [reflexivity|]. rewrite IH. reflexivity. Qed.
Lemma clear0_length : forall p l, length (clear0 p l) = length l.
Proof. intros p [|x l]; reflexivity. Qed.

Lemma lor_carry_in : forall n b1 (prev : bool),
  bitsZ n (Z.lor ((b1 * 2) mod 2 ^ Z.of_nat n) (b2z prev)) = BitsZ.shl1 (bitsZ n b1) prev.
Proof.
  intros n b1 prev. rewrite <- bitsZ_shl1. apply bitsZ_ext. intros i Hi.
  rewrite Z.lor_spec, Z.mod_pow2_bits_low by lia.
  rewrite (Z.mul_comm b1 2).
  destruct (Z.eq_dec i 0) as [->|Hnz].
  - rewrite Z.testbit_even_0. destruct prev; cbn [b2z orb].
    + rewrite Z.testbit_odd_0. reflexivity.
    + rewrite Z.add_0_r, Z.testbit_even_0. reflexivity.
  - replace i with (Z.succ (i - 1)) by lia. rewrite Z.testbit_even_succ by lia. destruct prev; cbn [b2z].
    + rewrite Z.testbit_odd_succ by lia. change 1 with (2 * 0 + 1). rewrite Z.testbit_odd_succ by lia. rewrite Z.bits_0. apply orb_false_r.
    + rewrite Z.add_0_r, Z.testbit_even_succ by lia. rewrite Z.bits_0. apply orb_false_r.
Qed.

Section Generic.
  Variable n : nat.                       (* the word has S n bits *)
  Variables EV OD : Z.
  Hypothesis EVbits : bitsZ (S n) EV = evens (S n) true.
  Hypothesis ODbits : bitsZ (S n) OD = map negb (evens (S n) true).

  Let W := 2 ^ Z.of_nat (S n).

  Theorem esc_generic_is_model : forall (prev : bool) (bs : Z), 0 <= bs < W ->
    let '(e, p) := esc_generic (S n) EV OD (b2z prev) bs in
    let '(e', p') := Bitmap.get_escaped prev (bitsZ (S n) bs) in
    bitsZ (S n) e = e' /\ p = b2z p' /\ 0 <= e < W.
  Proof.
    intros prev bs Hbs. assert (WP : 0 < W) by (apply Z.pow_pos_nonneg; lia).
    assert (W2 : 2 <= W) by (unfold W; rewrite Nat2Z.inj_succ, Z.pow_succ_r by lia; assert (0 < 2 ^ Z.of_nat n) by (apply Z.pow_pos_nonneg; lia); lia).
    unfold esc_generic. fold W.
    set (b1 := Z.land bs (W - 1 - b2z prev)).
    set (fo := Z.lor ((b1 * 2) mod W) (b2z prev)).
    set (od := Z.land (Z.land b1 OD) (W - 1 - fo)).
    set (s := (od + b1) mod W).
    set (inv := (s * 2) mod W).
    assert (Rp : 0 <= W - 1 - b2z prev < W) by (destruct prev; cbn [b2z]; lia).
    assert (Rb1 : 0 <= b1 < W) by (apply land_range; [lia|exact Rp]).
    assert (Rfo : 0 <= fo < W).
    { apply lor_range; [lia| apply Z.mod_pos_bound; lia | destruct prev; cbn [b2z]; lia ]. }
    assert (Rod : 0 <= od < W) by (apply land_range; [lia|lia]).
    assert (Bb1 : bitsZ (S n) b1 = clear0 prev (bitsZ (S n) bs)).
    { unfold b1. rewrite bitsZ_land. unfold W. rewrite bitsZ_not, bitsZ_bool. apply and_not_bool. apply bitsZ_length. }
    assert (Bfo : bitsZ (S n) fo = Bitmap.shl1 (bitsZ (S n) b1) prev).
    { unfold fo, W. rewrite lor_carry_in. apply shl1_same. }
    assert (Bod : bitsZ (S n) od = map3 (fun bi ev fi => bi && negb ev && negb fi) (bitsZ (S n) b1) (evens (S n) true) (bitsZ (S n) fo)).
    { unfold od. rewrite !bitsZ_land. unfold W. rewrite bitsZ_not, ODbits. apply map2b_to_map3_a. }
    assert (Bsum : Bitmap.add (bitsZ (S n) od) (bitsZ (S n) b1) false = (bitsZ (S n) s, negb (in_u (Z.of_nat (S n)) (od + b1)))).
    { rewrite <- add_same, bitsZ_add by lia. cbn [b2z]. rewrite !Z.add_0_r. fold W.
      rewrite !Z.mod_small by lia. unfold s, W. rewrite bitsZ_mod. f_equal.
      unfold in_u. fold W. destruct (Z.leb_spec W (od + b1)); destruct (Z.leb_spec 0 (od + b1)); destruct (Z.ltb_spec (od + b1) W); cbn; try reflexivity; lia. }
    assert (Binv : bitsZ (S n) inv = Bitmap.shl1 (bitsZ (S n) s) false).
    { unfold inv, W. rewrite bitsZ_mod. replace (s * 2) with (2 * s + b2z false) by (cbn [b2z]; lia). rewrite bitsZ_shl1. apply shl1_same. }
    unfold get_escaped, esc_from. rewrite clear0_length, bitsZ_length.
    rewrite <- Bb1, <- Bfo, <- Bod, Bsum, <- Binv.
    split; [|split].
    - rewrite bitsZ_land, bitsZ_lxor, EVbits. apply map2b_to_map3_b.
    - reflexivity.
    - apply land_range; [lia|exact Rfo].
  Qed.
End Generic.

(* ---------- the two instances in the source ---------- *)
Theorem get_escaped_branchless_u64_is_model : forall (prev : bool) (bs : Z), 0 <= bs < 2 ^ 64 ->
  exists e p, get_escaped_branchless_u64 (b2z prev) bs = Some (e, b2z p) /\ 0 <= e < 2 ^ 64 /\
              (bitsZ 64 e, p) = Bitmap.escaped_spec prev (bitsZ 64 bs).
Proof.
  intros prev bs H. rewrite u64_is_generic.
  pose proof (esc_generic_is_model 63 6148914691236517205 12297829382473034410 eq_refl eq_refl prev bs H) as G.
  destruct (esc_generic 64 _ _ (b2z prev) bs) as [e p] eqn:E.
  rewrite get_escaped_correct in G;
    [ | intro Hnil; apply (f_equal (@length bool)) in Hnil; rewrite bitsZ_length in Hnil; discriminate | rewrite bitsZ_length; reflexivity ].
  destruct (escaped_spec prev (bitsZ 64 bs)) as [e' p'] eqn:E'.
  destruct G as [G1 [G2 G3]]. exists e, p'. subst p. repeat split; try apply G3. rewrite G1. reflexivity.
Qed.

Theorem get_escaped_branchless_u32_is_model : forall (prev : bool) (bs : Z), 0 <= bs < 2 ^ 32 ->
  exists e p, get_escaped_branchless_u32 (b2z prev) bs = Some (e, b2z p) /\ 0 <= e < 2 ^ 32 /\
              (bitsZ 32 e, p) = Bitmap.escaped_spec prev (bitsZ 32 bs).
Proof.
  intros prev bs H. rewrite u32_is_generic.
  pose proof (esc_generic_is_model 31 1431655765 2863311530 eq_refl eq_refl prev bs H) as G.
  destruct (esc_generic 32 _ _ (b2z prev) bs) as [e p] eqn:E.
  rewrite get_escaped_correct in G;
    [ | intro Hnil; apply (f_equal (@length bool)) in Hnil; rewrite bitsZ_length in Hnil; discriminate | rewrite bitsZ_length; reflexivity ].
  destruct (escaped_spec prev (bitsZ 32 bs)) as [e' p'] eqn:E'.
  destruct G as [G1 [G2 G3]]. exists e, p'. subst p. repeat split; try apply G3. rewrite G1. reflexivity.
Qed.

(* ---------- prefix_xor (portable) ---------- *)
Lemma stepk_is_Z : forall (k : nat) z, (0 < k)%nat ->
  bitsZ 64 (Z.lxor z ((z * 2 ^ Z.of_nat k) mod 2 ^ 64)) = stepk k (bitsZ 64 z).
Proof.
  intros k z Hk. apply list_ext_nth.
  - rewrite stepk_length, !bitsZ_length. reflexivity.
  - intros i Hi. rewrite bitsZ_length in Hi. unfold stepk.
    change (nth i (xor_l (bitsZ 64 z) (shl k (bitsZ 64 z))) false) with (bit (xor_l (bitsZ 64 z) (shl k (bitsZ 64 z))) i).
    rewrite bit_xor_l by (rewrite shl_length; reflexivity).
    rewrite bit_shl by (rewrite bitsZ_length; exact Hi). unfold bit.
    rewrite bitsZ_lxor, nth_map2b by reflexivity. rewrite !bitsZ_length. cbn [Nat.min].
    destruct (Nat.ltb_spec i 64) as [_|]; [|lia].
    change (2 ^ 64) with (2 ^ Z.of_nat 64). rewrite bitsZ_shiftl_nth by lia. reflexivity.
Qed.

Theorem prefix_xor_fallback_is_spec : forall z, 0 <= z < 2 ^ 64 ->
  exists r, prefix_xor_fallback z = Some r /\ 0 <= r < 2 ^ 64 /\ bitsZ 64 r = prefix_xor_spec false (bitsZ 64 z).
Proof.
  intros z Hz. unfold Gen.Funcs.prefix_xor_fallback. eexists. split; [reflexivity|].
  set (s1 := Z.lxor z ((z * 2) mod 18446744073709551616)).
  set (s2 := Z.lxor s1 ((s1 * 4) mod 18446744073709551616)).
  set (s3 := Z.lxor s2 ((s2 * 16) mod 18446744073709551616)).
  set (s4 := Z.lxor s3 ((s3 * 256) mod 18446744073709551616)).
  set (s5 := Z.lxor s4 ((s4 * 65536) mod 18446744073709551616)).
  set (s6 := Z.lxor s5 ((s5 * 4294967296) mod 18446744073709551616)).
  assert (P : 0 < 2 ^ 64) by reflexivity.
  assert (R : forall a m, 0 <= a < 2 ^ 64 -> 0 <= Z.lxor a ((a * m) mod 18446744073709551616) < 2 ^ 64).
  { intros a m Ha. apply lxor_range; [lia|exact Ha|]. change 18446744073709551616 with (2 ^ 64). apply Z.mod_pos_bound. exact P. }
  assert (R1 : 0 <= s1 < 2 ^ 64) by (apply R; exact Hz).
  assert (R2 : 0 <= s2 < 2 ^ 64) by (apply R; exact R1).
  assert (R3 : 0 <= s3 < 2 ^ 64) by (apply R; exact R2).
  assert (R4 : 0 <= s4 < 2 ^ 64) by (apply R; exact R3).
  assert (R5 : 0 <= s5 < 2 ^ 64) by (apply R; exact R4).
  assert (R6 : 0 <= s6 < 2 ^ 64) by (apply R; exact R5).
  split; [exact R6|].
  assert (B1 : bitsZ 64 s1 = stepk 1 (bitsZ 64 z)) by (apply (stepk_is_Z 1); lia).
  assert (B2 : bitsZ 64 s2 = stepk 2 (bitsZ 64 s1)) by (apply (stepk_is_Z 2); lia).
  assert (B3 : bitsZ 64 s3 = stepk 4 (bitsZ 64 s2)) by (apply (stepk_is_Z 4); lia).
  assert (B4 : bitsZ 64 s4 = stepk 8 (bitsZ 64 s3)) by (apply (stepk_is_Z 8); lia).
  assert (B5 : bitsZ 64 s5 = stepk 16 (bitsZ 64 s4)) by (apply (stepk_is_Z 16); lia).
  assert (B6 : bitsZ 64 s6 = stepk 32 (bitsZ 64 s5)) by (apply (stepk_is_Z 32); lia).
  rewrite B6, B5, B4, B3, B2, B1. fold (PrefixXor.prefix_xor_fallback (bitsZ 64 z)).
  apply list_ext_nth.
  - unfold PrefixXor.prefix_xor_fallback. rewrite !stepk_length, bitsZ_length.
    clear. generalize false. generalize (bitsZ_length 64 z). generalize (bitsZ 64 z). intros l. generalize 64%nat.
    induction l as [|b t IH]; intros m L acc; cbn [length prefix_xor_spec] in *; [symmetry; exact L|].
    destruct m as [|m]; [discriminate|]. f_equal. apply IH. lia.
  - intros i Hi. unfold PrefixXor.prefix_xor_fallback in Hi. rewrite !stepk_length, bitsZ_length in Hi.
    apply (prefix_xor_fallback_correct (bitsZ 64 z) (bitsZ_length 64 z) i Hi).
Qed.
