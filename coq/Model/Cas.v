From Coq Require Import List Arith Lia Bool.
Import ListNotations.

(* ---- model of Inner::parse_from / LazyRaw::load (publish-once cache) ---- *)
Definition ptr := nat.
Inductive cas_kind := Strong | Weak.

Inductive tstate :=
| TStart                      (* before the first load *)
| TAlloc (own : ptr)          (* saw null, decoded, allocated own; about to CAS *)
| TDone (r : ptr)             (* returned a reference to r *)
| TCrash.                     (* dereferenced null / freed *)

Record st := { cell : option ptr; alive : ptr -> bool; next : ptr; thr : list tstate }.

Definition upd (f : ptr -> bool) (p : ptr) (b : bool) : ptr -> bool := fun q => if Nat.eqb q p then b else f q.
Fixpoint set_nth (l : list tstate) (i : nat) (t : tstate) : list tstate :=
  match l, i with [] , _ => [] | _ :: r, 0 => t :: r | x :: r, S j => x :: set_nth r j t end.

(* one step of thread i; [spur] is the scheduler's choice "this weak CAS fails spuriously" *)
Definition step (k : cas_kind) (s : st) (i : nat) (spur : bool) : st :=
  match nth_error (thr s) i with
  | None => s
  | Some TStart =>
      match cell s with
      | Some p => {| cell := cell s; alive := alive s; next := next s; thr := set_nth (thr s) i (if alive s p then TDone p else TCrash) |}
      | None => {| cell := None; alive := upd (alive s) (next s) true; next := S (next s); thr := set_nth (thr s) i (TAlloc (next s)) |}
      end
  | Some (TAlloc own) =>
      match cell s with
      | None =>
          match k, spur with
          | Weak, true => (* Err(null): frees own, then dereferences the null witness *)
              {| cell := None; alive := upd (alive s) own false; next := next s; thr := set_nth (thr s) i TCrash |}
          | _, _ => {| cell := Some own; alive := alive s; next := next s; thr := set_nth (thr s) i (TDone own) |}
          end
      | Some q => (* Err(q): free own, use q *)
          {| cell := cell s; alive := upd (alive s) own false; next := next s;
             thr := set_nth (thr s) i (if alive s q then TDone q else TCrash) |}
      end
  | Some (TDone _) | Some TCrash => s
  end.

Definition init (n : nat) : st := {| cell := None; alive := fun _ => false; next := 0; thr := repeat TStart n |}.

Fixpoint run (k : cas_kind) (s : st) (sched : list (nat * bool)) : st :=
  match sched with [] => s | (i, b) :: r => run k (step k s i b) r end.

(* ---- invariant ---- *)
Definition owns (t : tstate) (p : ptr) : Prop := t = TAlloc p.
Record Inv (s : st) : Prop := {
  inv_cell   : forall p, cell s = Some p -> alive s p = true /\ p < next s;
  inv_fresh  : forall p, next s <= p -> alive s p = false;
  inv_alloc  : forall i p, nth_error (thr s) i = Some (TAlloc p) -> alive s p = true /\ p < next s /\ cell s <> Some p;
  inv_uniq   : forall i j p, nth_error (thr s) i = Some (TAlloc p) -> nth_error (thr s) j = Some (TAlloc p) -> i = j;
  inv_done   : forall i r, nth_error (thr s) i = Some (TDone r) -> cell s = Some r;
  inv_nocrash: forall i, nth_error (thr s) i <> Some TCrash;
  (* ledger: every live allocation is the published one or some thread's pending one *)
  inv_ledger : forall p, alive s p = true -> cell s = Some p \/ exists i, nth_error (thr s) i = Some (TAlloc p)
}.

Lemma nth_set_nth_eq : forall l i t, i < length l -> nth_error (set_nth l i t) i = Some t.
Proof. induction l as [|x l IH]; intros [|i] t H; cbn in *; try lia; [reflexivity|apply IH; lia]. Qed.
Lemma nth_set_nth_neq : forall l i j t, i <> j -> nth_error (set_nth l i t) j = nth_error l j.
Proof. induction l as [|x l IH]; intros [|i] [|j] t H; cbn in *; try congruence; try reflexivity. apply IH; congruence. Qed.
Lemma nth_error_lt : forall (l : list tstate) i x, nth_error l i = Some x -> i < length l.
Proof. intros l i x H. apply nth_error_Some. congruence. Qed.

Lemma init_inv : forall n, Inv (init n).
Proof.
  intros n. split; cbn; intros; try discriminate; try reflexivity.
  - apply nth_error_In, repeat_spec in H. discriminate.
  - apply nth_error_In, repeat_spec in H. discriminate.
  - apply nth_error_In, repeat_spec in H. discriminate.
  - intros H. apply nth_error_In, repeat_spec in H. discriminate.
Qed.

Ltac nth_cases i j H :=
  let E := fresh "E" in let NE := fresh "NE" in
  destruct (Nat.eq_dec i j) as [E|NE];
  [ subst j; rewrite nth_set_nth_eq in H by (eapply nth_error_lt; eassumption) | rewrite nth_set_nth_neq in H by congruence ].

Ltac split_inv := split; cbn [cell alive next thr].

Theorem step_inv_strong : forall s i b, Inv s -> Inv (step Strong s i b).
Proof.
  intros s i b I. unfold step.
  destruct (nth_error (thr s) i) as [t|] eqn:Hi; [|exact I].
  destruct t as [|own|r|]; try exact I.
  - (* TStart *)
    destruct (cell s) as [c|] eqn:Hc.
    + destruct (inv_cell s I c Hc) as [Hal Hlt]. rewrite Hal.
      split_inv.
      * intros p H. inversion H; subst; auto.
      * intros p H. now apply (inv_fresh s I).
      * intros j p H. nth_cases i j H; [discriminate|]. rewrite <- Hc. now apply (inv_alloc s I j).
      * intros j k p H H0. nth_cases i j H; [discriminate|]. nth_cases i k H0; [discriminate|]. now apply (inv_uniq s I j k p).
      * intros j r H. nth_cases i j H; [inversion H; subst; reflexivity|]. rewrite <- Hc. now apply (inv_done s I j).
      * intros j H. nth_cases i j H; [discriminate|]. now apply (inv_nocrash s I j).
      * intros p H. destruct (inv_ledger s I p H) as [Hp|[j Hj]]; [left; congruence|].
        right. exists j. destruct (Nat.eq_dec i j) as [E|NE]; [subst j; congruence|]. now rewrite nth_set_nth_neq by congruence.
    + assert (Hfresh : alive s (next s) = false) by (apply (inv_fresh s I); lia).
      split_inv.
      * intros p H. discriminate.
      * intros p H. unfold upd. destruct (Nat.eqb_spec p (next s)); [lia|]. apply (inv_fresh s I). lia.
      * intros j p H. nth_cases i j H.
        -- inversion H; subst. unfold upd. rewrite Nat.eqb_refl. repeat split; [lia|discriminate].
        -- destruct (inv_alloc s I j p H) as (A & B & C). unfold upd.
           destruct (Nat.eqb_spec p (next s)); [lia|]. repeat split; [exact A|lia|discriminate].
      * intros j k p H H0. nth_cases i j H; nth_cases i k H0; try reflexivity.
        -- inversion H; subst. destruct (inv_alloc s I k (next s) H0) as (_ & B & _). lia.
        -- inversion H0; subst. destruct (inv_alloc s I j (next s) H) as (_ & B & _). lia.
        -- now apply (inv_uniq s I j k p).
      * intros j r H. nth_cases i j H; [discriminate|]. rewrite <- Hc. now apply (inv_done s I j).
      * intros j H. nth_cases i j H; [discriminate|]. now apply (inv_nocrash s I j).
      * intros p H. unfold upd in H. destruct (Nat.eqb_spec p (next s)) as [Ep|Hne].
        -- subst p. right. exists i. apply nth_set_nth_eq. eapply nth_error_lt; eassumption.
        -- destruct (inv_ledger s I p H) as [Hp|[j Hj]]; [congruence|].
           right. exists j. destruct (Nat.eq_dec i j) as [E|NE]; [subst j; congruence|]. now rewrite nth_set_nth_neq by congruence.
  - (* TAlloc own *)
    destruct (inv_alloc s I i own Hi) as (Aown & Lown & Nown).
    destruct (cell s) as [q|] eqn:Hc.
    + (* lost: free own, use q *)
      destruct (inv_cell s I q Hc) as [Hal Hlt]. rewrite Hal.
      assert (Hq : q <> own) by congruence.
      split_inv.
      * intros p H. inversion H; subst. unfold upd. destruct (Nat.eqb_spec p own); [congruence|]. auto.
      * intros p H. unfold upd. destruct (Nat.eqb_spec p own); [reflexivity|]. now apply (inv_fresh s I).
      * intros j p H. nth_cases i j H; [discriminate|]. destruct (inv_alloc s I j p H) as (A & B & C).
        unfold upd. destruct (Nat.eqb_spec p own) as [Ep|Np].
        -- subst p. exfalso. apply NE. symmetry. now apply (inv_uniq s I j i own).
        -- rewrite <- Hc. auto.
      * intros j k p H H0. nth_cases i j H; [discriminate|]. nth_cases i k H0; [discriminate|]. now apply (inv_uniq s I j k p).
      * intros j r H. nth_cases i j H; [inversion H; subst; reflexivity|]. rewrite <- Hc. now apply (inv_done s I j).
      * intros j H. nth_cases i j H; [discriminate|]. now apply (inv_nocrash s I j).
      * intros p H. unfold upd in H. destruct (Nat.eqb_spec p own); [discriminate|].
        destruct (inv_ledger s I p H) as [Hp|[j Hj]]; [left; congruence|].
        right. exists j. destruct (Nat.eq_dec i j) as [E|NE]; [subst j; congruence|]. now rewrite nth_set_nth_neq by congruence.
    + (* strong CAS on null succeeds: publish own *)
      split_inv.
      * intros p H. inversion H; subst. auto.
      * intros p H. now apply (inv_fresh s I).
      * intros j p H. nth_cases i j H; [discriminate|]. destruct (inv_alloc s I j p H) as (A & B & C).
        repeat split; auto. intros E'. assert (Ep : p = own) by congruence. subst p. apply NE. symmetry. now apply (inv_uniq s I j i own).
      * intros j k p H H0. nth_cases i j H; [discriminate|]. nth_cases i k H0; [discriminate|]. now apply (inv_uniq s I j k p).
      * intros j r H. nth_cases i j H; [inversion H; subst; reflexivity|]. pose proof (inv_done s I j r H). congruence.
      * intros j H. nth_cases i j H; [discriminate|]. now apply (inv_nocrash s I j).
      * intros p H. destruct (inv_ledger s I p H) as [Hp|[j Hj]]; [congruence|].
        destruct (Nat.eq_dec i j) as [E|NE].
        -- subst j. left. congruence.
        -- right. exists j. now rewrite nth_set_nth_neq by congruence.
Qed.

Theorem strong_safe : forall n sched, Inv (run Strong (init n) sched).
Proof.
  intros n sched. generalize (init_inv n). generalize (init n).
  induction sched as [|[i b] r IH]; intros s I; cbn [run]; [exact I|]. apply IH. now apply step_inv_strong.
Qed.

(* every schedule: no crash, at most one published, every live allocation accounted for *)
Corollary strong_no_crash : forall n sched i, nth_error (thr (run Strong (init n) sched)) i <> Some TCrash.
Proof. intros. apply inv_nocrash, strong_safe. Qed.

(* the code as written (weak CAS): one thread, one spurious failure, null is dereferenced *)
Theorem weak_refuted : exists sched, nth_error (thr (run Weak (init 1) sched)) 0 = Some TCrash.
Proof. exists [(0, false); (0, true)]. reflexivity. Qed.

Example strong_nonvacuous : thr (run Strong (init 2) [(0,false);(1,false);(1,false);(0,false)]) = [TDone 1; TDone 1].
Proof. reflexivity. Qed.
Print Assumptions strong_safe.
