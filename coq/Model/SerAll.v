(* Model/SerAll.v -- the serializer of a JSON tree (Serializer + CompactFormatter / PrettyFormatter +
   format_string) closed over the escape tables: ser_compact / ser_pretty of a reference tree.
   Strings are quoted with the specification escaper, numbers keep their literal. *)
From Coq Require Import List NArith Arith Bool.
From SonicV Require Import Spec.Ref Model.Escape Model.TablesDefs Model.SerRoundTrip Model.Pretty.
Import ListNotations.
Open Scope N_scope.

Definition quote_string (d : list N) : list N := 34 :: Escape.spec_escape need_spec quote_spec d ++ [34].

Fixpoint conv (fuel : nat) (v : Ref.jv) : SerRoundTrip.jv (list N) (list N) :=
  match fuel with O => SerRoundTrip.JS _ _ [] | S f =>
  match v with
  | JNull => SerRoundTrip.JS _ _ [110; 117; 108; 108]
  | JBool true => SerRoundTrip.JS _ _ [116; 114; 117; 101]
  | JBool false => SerRoundTrip.JS _ _ [102; 97; 108; 115; 101]
  | JNum lit => SerRoundTrip.JS _ _ lit
  | JStr d _ => SerRoundTrip.JS _ _ (quote_string d)
  | Ref.JArr xs => SerRoundTrip.JArr _ _ (map (fun x => conv f (snd x)) xs)
  | Ref.JObj ms => SerRoundTrip.JObj _ _ (map (fun m => (quote_string (fst (fst (fst m))), conv f (snd m))) ms)
  end end.

Fixpoint convp (fuel : nat) (v : Ref.jv) : Pretty.jv (list N) (list N) :=
  match fuel with O => Pretty.JS _ _ [] | S f =>
  match v with
  | JNull => Pretty.JS _ _ [110; 117; 108; 108]
  | JBool true => Pretty.JS _ _ [116; 114; 117; 101]
  | JBool false => Pretty.JS _ _ [102; 97; 108; 115; 101]
  | JNum lit => Pretty.JS _ _ lit
  | JStr d _ => Pretty.JS _ _ (quote_string d)
  | Ref.JArr xs => Pretty.JArr _ _ (map (fun x => convp f (snd x)) xs)
  | Ref.JObj ms => Pretty.JObj _ _ (map (fun m => (quote_string (fst (fst (fst m))), convp f (snd m))) ms)
  end end.

Definition ser_compact (v : Ref.jv) : list N :=
  SerRoundTrip.print (list N) (list N) (fun s => s) (fun k => k) (conv (S (Ref.depth v)) v).
Definition ser_pretty (v : Ref.jv) : list N :=
  Pretty.pretty (list N) (list N) (fun s => s) (fun k => k) 0 (convp (S (Ref.depth v)) v).
