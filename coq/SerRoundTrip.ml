open BinNums
open Datatypes

type ('scalar, 'key) jv =
| JS of 'scalar
| JArr of ('scalar, 'key) jv list
| JObj of ('key * ('scalar, 'key) jv) list

(** val print :
    ('a1 -> coq_N list) -> ('a2 -> coq_N list) -> ('a1, 'a2) jv -> coq_N list **)

let rec print print_scalar print_key = function
| JS s -> print_scalar s
| JArr xs ->
  (Npos (Coq_xI (Coq_xI (Coq_xO (Coq_xI (Coq_xI (Coq_xO
    Coq_xH))))))) :: (app
                       (let rec go first = function
                        | [] -> []
                        | x :: r ->
                          app
                            (if first
                             then []
                             else (Npos (Coq_xO (Coq_xO (Coq_xI (Coq_xI
                                    (Coq_xO Coq_xH)))))) :: [])
                            (app (print print_scalar print_key x)
                              (go false r))
                        in go true xs) ((Npos (Coq_xI (Coq_xO (Coq_xI (Coq_xI
                       (Coq_xI (Coq_xO Coq_xH))))))) :: []))
| JObj ms ->
  (Npos (Coq_xI (Coq_xI (Coq_xO (Coq_xI (Coq_xI (Coq_xI
    Coq_xH))))))) :: (app
                       (let rec go first = function
                        | [] -> []
                        | p :: r ->
                          let (k, x) = p in
                          app
                            (if first
                             then []
                             else (Npos (Coq_xO (Coq_xO (Coq_xI (Coq_xI
                                    (Coq_xO Coq_xH)))))) :: [])
                            (app (print_key k) ((Npos (Coq_xO (Coq_xI (Coq_xO
                              (Coq_xI (Coq_xI
                              Coq_xH)))))) :: (app
                                                (print print_scalar print_key
                                                  x) (go false r))))
                        in go true ms) ((Npos (Coq_xI (Coq_xO (Coq_xI (Coq_xI
                       (Coq_xI (Coq_xI Coq_xH))))))) :: []))
