open BinNat
open BinNums

(** val digit : coq_N -> bool **)

let digit c =
  (&&) (N.leb (Npos (Coq_xO (Coq_xO (Coq_xO (Coq_xO (Coq_xI Coq_xH)))))) c)
    (N.leb c (Npos (Coq_xI (Coq_xO (Coq_xO (Coq_xI (Coq_xI Coq_xH)))))))

(** val is_e : coq_N -> bool **)

let is_e c =
  (||)
    (N.eqb c (Npos (Coq_xI (Coq_xO (Coq_xI (Coq_xO (Coq_xO (Coq_xI
      Coq_xH))))))))
    (N.eqb c (Npos (Coq_xI (Coq_xO (Coq_xI (Coq_xO (Coq_xO (Coq_xO
      Coq_xH))))))))

(** val is_sign : coq_N -> bool **)

let is_sign c =
  (||) (N.eqb c (Npos (Coq_xI (Coq_xI (Coq_xO (Coq_xI (Coq_xO Coq_xH)))))))
    (N.eqb c (Npos (Coq_xI (Coq_xO (Coq_xI (Coq_xI (Coq_xO Coq_xH)))))))

(** val digits : coq_N list -> coq_N list **)

let rec digits l = match l with
| [] -> []
| c :: r -> if digit c then digits r else l

(** val exp_part : coq_N list -> coq_N list option **)

let exp_part l =
  let l1 = match l with
           | [] -> l
           | c :: r -> if is_sign c then r else l in
  (match l1 with
   | [] -> None
   | d :: r -> if digit d then Some (digits r) else None)

(** val after_frac : coq_N list -> coq_N list option **)

let after_frac l = match l with
| [] -> Some l
| c :: r -> if is_e c then exp_part r else Some l

(** val after_int : coq_N list -> coq_N list option **)

let after_int l = match l with
| [] -> Some l
| c :: r ->
  if N.eqb c (Npos (Coq_xO (Coq_xI (Coq_xI (Coq_xI (Coq_xO Coq_xH))))))
  then (match r with
        | [] -> None
        | d :: r' -> if digit d then after_frac (digits r') else None)
  else if is_e c then exp_part r else Some l

(** val go : coq_N -> coq_N list -> coq_N list option **)

let go first l = match l with
| [] -> Some []
| second :: _ ->
  if (&&)
       (N.eqb first (Npos (Coq_xO (Coq_xO (Coq_xO (Coq_xO (Coq_xI
         Coq_xH))))))) (digit second)
  then None
  else after_int (digits l)

(** val skip_num : coq_N -> coq_N list -> coq_N list option **)

let skip_num first l =
  if N.eqb first (Npos (Coq_xI (Coq_xO (Coq_xI (Coq_xI (Coq_xO Coq_xH))))))
  then (match l with
        | [] -> None
        | d :: r -> if digit d then go d r else None)
  else go first l
