open BinInt
open BinNat
open BinNums
open Datatypes
open List

val dig : coq_N -> bool

val take_digits : coq_N list -> coq_N list * coq_N list

val dval : coq_N list -> coq_Z

type decimal = { neg : bool; mant : coq_Z; exp10 : coq_Z; plain_int : bool }

val neg : decimal -> bool

val mant : decimal -> coq_Z

val exp10 : decimal -> coq_Z

val plain_int : decimal -> bool

val parse_lit : coq_N list -> decimal

val ndigits_f : nat -> coq_Z -> coq_Z

val ndigits : coq_Z -> coq_Z

val rne_div : coq_Z -> coq_Z -> coq_Z

type f64res =
| Bits of coq_Z
| Infinite

val f64res_rect : (coq_Z -> 'a1) -> 'a1 -> f64res -> 'a1

val f64res_rec : (coq_Z -> 'a1) -> 'a1 -> f64res -> 'a1

val round_rat : coq_Z -> coq_Z -> coq_Z -> coq_Z -> f64res

val round_pos : coq_Z -> coq_Z -> f64res

val round_f64 : decimal -> f64res

val narrow_f32 : coq_Z -> coq_Z option

type numclass =
| CU64 of coq_Z
| CI64 of coq_Z
| CF64 of coq_Z
| CInf

val numclass_rect :
  (coq_Z -> 'a1) -> (coq_Z -> 'a1) -> (coq_Z -> 'a1) -> 'a1 -> numclass -> 'a1

val numclass_rec :
  (coq_Z -> 'a1) -> (coq_Z -> 'a1) -> (coq_Z -> 'a1) -> 'a1 -> numclass -> 'a1

val classify : coq_N list -> numclass

val finite_lit : coq_N list -> bool

val widen_f32 : coq_Z -> coq_Z
