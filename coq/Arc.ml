open Datatypes
open List
open Nat

type st = { count : (nat -> nat); freed : (nat -> bool); nxt : nat;
            handles : nat option list }

(** val upd : (nat -> 'a1) -> nat -> 'a1 -> nat -> 'a1 **)

let upd f a v b =
  if PeanoNat.Nat.eqb b a then v else f b

(** val set_nth : nat option list -> nat -> nat option -> nat option list **)

let rec set_nth l i v =
  match l with
  | [] -> []
  | x :: r -> (match i with
               | O -> v :: r
               | S j -> x :: (set_nth r j v))

type op =
| Parse
| Clone of nat
| Promote of nat * nat
| Drop of nat

type res =
| Next of st
| UseAfterFree
| DoubleFree

(** val dec : st -> nat -> nat option list -> res **)

let dec s a hs =
  if s.freed a
  then DoubleFree
  else (match s.count a with
        | O -> DoubleFree
        | S c ->
          (match c with
           | O ->
             Next { count = (upd s.count a O); freed = (upd s.freed a true);
               nxt = s.nxt; handles = hs }
           | S _ ->
             Next { count = (upd s.count a c); freed = s.freed; nxt = s.nxt;
               handles = hs }))

(** val step : st -> op -> res **)

let step s = function
| Parse ->
  Next { count = (upd s.count s.nxt (S O)); freed = s.freed; nxt = (S s.nxt);
    handles = (app s.handles ((Some s.nxt) :: [])) }
| Clone i ->
  (match nth_error s.handles i with
   | Some o0 ->
     (match o0 with
      | Some a ->
        if s.freed a
        then UseAfterFree
        else Next { count = (upd s.count a (S (s.count a))); freed = s.freed;
               nxt = s.nxt; handles = (app s.handles ((Some a) :: [])) }
      | None -> Next s)
   | None -> Next s)
| Promote (i, n) ->
  (match nth_error s.handles i with
   | Some o0 ->
     (match o0 with
      | Some a ->
        if s.freed a
        then UseAfterFree
        else dec { count = (upd s.count a (add n (s.count a))); freed =
               s.freed; nxt = s.nxt; handles = s.handles } a
               (app (set_nth s.handles i None) (repeat (Some a) n))
      | None -> Next s)
   | None -> Next s)
| Drop i ->
  (match nth_error s.handles i with
   | Some o0 ->
     (match o0 with
      | Some a -> dec s a (set_nth s.handles i None)
      | None -> Next s)
   | None -> Next s)

(** val runh : st -> op list -> res **)

let rec runh s = function
| [] -> Next s
| o :: r -> (match step s o with
             | Next s' -> runh s' r
             | x -> x)
