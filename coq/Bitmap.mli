open Datatypes

val shl1 : bool list -> bool -> bool list

val evens : nat -> bool -> bool list

val add : bool list -> bool list -> bool -> bool list * bool

val map3 :
  (bool -> bool -> bool -> bool) -> bool list -> bool list -> bool list ->
  bool list

val esc_from : bool -> bool -> bool -> bool -> bool list -> bool list * bool

val clear0 : bool -> bool list -> bool list

val get_escaped : bool -> bool list -> bool list * bool

val escaped_spec : bool -> bool list -> bool list * bool
