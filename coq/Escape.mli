open BinNums
open Blocks
open Datatypes
open List
open PeanoNat

val esc1 : (coq_N -> bool) -> (coq_N -> coq_N list) -> coq_N -> coq_N list

val spec_escape :
  (coq_N -> bool) -> (coq_N -> coq_N list) -> coq_N list -> coq_N list

val esc_run :
  (coq_N -> bool) -> (coq_N -> coq_N list) -> coq_N list -> coq_N
  list * coq_N list

val fmt :
  (coq_N -> bool) -> (coq_N -> coq_N list) -> nat -> coq_N list -> coq_N list
