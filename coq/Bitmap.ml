open Datatypes

(** val shl1 : bool list -> bool -> bool list **)

let rec shl1 x cin =
  match x with
  | [] -> []
  | b :: t -> cin :: (shl1 t b)

(** val evens : nat -> bool -> bool list **)

let rec evens n par =
  match n with
  | O -> []
  | S k -> par :: (evens k (negb par))

(** val add : bool list -> bool list -> bool -> bool list * bool **)

let rec add a b c =
  match a with
  | [] -> ([], c)
  | x :: a' ->
    (match b with
     | [] -> ([], c)
     | y :: b' ->
       let (r, co) = add a' b' ((||) ((&&) x y) ((&&) c (xorb x y))) in
       (((xorb (xorb x y) c) :: r), co))

(** val map3 :
    (bool -> bool -> bool -> bool) -> bool list -> bool list -> bool list ->
    bool list **)

let rec map3 g a b c =
  match a with
  | [] -> []
  | x :: a' ->
    (match b with
     | [] -> []
     | y :: b' ->
       (match c with
        | [] -> []
        | z :: c' -> (g x y z) :: (map3 g a' b' c')))

(** val esc_from :
    bool -> bool -> bool -> bool -> bool list -> bool list * bool **)

let esc_from par fin cin sin b =
  let even = evens (length b) par in
  let follows = shl1 b fin in
  let odd_starts =
    map3 (fun bi ev fi -> (&&) ((&&) bi (negb ev)) (negb fi)) b even follows
  in
  let (s, ov) = add odd_starts b cin in
  let inv = shl1 s sin in
  ((map3 (fun ev iv fi -> (&&) (xorb ev iv) fi) even inv follows), ov)

(** val clear0 : bool -> bool list -> bool list **)

let clear0 prev = function
| [] -> []
| b :: t -> ((&&) b (negb prev)) :: t

(** val get_escaped : bool -> bool list -> bool list * bool **)

let get_escaped prev bs =
  esc_from true prev false false (clear0 prev bs)

(** val escaped_spec : bool -> bool list -> bool list * bool **)

let rec escaped_spec e = function
| [] -> ([], e)
| b :: t ->
  let (r, last) = escaped_spec ((&&) b (negb e)) t in ((e :: r), last)
