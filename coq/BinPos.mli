open BinNums
open BinPosDef
open Datatypes
open Nat

module Pos :
 sig
  val succ : positive -> positive

  val add : positive -> positive -> positive

  val add_carry : positive -> positive -> positive

  val pred_double : positive -> positive

  val pred_N : positive -> coq_N

  type mask = Pos.mask =
  | IsNul
  | IsPos of positive
  | IsNeg

  val succ_double_mask : mask -> mask

  val double_mask : mask -> mask

  val double_pred_mask : positive -> mask

  val sub_mask : positive -> positive -> mask

  val sub_mask_carry : positive -> positive -> mask

  val mul : positive -> positive -> positive

  val iter : ('a1 -> 'a1) -> 'a1 -> positive -> 'a1

  val pow : positive -> positive -> positive

  val size : positive -> positive

  val compare_cont : comparison -> positive -> positive -> comparison

  val compare : positive -> positive -> comparison

  val eqb : positive -> positive -> bool

  val coq_Nsucc_double : coq_N -> coq_N

  val coq_Ndouble : coq_N -> coq_N

  val coq_lor : positive -> positive -> positive

  val coq_land : positive -> positive -> coq_N

  val shiftl : positive -> coq_N -> positive

  val iter_op : ('a1 -> 'a1 -> 'a1) -> positive -> 'a1 -> 'a1

  val to_nat : positive -> nat

  val of_succ_nat : nat -> positive

  val eq_dec : positive -> positive -> bool
 end
