open BinNums
open Blocks
open Datatypes
open List
open PeanoNat

(** val esc1 :
    (coq_N -> bool) -> (coq_N -> coq_N list) -> coq_N -> coq_N list **)

let esc1 need quote c =
  if need c then quote c else c :: []

(** val spec_escape :
    (coq_N -> bool) -> (coq_N -> coq_N list) -> coq_N list -> coq_N list **)

let spec_escape need quote s =
  flat_map (esc1 need quote) s

(** val esc_run :
    (coq_N -> bool) -> (coq_N -> coq_N list) -> coq_N list -> coq_N
    list * coq_N list **)

let rec esc_run need quote l = match l with
| [] -> ([], [])
| c :: r ->
  if need c
  then let (o, rest) = esc_run need quote r in ((app (quote c) o), rest)
  else ([], l)

(** val fmt :
    (coq_N -> bool) -> (coq_N -> coq_N list) -> nat -> coq_N list -> coq_N
    list **)

let rec fmt need quote fuel s =
  match fuel with
  | O -> []
  | S f ->
    let full =
      Nat.leb (S (S (S (S (S (S (S (S (S (S (S (S (S (S (S (S (S (S (S (S (S
        (S (S (S (S (S (S (S (S (S (S (S O))))))))))))))))))))))))))))))))
        (length s)
    in
    let blk =
      if full
      then firstn (S (S (S (S (S (S (S (S (S (S (S (S (S (S (S (S (S (S (S (S
             (S (S (S (S (S (S (S (S (S (S (S (S
             O)))))))))))))))))))))))))))))))) s
      else s
    in
    (match find_first need blk with
     | Some cn ->
       app (firstn cn s)
         (let (o, rest) = esc_run need quote (skipn cn s) in
          app o (fmt need quote f rest))
     | None ->
       app blk
         (if full
          then fmt need quote f
                 (skipn (S (S (S (S (S (S (S (S (S (S (S (S (S (S (S (S (S (S
                   (S (S (S (S (S (S (S (S (S (S (S (S (S (S
                   O)))))))))))))))))))))))))))))))) s)
          else []))
