open Datatypes
open List

val prefix_xor_spec : bool -> bool list -> bool list

val shl : nat -> bool list -> bool list

val xor_l : bool list -> bool list -> bool list

val stepk : nat -> bool list -> bool list

val prefix_xor_fallback : bool list -> bool list
